"""C11 — EPR requests and results cross the SDK/controller boundary intact (claimed in part).

All T-table unless noted, exhaustive over the tables:
C11.I  SER_* index constants = positions in the link-layer namedtuples; lengths agree
C11.S  serialize_request: each parameter goes to its own slot; deserialize_*: each result attribute reads its own slot
C11.C  coercion completeness: every LinkLayerCreate field a consumer treats as an enum is coerced by _get_create_request
C11.E  by-value enum conversions join enums with identical name->value maps
C11.F  forwarding completeness: an EPRSocket API function that forwards to a sibling or builds EntRequestParams passes every same-named parameter
C11.O  operand roles of create_epr / recv_epr: builder args+operands order = instruction property order = executor reads
C11.R  response <-> result array: enums lowered to values; slices of OK_FIELDS
"""
from __future__ import annotations

import ast
import os
from typing import Dict, List, Optional, Set, Tuple

from .. import astutil as A
from .. import guards as G
from .. import roles
from .. import instrs as I
from . import c12
from ..model import AnalysisError, EnumMember, NamedTupleType, Unknown, dotted, src

TECHNIQUE = "AST table agreement (index constants vs namedtuple fields), coercion- and forwarding-completeness rules, operand-role agreement; abstract interpretation of small functions over an enumerated finite domain by the checker's own AST interpreter (static analysis)"
ENGINES = ["model", "instrs", "circuit"]
EXPLANATION = (
    "Index constants of sdk/build_epr.py are evaluated and compared with the field positions of LinkLayerCreate / LinkLayerOKTypeK / "
    "LinkLayerOKTypeM (qlink_compat.py), lengths with network_stack's *_FIELDS; serialize_request's slot assignments and the "
    "deserialize_* slot reads are matched by name; every LinkLayerCreate field on which request_to_qlink_1_0 / the executor use "
    "`.value` or compare with an enum member must be coerced to that enum where the request is rebuilt from integers; enum classes "
    "joined by value have identical name->value maps (qlink_interface read from its installed source); every EPRSocket API method "
    "passes all same-named parameters on to the sibling method / EntRequestParams it delegates to; the create_epr / recv_epr "
    "operand roles agree between builder, instruction class and executor."
    ' A slot of the request array is written under tests on the request type and its own field only; LinkLayerCreate has one default per field (the executor zips arguments, fields and defaults). C11.Z: no truthiness test on an int-typed value.'
    ' C11.K: a value remembered across calls (keyed table or single slot) is remembered under every argument it depends on.'
    ' C11.R executes _alloc_ent_results_array abstractly for the three request types.'
)
LEVEL_TEXT = (
    "Static analysis, partial: all 40 index constants, all request parameters, all result attributes, all forwarding call sites and "
    "both EPR instructions are decided. Not decided: the values of fields chosen by the network stack."
)
LEVEL_NOTE = "name-based matching of constants to tuple fields with a frozen alias line for the two misspelt constants; qlink_interface enums read from its installed source (assumption recorded if absent)"
ASSUMPTIONS = [LEVEL_NOTE]
BE = "netqasm.sdk.build_epr"
QC = "netqasm.qlink_compat"
NS = "netqasm.backend.network_stack"
EXE = "netqasm.backend.executor"
ALIAS = {"probabliity_dist_local2": "probability_dist_local2", "probabliity_dist_remote2": "probability_dist_remote2", "directoniality_flag": "directionality_flag"}
RESULT_ATTR_SLOT = {"qubit_id": "logical_qubit_id", "remote_node_id": "remote_node_id", "generation_duration": "goodness", "raw_bell_state": "bell_state",
                    "raw_measurement_outcome": "measurement_outcome"}


def tuple_fields(ctx, name) -> Tuple[str, ...]:
    try:
        v = ctx.ev.name(QC, name)
    except Unknown as e:
        raise AnalysisError(f"{name}: {e}")
    if not isinstance(v, NamedTupleType):
        raise AnalysisError(f"{name} is not a namedtuple")
    return v.fields


def check_indices(ctx):
    repo, ev = ctx.repo, ctx.ev
    m = repo.module(BE)
    fams = {"SER_CREATE_IDX_": ("LinkLayerCreate", 2, "SER_CREATE_LEN", "CREATE_FIELDS"),
            "SER_RESPONSE_KEEP_IDX_": ("LinkLayerOKTypeK", 0, "SER_RESPONSE_KEEP_LEN", "OK_FIELDS_K"),
            "SER_RESPONSE_MEASURE_IDX_": ("LinkLayerOKTypeM", 0, "SER_RESPONSE_MEASURE_LEN", "OK_FIELDS_M")}
    total = 0
    values: Dict[str, Dict[str, int]] = {}
    for prefix, (tname, off, lenname, nsname) in fams.items():
        fields = [f.lower() for f in tuple_fields(ctx, tname)]
        seen = {}
        for cname, expr in m.assigns.items():
            if not cname.startswith(prefix):
                continue
            total += 1
            try:
                val = ev.eval(expr, m)
            except Unknown as e:
                ctx.error("C11.I", f"{cname}: {e}")
                continue
            fname = cname[len(prefix):].lower()
            fname = ALIAS.get(fname, fname)
            if fname not in fields:
                ctx.check("C11.I", f"{cname}:names-a-field", False, f"{cname} does not name a field of {tname} ({fname!r})", repo.loc(m, expr))
                continue
            exp = fields.index(fname) - off
            seen[fname] = val
            ctx.check("C11.I", f"{cname}", val == exp, f"{cname} = {val} but field `{fname}` is at position {exp} of {tname}{' (minus the two leading immediates)' if off else ''}: the SDK and the controller would read/write different slots",
                      repo.loc(m, expr), sample={"constant": cname, "value": val, "field_position": exp} if total % 8 == 1 else None)
        values[prefix] = seen
        # contiguous and complete
        exp_fields = fields[off:]
        missing = [f for f in exp_fields if f not in seen]
        ctx.check("C11.I", f"{prefix}*:covers-every-field", not missing, f"no index constant for fields {missing} of {tname}", repo.loc(m, m.tree))
        try:
            ln = ev.name(BE, lenname)
            nsv = ev.name(NS, nsname)
        except Unknown as e:
            raise AnalysisError(f"{lenname}/{nsname}: {e}")
        ctx.check("C11.I", f"{lenname}={nsname}", ln == nsv == len(exp_fields), f"{lenname} = {ln}, {nsname} = {nsv}, {tname} has {len(exp_fields)} serialised fields", repo.loc(m, m.assigns[lenname]),
                  sample={"len_constant": lenname, "value": ln})
    ctx.anchor("C11.I", "SER_* index constants", total, 40)
    k, mm = ev.name(NS, "OK_FIELDS_K"), ev.name(NS, "OK_FIELDS_M")
    ctx.check("C11.I", "OK_FIELDS_K=OK_FIELDS_M", k == mm, f"OK_FIELDS_K = {k} but OK_FIELDS_M = {mm}; the executor slices both result kinds with the K constant", "netqasm/backend/network_stack.py")
    # the executor's OK_FIELDS is the K constant
    ex = repo.module(EXE)
    ok = ex.imports.get("OK_FIELDS") == (NS, "OK_FIELDS_K")
    ctx.check("C11.I", "executor:OK_FIELDS-is-OK_FIELDS_K", ok, f"executor imports OK_FIELDS as {ex.imports.get('OK_FIELDS')}", "netqasm/backend/executor.py", trivial=True)
    return values


def check_serialize(ctx):
    repo, ev = ctx.repo, ctx.ev
    m = repo.module(BE)
    fn = m.functions.get("serialize_request")
    if fn is None:
        raise AnalysisError("serialize_request not found")
    ctx.fn("build_epr.serialize_request")
    pt, pp = A.param_names(fn)[:2]
    n = 0
    for st in A.body_nodes(fn):
        if isinstance(st, ast.Assign) and isinstance(st.targets[0], ast.Subscript) and isinstance(st.targets[0].slice, ast.Name) and st.targets[0].slice.id.startswith("SER_CREATE_IDX_"):
            n += 1
            slot = st.targets[0].slice.id[len("SER_CREATE_IDX_"):].lower()
            slot = ALIAS.get(slot, slot)
            v = A.norm(st.value)
            if slot == "type":
                exp = [f"{pt}.value"]
            elif slot.startswith("rotation_"):
                side = "local" if "local" in slot else "remote"
                idx = {"x1": 0, "y": 1, "x2": 2}["x1" if slot.endswith("1") else ("x2" if slot.endswith("2") else "y")]
                exp = [f"{pp}.rotations_{side}[{idx}]"]
            elif slot in ("time_unit", "random_basis_local", "random_basis_remote"):
                exp = [f"{pp}.{slot}.value"]
            else:
                exp = [f"{pp}.{slot}"]
            ctx.check("C11.S", f"serialize_request:{slot}", v in exp, f"slot `{slot}` of the argument array is filled with `{src(st.value)}`; expected `{exp[0]}`", repo.loc(m, st),
                      sample={"slot": slot, "source": src(st.value)})
            # the write may depend on the request type and on its own field only (elif arms count with the negated earlier tests)
            own = {"type": set(), "time_unit": {"time_unit", "max_time"}}.get(slot)
            if own is None:
                own = {f"rotations_{'local' if 'local' in slot else 'remote'}"} if slot.startswith("rotation_") else {slot}
            others = set()
            for t, pol in G.path_conditions(fn, st):
                for x in ast.walk(t):
                    if isinstance(x, ast.Attribute) and isinstance(x.value, ast.Name) and x.value.id == pp and x.attr not in own:
                        others.add(x.attr)
            ctx.check("C11.S", f"serialize_request:{slot}:written-whenever-its-own-field-is-set", not others,
                      f"slot `{slot}` is written only under a condition on other request fields ({', '.join(sorted(others))}): for some combinations of arguments the field never reaches the array "
                      "and the network stack sees its default instead", repo.loc(m, st), sample={"slot": slot, "guard_fields": sorted(own)})
    ctx.anchor("C11.S", "slot assignments in serialize_request", n, 12)
    # array length
    d = A.single_defs(fn)
    ok = "array" in d and "SER_CREATE_LEN" in A.norm(d["array"])
    ctx.check("C11.S", "serialize_request:array-length", ok, "the argument array is not created with SER_CREATE_LEN entries", repo.loc(m, fn), trivial=True)
    # deserialize
    for fname, fam, lenname, cls in (("deserialize_epr_keep_results", "SER_RESPONSE_KEEP_IDX_", "SER_RESPONSE_KEEP_LEN", "EprKeepResult"),
                                     ("deserialize_epr_measure_results", "SER_RESPONSE_MEASURE_IDX_", "SER_RESPONSE_MEASURE_LEN", "EprMeasureResult")):
        f2 = m.functions.get(fname)
        if f2 is None:
            raise AnalysisError(f"{fname} not found")
        ctx.fn(f"build_epr.{fname}")
        # one result per requested pair: the constructor is evaluated once per i in range(request.number), as a loop or a comprehension
        preq, parr = A.param_names(f2)[:2]
        iters = [(x.target, x.iter, x) for x in ast.walk(f2) if isinstance(x, ast.For)] + [(g.target, g.iter, x) for x in ast.walk(f2) if isinstance(x, ast.ListComp) for g in x.generators]
        iters = [(t_, it_, x) for t_, it_, x in iters if A.norm(it_) == f"range({preq}.number)" and isinstance(t_, ast.Name)]
        calls = [(c, x) for t_, it_, x in iters for c in ast.walk(x) if isinstance(c, ast.Call) and A.call_name(c) == cls]
        ok_loop = len(iters) == 1 and len(calls) == 1
        ctx.check("C11.S", f"{fname}:one-result-per-pair", ok_loop, f"{fname} does not build one result per requested pair", repo.loc(m, f2))
        if not ok_loop:
            continue
        iv = iters[0][0].id
        d2 = A.single_defs(f2)
        d2.update({st.targets[0].id: st.value for st in ast.walk(iters[0][2]) if isinstance(st, ast.Assign) and isinstance(st.targets[0], ast.Name)})
        length = ev.try_eval(ast.Name(id=lenname, ctx=ast.Load()), m)

        def offset_fn(e):
            """value of the index expression for i = 0, 1, 2, 5 (None when it cannot be evaluated)"""
            e = A.expand(e, {k_: v_ for k_, v_ in d2.items() if k_ != iv})
            env = {}
            for x in ast.walk(e):
                if isinstance(x, ast.Name) and x.id.isupper():
                    env[x.id] = ev.try_eval(x, m)
            try:
                return [G.peval(e, dict(env, **{iv: k_})) for k_ in (0, 1, 2, 5)]
            except Unknown:
                return None

        firsts = []
        for k, v in A.kwargs_of(calls[0][0]).items():
            if k not in RESULT_ATTR_SLOT:
                continue
            slotname = f"{fam}{RESULT_ATTR_SLOT[k].upper()}"
            slot_val = ev.try_eval(ast.Name(id=slotname, ctx=ast.Load()), m)
            if slot_val is None:
                slot_val = ev.try_eval(ast.Name(id=slotname.replace("DIRECTIONALITY", "DIRECTONIALITY"), ctx=ast.Load()), m)
            got = None
            if isinstance(v, ast.Call) and A.norm(v.func) == f"{parr}.get_future_index" and len(v.args) == 1:
                got = offset_fn(v.args[0])
            want = [k_ * length + slot_val for k_ in (0, 1, 2, 5)] if isinstance(length, int) and isinstance(slot_val, int) else None
            if got is not None:
                firsts.append(got[0] - (slot_val or 0) if isinstance(got[0], int) else None)
            ctx.check("C11.S", f"{fname}:{k}", got is not None and got == want, f"result attribute `{k}` reads `{src(v)}` (indices {got} for pairs 0, 1, 2, 5); expected slot {slotname} of pair i, i.e. {want}", repo.loc(m, v),
                      sample={"result": cls, "attribute": k, "slot": RESULT_ATTR_SLOT[k]})
        ctx.check("C11.S", f"{fname}:pair-i-starts-at-i*LEN", bool(firsts) and all(f_ == 0 for f_ in firsts), f"pair 0 is not read from the start of the array (offsets {firsts})", repo.loc(m, f2), trivial=True)


def enum_uses(repo, m, fn, param) -> Dict[str, Set[str]]:
    """fields of `param` used with .value (-> 'value') or compared with an enum member (-> enum class name)"""
    out: Dict[str, Set[str]] = {}
    for n in ast.walk(fn):
        if isinstance(n, ast.Attribute) and n.attr == "value" and isinstance(n.value, ast.Attribute) and isinstance(n.value.value, ast.Name) and n.value.value.id == param:
            out.setdefault(n.value.attr, set()).add(".value")
        if isinstance(n, ast.Compare) and len(n.ops) == 1 and isinstance(n.ops[0], (ast.Eq, ast.NotEq, ast.Is, ast.IsNot)):
            l, r = n.left, n.comparators[0]
            for a, b in ((l, r), (r, l)):
                if isinstance(a, ast.Attribute) and isinstance(a.value, ast.Name) and a.value.id == param and isinstance(b, ast.Attribute):
                    c = repo.resolve_class(m, b.value)
                    if c is not None:
                        out.setdefault(a.attr, set()).add(c.name)
    return out


def check_coercion(ctx):
    repo, ev = ctx.repo, ctx.ev
    ex = repo.get_class(EXE, "Executor")
    g = ex.methods.get("_get_create_request")
    if g is None:
        raise AnalysisError("_get_create_request not found")
    ctx.fn("Executor._get_create_request")
    coerced: Dict[str, str] = {}
    for st in A.body_nodes(g):
        if isinstance(st, ast.Assign) and isinstance(st.targets[0], ast.Subscript) and A.norm(st.targets[0].value) == "kwargs" and isinstance(st.targets[0].slice, ast.Constant):
            f = st.targets[0].slice.value
            v = st.value
            if isinstance(v, ast.Call) and len(v.args) == 1 and A.norm(v.args[0]) == f"kwargs['{f}']".replace("'", "'"):
                c = repo.resolve_class(ex.module, v.func)
                if c is not None and ev.is_enum(c):
                    coerced[f] = c.name
            elif isinstance(v, ast.Call) and len(v.args) == 1 and isinstance(v.args[0], ast.Subscript) and A.norm(v.args[0].value) == "kwargs" and isinstance(v.args[0].slice, ast.Constant) and v.args[0].slice.value == f:
                c = repo.resolve_class(ex.module, v.func)
                if c is not None and ev.is_enum(c):
                    coerced[f] = c.name
    # consumers
    uses: Dict[str, Set[str]] = {}
    qc = repo.module(QC)
    r2q = qc.functions.get("request_to_qlink_1_0")
    if r2q is None:
        raise AnalysisError("request_to_qlink_1_0 not found")
    ctx.fn("qlink_compat.request_to_qlink_1_0")
    for k, v in enum_uses(repo, qc, r2q, A.param_names(r2q)[0]).items():
        uses.setdefault(k, set()).update(v)
    dce = ex.methods.get("_do_create_epr")
    if dce is not None:
        for var in [k for k, v in A.single_defs(dce).items() if isinstance(v, ast.Call) and A.call_name(v) == "_get_create_request"]:
            for k, v in enum_uses(repo, ex.module, dce, var).items():
                uses.setdefault(k, set()).update(v)
    fields = tuple_fields(ctx, "LinkLayerCreate")
    # defaults that are enum members show the intended type as well
    ctx.anchor("C11.C", "LinkLayerCreate fields used as enums by consumers", len([f for f in uses if f in fields]), 3)
    for f in sorted(uses):
        if f not in fields:
            continue
        ctx.check("C11.C", f"_get_create_request:{f}:coerced-to-enum", f in coerced,
                  f"consumers treat LinkLayerCreate.{f} as an enum ({sorted(uses[f])}) but _get_create_request leaves the integer that came from the argument array: "
                  f"the link-layer conversion fails (or compares an int with an enum member)", ex.loc(g), sample={"field": f, "used_as": sorted(uses[f]), "coerced_to": coerced.get(f)})
    # _get_create_request zips (arguments, fields, defaults): zip stops at its shortest operand, so there must be one default per field,
    # and the default at a field's position must be of that field's kind
    qm = repo.module("netqasm.qlink_compat")
    dval = None
    for st in qm.tree.body:
        if isinstance(st, ast.Assign) and A.norm(st.targets[0]) == "LinkLayerCreate.__new__.__defaults__":
            dval = ev.try_eval(st.value, qm)
    n_def = len(dval) if isinstance(dval, (tuple, list)) else None
    ctx.check("C11.C", "LinkLayerCreate:one-default-per-field", n_def == len(fields),
              f"LinkLayerCreate has {len(fields)} fields but {n_def} defaults; _get_create_request zips arguments, fields and defaults, so the last {len(fields) - (n_def or 0)} field(s) "
              f"({', '.join(fields[n_def:]) if n_def is not None else '?'}) never reach the request and arrive as their namedtuple default", "netqasm/qlink_compat.py",
              sample={"fields": len(fields), "defaults": n_def})
    if isinstance(dval, (tuple, list)) and n_def == len(fields):
        for f in sorted(uses):
            if f in fields and f in coerced:
                d_ = dval[list(fields).index(f)]
                ok_d = isinstance(d_, EnumMember) and d_.enum.split(":")[-1].split(".")[-1] == str(coerced[f]).split(".")[-1]
                ctx.check("C11.C", f"LinkLayerCreate:default-of-{f}-is-a-{coerced[f]}", ok_d, f"the default at the position of `{f}` is {d_!r}; it is used when the argument array leaves the field undefined", "netqasm/qlink_compat.py", trivial=True)
    # arguments array -> kwargs in field order, starting with [remote_node_id, purpose_id]
    zips = [c for c in A.calls_in(g) if dotted(c.func) == "zip"]
    gd = A.single_defs(g)
    ok = bool(zips) and A.norm(A.expand(zips[0].args[1], gd)) == "LinkLayerCreate._fields" and A.norm(zips[0].args[0]) == "args"
    ctx.check("C11.C", "_get_create_request:arguments-zipped-with-fields-in-order", ok, "the argument list is not zipped with LinkLayerCreate._fields in order", ex.loc(g))


def check_enum_joins(ctx):
    repo, ev = ctx.repo, ctx.ev
    qc = repo.module(QC)
    # external enums
    ext: Dict[str, Dict[str, int]] = {}
    path = None
    for cand in ("/venv/lib/python3.12/site-packages/qlink_interface/interface.py",):
        if os.path.exists(cand):
            path = cand
    if path is None:
        import glob
        g = glob.glob("/venv/lib/python*/site-packages/qlink_interface/interface.py")
        path = g[0] if g else None
    if path is None:
        ctx.note("qlink_interface source not found; by-value enum joins with the external interface are assumed, not checked")
    else:
        tree = ast.parse(open(path).read())
        for n in tree.body:
            if isinstance(n, ast.ClassDef) and any(dotted(b) in ("Enum", "enum.Enum") for b in n.bases):
                mem = {}
                last = 0
                for st in n.body:
                    if isinstance(st, ast.Assign) and isinstance(st.targets[0], ast.Name):
                        if isinstance(st.value, ast.Call) and dotted(st.value.func) == "auto":
                            last += 1
                        elif isinstance(st.value, ast.Constant) and isinstance(st.value.value, int):
                            last = st.value.value
                        else:
                            continue
                        mem[st.targets[0].id] = last
                ext[n.name] = mem
    n_j = 0
    for fn in qc.functions.values():
        for c in A.calls_in(fn):
            # X(expr.value) where X is an enum class (internal or qlink_1_0.X)
            if len(c.args) == 1 and isinstance(c.args[0], ast.Attribute) and c.args[0].attr == "value":
                d = dotted(c.func)
                if d is None:
                    continue
                target_name = d.split(".")[-1]
                internal = repo.resolve_class(qc, c.func)
                is_ext = d.startswith("qlink_1_0.")
                if not is_ext and (internal is None or not ev.is_enum(internal)):
                    continue
                # the source enum: by field name convention the same-named internal enum
                src_cls = qc.classes.get(target_name)
                if src_cls is None or not ev.is_enum(src_cls):
                    continue
                n_j += 1
                a = ev.enum_members(src_cls)
                b = ext.get(target_name) if is_ext else ev.enum_members(internal)
                if b is None:
                    ctx.note(f"enum {d} not available for comparison")
                    continue
                ctx.check("C11.E", f"{fn.name}:{d}(by-value)", dict(a) == dict(b),
                          f"{fn.name} converts by value between {target_name} {dict(a)} and {d} {dict(b)}; the name->value maps differ, so members are silently renamed", repo.loc(qc, c),
                          sample={"conversion": src(c)[:80], "maps_equal": dict(a) == dict(b)})
    ctx.anchor("C11.E", "by-value enum conversions", n_j, 3)
    # internal joins: RequestType / ReturnType values are taken from EPRType
    for en, base in (("RequestType", "EPRType"), ("ReturnType", "EPRType")):
        a, b = ev.enum_members(qc.classes[en]), ev.enum_members(qc.classes[base])
        ok = all(a.get(k if en == "RequestType" else "OK_" + k) == v for k, v in b.items())
        ctx.check("C11.E", f"{en}:extends-{base}-values", ok, f"{en} {a} does not reuse the values of {base} {b}; serialize_request writes tp.value and the executor rebuilds RequestType(value)", repo.loc(qc, qc.classes[en].node))


def check_forwarding(ctx):
    repo = ctx.repo
    es = repo.get_class("netqasm.sdk.epr_socket", "EPRSocket")
    be = repo.module(BE)
    erp = be.classes.get("EntRequestParams")
    if erp is None:
        raise AnalysisError("EntRequestParams not found")
    erp_fields = [f[0] for f in repo.dataclass_fields(erp)]
    sites = 0
    for name, fn in sorted(es.methods.items()):
        params = [p for p in A.param_names(fn) if p != "self"]
        if not params:
            continue
        for c in A.calls_in(fn):
            target = None
            accepted: List[str] = []
            if A.is_self_attr(c.func) and c.func.attr in es.methods and c.func.attr != name and not es.is_property(c.func.attr):
                target = c.func.attr
                accepted = [p for p in A.param_names(es.methods[target]) if p != "self"]
            elif A.call_name(c) == "EntRequestParams":
                target = "EntRequestParams"
                accepted = erp_fields
            if target is None:
                continue
            sites += 1
            ctx.fn(f"EPRSocket.{name}")
            kw = A.kwargs_of(c)
            for p in params:
                if p not in accepted:
                    continue
                passed = p in kw and any(isinstance(x, ast.Name) and x.id == p for x in ast.walk(kw[p]))
                ctx.check("C11.F", f"EPRSocket.{name}->{target}:{p}", passed,
                          f"EPRSocket.{name} accepts `{p}` and delegates to {target}, which also takes `{p}`, but does not pass it on: the caller's value is silently replaced by the default",
                          es.loc(c), sample={"api": name, "delegates_to": target, "parameter": p})
    ctx.anchor("C11.F", "delegating call sites in EPRSocket", sites, 14)
    # socket / node ids come from the socket itself
    for name, fn in sorted(es.methods.items()):
        for c in A.calls_in(fn):
            if A.call_name(c) == "EntRequestParams":
                kw = A.kwargs_of(c)
                ok = A.norm(kw.get("remote_node_id", ast.Constant(value=0))) == "self.remote_node_id" and A.norm(kw.get("epr_socket_id", ast.Constant(value=0))) in ("self._epr_socket_id", "self.epr_socket_id")
                ctx.check("C11.F", f"EPRSocket.{name}:socket-and-remote-node-ids", ok, f"EPRSocket.{name} builds its request with remote_node_id={src(kw.get('remote_node_id')) if 'remote_node_id' in kw else None}, epr_socket_id={src(kw.get('epr_socket_id')) if 'epr_socket_id' in kw else None}", es.loc(c), trivial=True)


ROLE_OF_NAME = {"remote_node_id": "remote_node_id", "epr_socket_id": "epr_socket_id", "qubit_ids_array": "qubit_addr_array", "create_args_array": "arg_array", "ent_results_array": "ent_results_array"}


def check_operand_roles(ctx):
    repo, ev = ctx.repo, ctx.ev
    core = repo.module(I.CORE_MOD)
    b = repo.get_class("netqasm.sdk.builder", "Builder")
    ex = repo.get_class(EXE, "Executor")
    n_sites = 0
    for gi, cname, handler, doer in (("CREATE_EPR", "CreateEPRInstruction", "_instr_create_epr", "_do_create_epr"), ("RECV_EPR", "RecvEPRInstruction", "_instr_recv_epr", "_do_recv_epr")):
        c = core.classes.get(cname)
        if c is None:
            raise AnalysisError(f"{cname} not found")
        ops = I.operands_attrs(repo, c)
        # role names in operand order: property aliases of reg0..regN
        roles = []
        for real in ops:
            names = [p for p in c.methods if c.is_property(p) and repo.property_alias(c, p) == real]
            roles.append(names[0] if len(names) == 1 else None)
        ctx.check("C11.O", f"{cname}:one-role-per-operand", all(roles), f"{cname}: operand positions {ops} have role properties {roles}", c.loc(), trivial=True)
        for name, fn in sorted(b.methods.items()):
            for call in A.calls_in(fn):
                if A.call_name(call) != "ICmd":
                    continue
                kw = A.kwargs_of(call)
                ins = kw.get("instruction", call.args[0] if call.args else None)
                if ins is None or A.norm(ins) != f"GenericInstr.{gi}":
                    continue
                n_sites += 1
                ctx.fn(f"Builder.{name}")
                defs = A.single_defs(fn)
                args = A.expand(kw.get("args", ast.List(elts=[])), defs)
                opers = A.expand(kw.get("operands", ast.List(elts=[])), defs)
                if not isinstance(args, ast.List) or not isinstance(opers, ast.List):
                    ctx.error("C11.O", f"Builder.{name}: {gi} args/operands are not list literals")
                    continue
                got = []
                for e in args.elts + opers.elts:
                    if isinstance(e, ast.Call) and A.call_name(e) == "Register":
                        got.append("<placeholder>")
                        continue
                    ch = A.attr_chain(e) or []
                    key = None
                    for part in ch:
                        if part in ROLE_OF_NAME:
                            key = ROLE_OF_NAME[part]
                    got.append(key)
                ok = len(got) == len(roles) and all(g == r or (g == "<placeholder>" and r == "qubit_addr_array") for g, r in zip(got, roles))
                ctx.check("C11.O", f"Builder.{name}:{gi}:args+operands-in-role-order", ok,
                          f"Builder.{name} emits {gi.lower()} with (args + operands) = {got}; the instruction's operand roles are {roles}", b.loc(call),
                          sample={"site": name, "emitted": got, "roles": roles})
        # executor: each role register is read and passed under its own name
        h = ex.methods.get(handler)
        d = ex.methods.get(doer)
        if h is None or d is None:
            raise AnalysisError(f"{handler}/{doer} not found")
        ctx.fn(f"Executor.{handler}")
        defs = A.single_defs(h)
        calls = [x for x in A.calls_in(h) if A.is_self_attr(x.func, doer)]
        if len(calls) != 1:
            ctx.error("C11.O", f"{handler} does not call {doer} once")
            continue
        kw = A.kwargs_of(calls[0])
        param_of_role = {"remote_node_id": "remote_node_id", "epr_socket_id": "epr_socket_id", "qubit_addr_array": "q_array_address", "arg_array": "arg_array_address", "ent_results_array": "ent_results_array_address"}
        for role in [r for r in roles if r]:
            p = param_of_role[role]
            v = kw.get(p)
            e = A.expand(v, {k2: v2 for k2, v2 in defs.items() if k2 != "app_id"}) if v is not None else None
            got = None
            if isinstance(e, ast.Call) and A.is_self_attr(e.func, "_get_register"):
                r = A.get_arg(e, 1, "register")
                got = A.norm(r) if r is not None else None
            want = f"{A.param_names(h)[2]}.{role}"
            ctx.check("C11.O", f"{handler}:{role}", got == want, f"{handler} passes {p} = register `{got}`; expected the value of register operand `{role}`", ex.loc(h), sample={"handler": handler, "role": role})
    ctx.anchor("C11.O", "create_epr / recv_epr emit sites in the builder", n_sites, 6)


def check_result_arrays(ctx):
    repo = ctx.repo
    ex = repo.get_class(EXE, "Executor")
    se = ex.methods.get("_store_ent_info")
    ctx.fn("Executor._store_ent_info")
    d = A.single_defs(se)
    ei = d.get("ent_info")
    ok = isinstance(ei, ast.ListComp) and A.norm(ei.elt) == "entry.valueifisinstance(entry,Enum)elseentry" and A.norm(ei.generators[0].iter) == A.param_names(se)[2] and not ei.generators[0].ifs
    ctx.check("C11.R", "_store_ent_info:all-fields-in-order-enums-lowered", ok, f"the response is written to the result array as `{src(ei) if ei is not None else None}`; expected every field in order with enum members lowered to their values", ex.loc(se))
    b = repo.get_class("netqasm.sdk.builder", "Builder")
    cs = b.methods.get("_create_ent_info_k_slices")
    if cs is None:
        raise AnalysisError("_create_ent_info_k_slices not found")
    ctx.fn("Builder._create_ent_info_k_slices")
    sl = [c for c in A.calls_in(cs) if A.call_name(c) == "get_future_slice"]
    ok = False
    if len(sl) == 1 and sl[0].args:
        # pair i reads [i*OK_FIELDS_K, (i+1)*OK_FIELDS_K): the bounds are evaluated for i = 0, 1, 2 with i the variable iterating range(num_pairs)
        its = [(x.target, x.iter) for x in ast.walk(cs) if isinstance(x, ast.For)] + [(g_.target, g_.iter) for x in ast.walk(cs) if isinstance(x, ast.ListComp) for g_ in x.generators]
        its = [t_.id for t_, it_ in its if isinstance(t_, ast.Name) and A.norm(it_) == f"range({A.param_names(cs)[1]})"]
        sb = A.slice_bounds(sl[0].args[0], A.single_defs(cs))
        nf = ctx.ev.try_eval(ast.Name(id="OK_FIELDS_K", ctx=ast.Load()), b.module)
        if len(its) == 1 and sb is not None and isinstance(nf, int):
            try:
                ok = all(G.peval(sb[0], {its[0]: k_, "OK_FIELDS_K": nf}) == k_ * nf and G.peval(sb[1], {its[0]: k_, "OK_FIELDS_K": nf}) == (k_ + 1) * nf for k_ in (0, 1, 2))
            except Unknown:
                ok = False
    mk = [c for c in A.calls_in(cs) if A.call_name(c) == "LinkLayerOKTypeK"]
    ok = ok and len(mk) == 1 and len(mk[0].args) == 1 and isinstance(mk[0].args[0], ast.Starred)
    ctx.check("C11.R", "_create_ent_info_k_slices:pair-i-reads-slice-i", ok, "entanglement info of pair i is not LinkLayerOKTypeK(*array[i*OK_FIELDS_K:(i+1)*OK_FIELDS_K])", b.loc(cs))
    # result array sizes
    ar = b.methods.get("_alloc_ent_results_array")
    sizes = {}
    exp = {}
    if ar is not None:
        # the function is executed abstractly for each request type; the length passed to alloc_array is evaluated for number = 3
        bm = b.module
        consts = {nm: ctx.ev.try_eval(ast.Name(id=nm, ctx=ast.Load()), bm) for nm in ("OK_FIELDS_K", "OK_FIELDS_M")}
        from .. import circuit as C
        from ..model import EnumMember
        ety = repo.get_class("netqasm.qlink_compat", "EPRType")
        emem = ctx.ev.enum_members(ety)
        for k_ in ("K", "M", "R"):
            got = []
            sc = C.Scenario()
            sc.globals = {n_: v_ for n_, v_ in consts.items() if v_ is not None}
            sc.overrides["alloc_array"] = lambda length=None, *a_, got=got, **kw_: got.append(length if length is not None else (a_[0] if a_ else None))
            bo = C.object_from_init(repo, b, {}, kind="self")
            try:
                C.Interp(repo, ctx.ev, sc, b).call_function(bm, ar, [], {"number": 3, "tp": EnumMember(ety.qualname, k_, emem[k_])}, self_obj=bo)
            except C.EvalRaise as ex_:
                got.append(f"raises {ex_}")
            except AnalysisError as ex_:
                got.append(f"? ({ex_})")
            sizes[k_] = got
            fields = consts["OK_FIELDS_K"] if k_ == "K" else consts["OK_FIELDS_M"]
            exp[k_] = [fields * 3] if isinstance(fields, int) else ["?"]
    ctx.check("C11.R", "_alloc_ent_results_array:OK_FIELDS-per-pair", sizes == exp, f"result arrays are sized {sizes}; expected {exp}", b.loc(ar) if ar else "")


def normalise(ctx):
    """name the locals of the functions read below by role (nqsa/roles.py)"""
    repo = ctx.repo
    m = repo.module(BE)
    specs = {
        "serialize_request": ["$array=[None for $_ in range(SER_CREATE_LEN)]"],
        "deserialize_epr_keep_results": ["for $i in range(request.number)", "$base=$i*SER_RESPONSE_KEEP_LEN", "$results=[]"],
        "deserialize_epr_measure_results": ["for $i in range(request.number)", "$base=$i*SER_RESPONSE_MEASURE_LEN", "$results=[]"],
    }
    for name, pats in specs.items():
        fn = m.functions.get(name)
        if fn is not None:
            roles.normalise(ctx, fn, pats, f"build_epr.{name}")
    ex = repo.get_class("netqasm.backend.executor", "Executor")
    c12.normalise_executor(ctx, ex)
    xs = {
        "_get_create_request": ["$kwargs={}", "for ($arg,$field,$default) in zip(...)"],
        "_store_ent_info": ["$ent_info=[...]", "$ent_results_array_address=epr_cmd_data.ent_results_array_address", "$arr_start=pair_index*OK_FIELDS", "$arr_stop=(pair_index+1)*OK_FIELDS",
                            "$subroutine_id=epr_cmd_data.subroutine_id", "$app_id=self._get_app_id(...)"],
    }
    for name, pats in xs.items():
        fn = ex.methods.get(name)
        if fn is not None:
            roles.normalise(ctx, fn, pats, f"Executor.{name}")
    b = repo.get_class("netqasm.sdk.builder", "Builder")
    fn = b.methods.get("_create_ent_info_k_slices")
    if fn is not None:
        roles.normalise(ctx, fn, ["for $i in range(num_pairs)", "$ent_info_slices=[]", "$ent_info_slice_futures=ent_results_array.get_future_slice(...)", "$ent_info_slice=LinkLayerOKTypeK(*$ent_info_slice_futures)"],
                        "Builder._create_ent_info_k_slices")


def run(ctx):
    normalise(ctx)
    check_indices(ctx)
    check_serialize(ctx)
    check_coercion(ctx)
    check_enum_joins(ctx)
    check_forwarding(ctx)
    check_operand_roles(ctx)
    check_result_arrays(ctx)
    # "each result handle reads the corresponding field of pair i's link-layer response": on the controller the i-th response consumed
    # for a request gets pair index i; the consumption loop is executed abstractly over all short pending lists (rule shared with C12)
    from . import c12
    c12.check_consumption(ctx, ctx.repo.get_class("netqasm.backend.executor", "Executor"), "C11.X")
    # 0 is an ordinary id / value / address: nothing int-valued may be tested by truthiness (nqsa/truth.py)
    from .. import truth
    truth.check(ctx, "C11.Z", ['netqasm.sdk.build_epr', 'netqasm.sdk.epr_socket', 'netqasm.qlink_compat', 'netqasm.backend.executor'])
    # a value remembered for later calls is keyed by every argument it depends on (nqsa/memo.py)
    from .. import memo
    memo.check(ctx, "C11.K", ['netqasm.sdk.build_epr', 'netqasm.sdk.epr_socket', 'netqasm.qlink_compat', 'netqasm.backend.executor'])
    # no type test that an earlier type test has already decided (a subclass tested after its base class: nqsa/shadow.py)
    from .. import shadow
    shadow.check(ctx, "C11.H", ['netqasm.sdk.build_epr', 'netqasm.sdk.epr_socket', 'netqasm.qlink_compat', 'netqasm.backend.executor'])


BEF = "netqasm/sdk/build_epr.py"
XF = "netqasm/backend/executor.py"
ESF = "netqasm/sdk/epr_socket.py"
BF = "netqasm/sdk/builder.py"
SEEDS = [
    dict(id="c11-defaults-one-short", file="netqasm/qlink_compat.py", expect="C11.C", construct="one-default-per-field",
         old="LinkLayerCreate.__new__.__defaults__ = (  # type: ignore\n    0,\n    0,\n", new="LinkLayerCreate.__new__.__defaults__ = (  # type: ignore\n    0,\n"),

    dict(id="c11-rotation-under-elif-of-random-basis", file="netqasm/sdk/build_epr.py", expect="C11.S", construct="written-whenever-its-own-field-is-set",
         old="        if params.rotations_remote != (0, 0, 0):\n", new="        if params.random_basis_remote:\n            pass\n        elif params.rotations_remote != (0, 0, 0):\n"),
    dict(id="c11-max-time-only-for-keep", file="netqasm/sdk/build_epr.py", expect="C11.S", construct="written-whenever-its-own-field-is-set",
         old="    if params.max_time != 0:\n", new="    if params.max_time != 0 and params.number > 0:\n"),

    dict(id="c11-swap-ser", file=BEF, expect="C11.I", construct="SER_CREATE_IDX_TIME_UNIT", old="SER_CREATE_IDX_TIME_UNIT = 5\nSER_CREATE_IDX_MAX_TIME = 6", new="SER_CREATE_IDX_TIME_UNIT = 6\nSER_CREATE_IDX_MAX_TIME = 5"),
    dict(id="c11-resp-idx", file=BEF, expect="C11.I", construct="SER_RESPONSE_MEASURE_IDX_GOODNESS", old="SER_RESPONSE_MEASURE_IDX_GOODNESS = 8", new="SER_RESPONSE_MEASURE_IDX_GOODNESS = 7"),
    dict(id="c11-tuple-field-moved", file="netqasm/qlink_compat.py", expect="C11.I", construct="SER_RESPONSE_KEEP_IDX", old='        "goodness",\n        "goodness_time",\n        "bell_state",\n    ],\n)\nLinkLayerOKTypeK.__new__', new='        "goodness_time",\n        "goodness",\n        "bell_state",\n    ],\n)\nLinkLayerOKTypeK.__new__'),
    dict(id="c11-rot-slot", file=BEF, expect="C11.S", construct="rotation_y_local", old="            array[SER_CREATE_IDX_ROTATION_Y_LOCAL] = params.rotations_local[1]", new="            array[SER_CREATE_IDX_ROTATION_Y_LOCAL] = params.rotations_local[2]"),
    dict(id="c11-remote-basis", file=BEF, expect="C11.S", construct="random_basis_remote", old="            array[SER_CREATE_IDX_RANDOM_BASIS_REMOTE] = params.random_basis_remote.value", new="            array[SER_CREATE_IDX_RANDOM_BASIS_REMOTE] = params.random_basis_local.value"),
    dict(id="c11-duration-slot", file=BEF, expect="C11.S", construct="generation_duration", old="                generation_duration=array.get_future_index(\n                    base + SER_RESPONSE_KEEP_IDX_GOODNESS\n                ),", new="                generation_duration=array.get_future_index(\n                    base + SER_RESPONSE_KEEP_IDX_GOODNESS_TIME\n                ),"),
    dict(id="c11-base", file=BEF, expect="C11.S", construct="pair-i-starts", old="        base = i * SER_RESPONSE_MEASURE_LEN", new="        base = i * SER_RESPONSE_MEASURE_LEN + 1"),
    dict(id="c11-orig-coercion", file=XF, expect="C11.C", construct="random_basis_local", old='        kwargs["random_basis_local"] = RandomBasis(kwargs["random_basis_local"])  # type: ignore\n', new=""),
    dict(id="c11-type-coercion", file=XF, expect="C11.C", construct="type", old='        kwargs["type"] = RequestType(kwargs["type"])  # type: ignore\n', new=""),
    dict(id="c11-orig-forward", file=ESF, expect="C11.F", construct="create->create_rsp:rotations_local", old="                basis_local=basis_local,\n                rotations_local=rotations_local,\n                random_basis_local=random_basis_local,\n            )\n        assert False", new="                basis_local=basis_local,\n                random_basis_local=random_basis_local,\n            )\n        assert False"),
    dict(id="c11-forward-max-time", file=ESF, expect="C11.F", construct="create_context", old="                sequential=sequential,\n                time_unit=time_unit,\n                max_time=max_time,\n            )\n        )\n\n    def recv_keep(", new="                sequential=sequential,\n                time_unit=time_unit,\n            )\n        )\n\n    def recv_keep("),
    dict(id="c11-operand-order", file=BF, expect="C11.O", construct="_build_cmds_epr_create_keep", old="        epr_cmd_operands = [\n            qubit_ids_array.address,\n            create_args_array.address,\n            ent_results_array.address,\n        ]", new="        epr_cmd_operands = [\n            create_args_array.address,\n            qubit_ids_array.address,\n            ent_results_array.address,\n        ]"),
    dict(id="c11-args-order", file=BF, expect="C11.O", construct="_build_cmds_epr_recv_measure", old="            instruction=GenericInstr.RECV_EPR,\n            args=[params.remote_node_id, params.epr_socket_id],\n            operands=epr_cmd_operands,  # type: ignore\n        )\n        self.subrt_add_pending_command(epr_cmd)\n\n        # wait\n        arr_slice = ArraySlice(\n            ent_results_array.address, start=0, stop=len(ent_results_array)  # type: ignore\n        )\n        if wait_all:\n            wait_cmds = [ICmd(instruction=GenericInstr.WAIT_ALL, operands=[arr_slice])]\n        else:\n            wait_cmds = []\n\n        self.subrt_add_pending_commands(wait_cmds)  # type: ignore\n\n    def _build_cmds_epr_create_rsp(",
         new="            instruction=GenericInstr.RECV_EPR,\n            args=[params.epr_socket_id, params.remote_node_id],\n            operands=epr_cmd_operands,  # type: ignore\n        )\n        self.subrt_add_pending_command(epr_cmd)\n\n        # wait\n        arr_slice = ArraySlice(\n            ent_results_array.address, start=0, stop=len(ent_results_array)  # type: ignore\n        )\n        if wait_all:\n            wait_cmds = [ICmd(instruction=GenericInstr.WAIT_ALL, operands=[arr_slice])]\n        else:\n            wait_cmds = []\n\n        self.subrt_add_pending_commands(wait_cmds)  # type: ignore\n\n    def _build_cmds_epr_create_rsp("),
    dict(id="c11-executor-role", file=XF, expect="C11.O", construct="_instr_recv_epr", old="        q_array_address = self._get_register(\n            app_id=app_id, register=instr.qubit_addr_array\n        )\n        ent_results_array_address = self._get_register(\n            app_id=app_id, register=instr.ent_results_array\n        )\n        assert remote_node_id is not None\n        assert epr_socket_id is not None\n        # q_address can be None",
         new="        q_array_address = self._get_register(\n            app_id=app_id, register=instr.ent_results_array\n        )\n        ent_results_array_address = self._get_register(\n            app_id=app_id, register=instr.qubit_addr_array\n        )\n        assert remote_node_id is not None\n        assert epr_socket_id is not None\n        # q_address can be None"),
    dict(id="c11-enum-renumber", file="netqasm/qlink_compat.py", expect="C11.E", construct="RandomBasis", old="class RandomBasis(Enum):\n    NONE = 0\n    XZ = auto()\n    XYZ = auto()", new="class RandomBasis(Enum):\n    NONE = 0\n    XYZ = auto()\n    XZ = auto()"),
    dict(id="c11-enum-lowering", file=XF, expect="C11.R", construct="_store_ent_info", old="            entry.value if isinstance(entry, Enum) else entry for entry in response", new="            entry for entry in response"),
]
BENIGN = [
    dict(id="c11-benign-random-basis-written-first", edits=[
        ("netqasm/sdk/build_epr.py", "        if params.random_basis_local:\n            array[SER_CREATE_IDX_RANDOM_BASIS_LOCAL] = params.random_basis_local.value\n", ""),
        ("netqasm/sdk/build_epr.py", "        # Only write when non-zero.\n", "        if params.random_basis_local:\n            array[SER_CREATE_IDX_RANDOM_BASIS_LOCAL] = params.random_basis_local.value\n"),
    ]),
]
