"""C11 — EPR requests and results cross the SDK/controller boundary intact (claimed in part).

All T-table unless noted, exhaustive over the tables:
C11.I  SER_* index constants = positions in the link-layer namedtuples; lengths agree
C11.S  serialize_request: each parameter goes to its own slot; deserialize_*: each result attribute reads its own slot
C11.C  coercion completeness: every LinkLayerCreate field a consumer treats as an enum is coerced by _get_create_request
C11.E  by-value enum conversions join enums with identical name->value maps
C11.F  forwarding completeness: an EPRSocket API function that forwards to a sibling or builds EntRequestParams passes every same-named parameter
C11.O  operand roles of create_epr / recv_epr: builder args+operands order = instruction property order = executor reads
C11.R  response <-> result array: enums lowered to values; slices of OK_FIELDS
"""
from __future__ import annotations

import ast
import os
from typing import Dict, List, Optional, Set, Tuple

from .. import astutil as A
from .. import guards as G
from .. import roles
from .. import instrs as I
from . import c12
from ..model import AnalysisError, EnumMember, NamedTupleType, Unknown, dotted, src

TECHNIQUE = "AST table agreement (index constants vs namedtuple fields), forwarding-completeness and operand-role rules; request round trip (serialize_request, _get_create_request, link-layer conversion) and result-array slices executed by the checker's own AST interpreter (static analysis; abstract execution)"
ENGINES = ["model", "instrs", "circuit"]
EXPLANATION = (
    "Index constants of sdk/build_epr.py are evaluated and compared with the field positions of LinkLayerCreate / LinkLayerOKTypeK / "
    "LinkLayerOKTypeM (qlink_compat.py), lengths with network_stack's *_FIELDS; serialize_request's slot assignments and the "
    "deserialize_* slot reads are matched by name; every LinkLayerCreate field on which request_to_qlink_1_0 / the executor use "
    "`.value` or compare with an enum member must be coerced to that enum where the request is rebuilt from integers; enum classes "
    "joined by value have identical name->value maps (qlink_interface read from its installed source); every EPRSocket API method "
    "passes all same-named parameters on to the sibling method / EntRequestParams it delegates to; the create_epr / recv_epr "
    "operand roles agree between builder, instruction class and executor."
    ' A slot of the request array is written under tests on the request type and its own field only; LinkLayerCreate has one default per field (the executor zips arguments, fields and defaults). C11.Z: no truthiness test on an int-typed value.'
    ' C11.K: a value remembered across calls (keyed table or single slot) is remembered under every argument it depends on.'
    ' C11.R executes _alloc_ent_results_array abstractly for the three request types.'
    ' C11.S executes serialize_request over 432 combinations of type, count, time limit, rotations and random bases, and both result deserialisers for 0, 1, 2 and 5 pairs, wrong array sizes, both roles. C11.X: the consumption rule of C12 under this id.'
    " C11.C: 288 requests taken through serialize_request, Executor._get_create_request and request_to_qlink_1_0 (library modelled): every field carries what was asked or its default, enumeration fields hold members, the conversion accepts the request. C11.R: _store_ent_info and _create_ent_info_k_slices executed for 0-3 pairs."
)
LEVEL_TEXT = (
    "Static analysis, partial: all 40 index constants, all request parameters, all result attributes, all forwarding call sites and "
    "both EPR instructions are decided. Not decided: the values of fields chosen by the network stack."
)
LEVEL_NOTE = "name-based matching of constants to tuple fields with a frozen alias line for the two misspelt constants; qlink_interface enums read from its installed source (assumption recorded if absent)"
ASSUMPTIONS = [LEVEL_NOTE]
BE = "netqasm.sdk.build_epr"
QC = "netqasm.qlink_compat"
NS = "netqasm.backend.network_stack"
EXE = "netqasm.backend.executor"
ALIAS = {"probabliity_dist_local2": "probability_dist_local2", "probabliity_dist_remote2": "probability_dist_remote2", "directoniality_flag": "directionality_flag"}
RESULT_ATTR_SLOT = {"qubit_id": "logical_qubit_id", "remote_node_id": "remote_node_id", "generation_duration": "goodness", "raw_bell_state": "bell_state",
                    "raw_measurement_outcome": "measurement_outcome"}


def tuple_fields(ctx, name) -> Tuple[str, ...]:
    try:
        v = ctx.ev.name(QC, name)
    except Unknown as e:
        raise AnalysisError(f"{name}: {e}")
    if not isinstance(v, NamedTupleType):
        raise AnalysisError(f"{name} is not a namedtuple")
    return v.fields


def check_indices(ctx):
    repo, ev = ctx.repo, ctx.ev
    m = repo.module(BE)
    fams = {"SER_CREATE_IDX_": ("LinkLayerCreate", 2, "SER_CREATE_LEN", "CREATE_FIELDS"),
            "SER_RESPONSE_KEEP_IDX_": ("LinkLayerOKTypeK", 0, "SER_RESPONSE_KEEP_LEN", "OK_FIELDS_K"),
            "SER_RESPONSE_MEASURE_IDX_": ("LinkLayerOKTypeM", 0, "SER_RESPONSE_MEASURE_LEN", "OK_FIELDS_M")}
    total = 0
    values: Dict[str, Dict[str, int]] = {}
    for prefix, (tname, off, lenname, nsname) in fams.items():
        fields = [f.lower() for f in tuple_fields(ctx, tname)]
        seen = {}
        for cname, expr in m.assigns.items():
            if not cname.startswith(prefix):
                continue
            total += 1
            try:
                val = ev.eval(expr, m)
            except Unknown as e:
                ctx.error("C11.I", f"{cname}: {e}")
                continue
            fname = cname[len(prefix):].lower()
            fname = ALIAS.get(fname, fname)
            if fname not in fields:
                ctx.check("C11.I", f"{cname}:names-a-field", False, f"{cname} does not name a field of {tname} ({fname!r})", repo.loc(m, expr))
                continue
            exp = fields.index(fname) - off
            seen[fname] = val
            ctx.check("C11.I", f"{cname}", val == exp, f"{cname} = {val} but field `{fname}` is at position {exp} of {tname}{' (minus the two leading immediates)' if off else ''}: the SDK and the controller would read/write different slots",
                      repo.loc(m, expr), sample={"constant": cname, "value": val, "field_position": exp} if total % 8 == 1 else None)
        values[prefix] = seen
        # contiguous and complete
        exp_fields = fields[off:]
        missing = [f for f in exp_fields if f not in seen]
        ctx.check("C11.I", f"{prefix}*:covers-every-field", not missing, f"no index constant for fields {missing} of {tname}", repo.loc(m, m.tree))
        try:
            ln = ev.name(BE, lenname)
            nsv = ev.name(NS, nsname)
        except Unknown as e:
            raise AnalysisError(f"{lenname}/{nsname}: {e}")
        ctx.check("C11.I", f"{lenname}={nsname}", ln == nsv == len(exp_fields), f"{lenname} = {ln}, {nsname} = {nsv}, {tname} has {len(exp_fields)} serialised fields", repo.loc(m, m.assigns[lenname]),
                  sample={"len_constant": lenname, "value": ln})
    ctx.anchor("C11.I", "SER_* index constants", total, 40)
    k, mm = ev.name(NS, "OK_FIELDS_K"), ev.name(NS, "OK_FIELDS_M")
    ctx.check("C11.I", "OK_FIELDS_K=OK_FIELDS_M", k == mm, f"OK_FIELDS_K = {k} but OK_FIELDS_M = {mm}; the executor slices both result kinds with the K constant", "netqasm/backend/network_stack.py")
    # the executor's OK_FIELDS is the K constant
    ex = repo.module(EXE)
    ok = ex.imports.get("OK_FIELDS") == (NS, "OK_FIELDS_K")
    ctx.check("C11.I", "executor:OK_FIELDS-is-OK_FIELDS_K", ok, f"executor imports OK_FIELDS as {ex.imports.get('OK_FIELDS')}", "netqasm/backend/executor.py", trivial=True)
    return values


def check_serialize(ctx):
    repo, ev = ctx.repo, ctx.ev
    m = repo.module(BE)
    fn = m.functions.get("serialize_request")
    if fn is None:
        raise AnalysisError("serialize_request not found")
    ctx.fn("build_epr.serialize_request")
    # serialize_request, executed by the checker's interpreter over every combination of request type, pair count, time limit,
    # local / remote rotations and random bases: each slot of the argument array holds its own field (the member value for
    # enumerations) exactly when that field is set - and, for the measure-only fields, the request is of a measuring type -
    # whatever the other fields are; every other slot stays None; the array has SER_CREATE_LEN entries
    import itertools
    from .. import circuit as C
    from ..model import EnumMember
    qcm = repo.module(QC)

    def member(cls_name, name):
        c = qcm.classes[cls_name]
        return EnumMember(c.qualname, name, ev.enum_members(c)[name])

    idx = {}
    for cname in sorted(m.assigns):
        if cname.startswith("SER_CREATE_IDX_"):
            slot = cname[len("SER_CREATE_IDX_"):].lower()
            idx[ALIAS.get(slot, slot)] = ev.name(BE, cname)
    length = ev.name(BE, "SER_CREATE_LEN")
    wrong, missing, extra = {}, {}, {}
    n = 0
    bad_len = None
    try:
        for tpn, number, max_time, rl, rr, rbl, rbr in itertools.product(("K", "M", "R"), (0, 3), (0, 17), ((0, 0, 0), (1, 2, 3), (0, 0, 5)), ((0, 0, 0), (4, 5, 6)),
                                                                         (None, "XZ", "NONE"), (None, "CHSH")):
            n += 1
            params = C.Obj(None, {"remote_node_id": 2, "epr_socket_id": 1, "number": number, "post_routine": None, "sequential": False, "time_unit": member("TimeUnit", "MILLI_SECONDS"),
                                  "max_time": max_time, "expect_phi_plus": True, "min_fidelity_all_at_end": None, "max_tries": None,
                                  "random_basis_local": member("RandomBasis", rbl) if rbl else None, "random_basis_remote": member("RandomBasis", rbr) if rbr else None,
                                  "rotations_local": rl, "rotations_remote": rr})
            tp = member("EPRType", tpn)
            label = f"type {tpn}, number={number}, max_time={max_time}, rotations {rl} / {rr}, random bases {rbl} / {rbr}"
            try:
                got = C.Interp(repo, ev, C.Scenario(), None).call_function(m, fn, [tp, params], {})
            except C.EvalRaise as ex_:
                bad_len = bad_len or f"{label}: raises {ex_}"
                continue
            want = {"type": tp.value, "number": number}
            if max_time != 0:
                want.update({"time_unit": params.fields["time_unit"].value, "max_time": max_time})
            if tpn in ("M", "R"):
                if rl != (0, 0, 0):
                    want.update({"rotation_x_local1": rl[0], "rotation_y_local": rl[1], "rotation_x_local2": rl[2]})
                if rr != (0, 0, 0):
                    want.update({"rotation_x_remote1": rr[0], "rotation_y_remote": rr[1], "rotation_x_remote2": rr[2]})
                if rbl:
                    want["random_basis_local"] = params.fields["random_basis_local"].value
                if rbr:
                    want["random_basis_remote"] = params.fields["random_basis_remote"].value
            label = f"type {tpn}, number={number}, max_time={max_time}, rotations {rl} / {rr}, random bases {rbl} / {rbr}"
            if not isinstance(got, list) or len(got) != length:
                bad_len = f"{label}: the array is {got!r}"
                continue
            for slot, k in idx.items():
                g_, w_ = got[k], want.get(slot)
                if w_ is None and g_ is not None:
                    extra.setdefault(slot, f"{label}: slot holds {g_!r}, the field is not set (or does not apply to this request type)")
                elif w_ is not None and g_ is None:
                    missing.setdefault(slot, f"{label}: slot is None, expected {w_!r}")
                elif w_ is not None and (g_ != w_ or isinstance(g_, bool) != isinstance(w_, bool)):
                    wrong.setdefault(slot, f"{label}: slot holds {g_!r}, expected {w_!r}")
    except C.EvalRaise as ex_:
        bad_len = f"raises {ex_}"
    except AnalysisError as ex_:
        ctx.error("C11.S", f"serialize_request cannot be evaluated: {ex_}")
        idx = {}
    ctx.anchor("C11.S", "argument combinations serialised", n, 400)
    for slot in sorted(idx):
        ctx.check("C11.S", f"serialize_request:{slot}", slot not in wrong and slot not in extra,
                  f"slot `{slot}` of the argument array does not carry its own field: {wrong.get(slot) or extra.get(slot)}", repo.loc(m, fn), sample={"slot": slot})
        ctx.check("C11.S", f"serialize_request:{slot}:written-whenever-its-own-field-is-set", slot not in missing,
                  f"for some combinations of arguments the field never reaches the array and the network stack sees its default instead - {missing.get(slot)}", repo.loc(m, fn), sample={"slot": slot})
    if idx:
        ctx.check("C11.S", "serialize_request:array-length", bad_len is None, f"serialize_request does not return a list of SER_CREATE_LEN = {length} entries for every request: {bad_len}", repo.loc(m, fn))
    # deserialize: executed for 0, 1, 2 and 5 pairs against an array that answers get_future_index(k) with a token for entry k
    for fname, fam, lenname, cls in (("deserialize_epr_keep_results", "SER_RESPONSE_KEEP_IDX_", "SER_RESPONSE_KEEP_LEN", "EprKeepResult"),
                                     ("deserialize_epr_measure_results", "SER_RESPONSE_MEASURE_IDX_", "SER_RESPONSE_MEASURE_LEN", "EprMeasureResult")):
        f2 = m.functions.get(fname)
        if f2 is None:
            raise AnalysisError(f"{fname} not found")
        ctx.fn(f"build_epr.{fname}")
        ln = ev.name(BE, lenname)
        rc = m.classes.get(cls)

        class Arr:
            _nqsa_model = True

            def __init__(self, n_):
                self.n_ = n_

            def __len__(self):
                return self.n_

            def get_future_index(self, k_):
                return ("entry", k_)

        def request(number):
            return C.Obj(None, {"remote_node_id": 2, "epr_socket_id": 1, "number": number, "post_routine": None, "sequential": False, "time_unit": member("TimeUnit", "MICRO_SECONDS"), "max_time": 0,
                                "expect_phi_plus": True, "min_fidelity_all_at_end": None, "max_tries": None, "random_basis_local": None, "random_basis_remote": None,
                                "rotations_local": (1, 2, 3), "rotations_remote": (4, 5, 6)})

        extra_args = [member("EPRRole", "RECV")] if len(A.param_names(f2)) > 2 else []
        per_attr, count_bad, start_bad, refuse_bad = {}, None, None, None
        attrs = []
        try:
            for number in (0, 1, 2, 5):
                out = C.Interp(repo, ev, C.Scenario(), None).call_function(m, f2, [request(number), Arr(number * ln)] + extra_args, {})
                if not isinstance(out, list) or len(out) != number or not all(isinstance(r_, C.Obj) and r_.cls is rc for r_ in out):
                    count_bad = f"{number} pairs requested: the result is {out!r}"[:300]
                    continue
                for i_, r_ in enumerate(out):
                    for k, v in r_.fields.items():
                        if k not in RESULT_ATTR_SLOT:
                            continue
                        if k not in attrs:
                            attrs.append(k)
                        slotname = f"{fam}{RESULT_ATTR_SLOT[k].upper()}"
                        sv = ev.try_eval(ast.Name(id=slotname, ctx=ast.Load()), m)
                        if sv is None:
                            sv = ev.try_eval(ast.Name(id=slotname.replace("DIRECTIONALITY", "DIRECTONIALITY"), ctx=ast.Load()), m)
                        want_e = ("entry", i_ * ln + sv) if isinstance(sv, int) else None
                        if isinstance(v, tuple) and len(v) == 2 and isinstance(v[1], int) and v[1] // ln != i_:
                            start_bad = start_bad or f"pair {i_} of {number}: `{k}` reads array entry {v[1]}, outside its own record {i_ * ln}..{(i_ + 1) * ln - 1}"
                        if v != want_e:
                            per_attr.setdefault(k, f"pair {i_} of {number}: result attribute `{k}` reads {v!r}; expected slot {slotname} of pair {i_}, i.e. entry {want_e[1] if want_e else '?'}")
            if extra_args:
                # what is not read from the array: the bases are the request's rotations, and the outcome is post-processed exactly
                # for the receiving side of a request that expects phi+
                for role_n in ("CREATE", "RECV"):
                    for phi in (True, False):
                        rq = request(1)
                        rq.fields["expect_phi_plus"] = phi
                        out = C.Interp(repo, ev, C.Scenario(), None).call_function(m, f2, [rq, Arr(ln), member("EPRRole", role_n)], {})
                        f_ = out[0].fields if isinstance(out, list) and len(out) == 1 and isinstance(out[0], C.Obj) else {}
                        if f_.get("measurement_basis_local") != (1, 2, 3) or f_.get("measurement_basis_remote") != (4, 5, 6):
                            per_attr.setdefault("measurement_basis", f"the bases recorded are {f_.get('measurement_basis_local')!r} / {f_.get('measurement_basis_remote')!r}, the request says (1, 2, 3) / (4, 5, 6)")
                        if bool(f_.get("post_process")) != (phi and role_n == "RECV") or not isinstance(f_.get("post_process"), bool):
                            per_attr.setdefault("post_process", f"role {role_n}, expect_phi_plus={phi}: post_process is {f_.get('post_process')!r}")
                for k in ("measurement_basis", "post_process"):
                    ctx.check("C11.S", f"{fname}:{k}", k not in per_attr, f"{per_attr.get(k)}", repo.loc(m, f2), trivial=True)
                    per_attr.pop(k, None)
            for number, size in ((2, 2 * ln - 1), (1, 2 * ln)):
                try:
                    C.Interp(repo, ev, C.Scenario(), None).call_function(m, f2, [request(number), Arr(size)] + extra_args, {})
                    refuse_bad = f"an array of {size} entries is accepted for {number} pairs of {ln} entries each"
                except C.EvalRaise:
                    pass
        except C.EvalRaise as ex_:
            count_bad = f"raises {ex_}"
        except AnalysisError as ex_:
            ctx.error("C11.S", f"{fname} cannot be evaluated: {ex_}")
            continue
        ctx.check("C11.S", f"{fname}:one-result-per-pair", count_bad is None, f"{fname} does not build one {cls} per requested pair: {count_bad}", repo.loc(m, f2))
        ctx.check("C11.S", f"{fname}:array-of-the-wrong-size-refused", refuse_bad is None, f"{fname}: {refuse_bad}", repo.loc(m, f2), trivial=True)
        for k in attrs:
            ctx.check("C11.S", f"{fname}:{k}", k not in per_attr, f"{per_attr.get(k)}", repo.loc(m, f2), sample={"result": cls, "attribute": k, "slot": RESULT_ATTR_SLOT[k]})
        if count_bad is None:
            ctx.anchor("C11.S", f"{fname}: result attributes read from the array", len(attrs), 4)
            ctx.check("C11.S", f"{fname}:pair-i-starts-at-i*LEN", start_bad is None, f"the record of pair i is not read from the entries i * {ln} .. i * {ln} + {ln - 1}: {start_bad}", repo.loc(m, f2), trivial=True)


def enum_uses(repo, m, fn, param) -> Dict[str, Set[str]]:
    """fields of `param` used with .value (-> 'value') or compared with an enum member (-> enum class name)"""
    out: Dict[str, Set[str]] = {}
    for n in ast.walk(fn):
        if isinstance(n, ast.Attribute) and n.attr == "value" and isinstance(n.value, ast.Attribute) and isinstance(n.value.value, ast.Name) and n.value.value.id == param:
            out.setdefault(n.value.attr, set()).add(".value")
        if isinstance(n, ast.Compare) and len(n.ops) == 1 and isinstance(n.ops[0], (ast.Eq, ast.NotEq, ast.Is, ast.IsNot)):
            l, r = n.left, n.comparators[0]
            for a, b in ((l, r), (r, l)):
                if isinstance(a, ast.Attribute) and isinstance(a.value, ast.Name) and a.value.id == param and isinstance(b, ast.Attribute):
                    c = repo.resolve_class(m, b.value)
                    if c is not None:
                        out.setdefault(a.attr, set()).add(c.name)
    return out


def check_coercion(ctx):
    """C11.C, decided by execution: the argument array serialize_request produces for a request is read back by the executor's
    _get_create_request (array access, purpose id and app id modelled), and the LinkLayerCreate it returns is handed to the consumer
    request_to_qlink_1_0 (the qlink_interface library modelled as a recorder that accepts what the library accepts).  For every
    combination of request type, pair count, time limit, rotations and random bases:
      - every field of the request holds what the SDK asked for - the executor's own remote node id and purpose id, the SDK's type,
        count, time limit, rotations and bases - and the namedtuple default where the SDK left the slot undefined;
      - a field whose default is an enumeration member holds a member of that enumeration (never the bare integer of the array);
      - the consumer converts the request without raising, and what it hands to the link layer carries the same values.
    LinkLayerCreate has one default per field (read from the executed definition)."""
    import itertools
    from .. import circuit as C
    from ..model import EnumMember
    repo, ev = ctx.repo, ctx.ev
    ex = repo.get_class(EXE, "Executor")
    g = ex.methods.get("_get_create_request")
    if g is None:
        raise AnalysisError("_get_create_request not found")
    ctx.fn("Executor._get_create_request")
    be = repo.module(BE)
    ser = be.functions.get("serialize_request")
    qcm = repo.module(QC)
    r2q = qcm.functions.get("request_to_qlink_1_0")
    if ser is None or r2q is None:
        raise AnalysisError("serialize_request / request_to_qlink_1_0 not found")
    ctx.fn("qlink_compat.request_to_qlink_1_0")

    def member(cls_name, name):
        c = qcm.classes[cls_name]
        return EnumMember(c.qualname, name, ev.enum_members(c)[name])

    class Arrays:
        _nqsa_model = True

        def __init__(self, arr):
            self.arr, self.asked = arr, []

        def __getitem__(self, k):
            self.asked.append(k)
            if isinstance(k, tuple) and len(k) == 2 and k[0] == 3 and isinstance(k[1], slice):
                return list(self.arr)[k[1]]
            raise C.EvalRaise("IndexError", f"the argument array is read as [{k!r}]; the request lives at address 3")

    class Lib:
        """qlink_interface: request classes record their keyword arguments; RandomBasis accepts the integers of its members"""
        _nqsa_model = True

        def __init__(self, name):
            self.name = name

        def __call__(self, *a_, **k_):
            if self.name == "RandomBasis":
                if len(a_) != 1 or isinstance(a_[0], bool) or not isinstance(a_[0], int) or a_[0] not in (0, 1, 2, 3):
                    raise C.EvalRaise("ValueError", f"{a_!r} is not a valid RandomBasis")
                return ("qlink.RandomBasis", a_[0])
            return (self.name, dict(k_))

    bad = {}
    n = 0
    fields = None
    try:
        for tpn, number, max_time, rl, rr, rbl, rbr in itertools.product(("K", "M", "R"), (1, 3), (0, 17), ((0, 0, 0), (1, 2, 3)), ((0, 0, 0), (4, 5, 6)), (None, "XZ", "NONE"), (None, "CHSH")):
            n += 1
            label = f"type {tpn}, number={number}, max_time={max_time}, rotations {rl} / {rr}, random bases {rbl} / {rbr}"
            params = C.Obj(None, {"remote_node_id": 2, "epr_socket_id": 1, "number": number, "post_routine": None, "sequential": False, "time_unit": member("TimeUnit", "MILLI_SECONDS"),
                                  "max_time": max_time, "expect_phi_plus": True, "min_fidelity_all_at_end": None, "max_tries": None,
                                  "random_basis_local": member("RandomBasis", rbl) if rbl else None, "random_basis_remote": member("RandomBasis", rbr) if rbr else None,
                                  "rotations_local": rl, "rotations_remote": rr})
            tp = member("EPRType", tpn)
            sc = C.Scenario()
            sc.max_depth = 30
            sc.method_overrides = {"_get_purpose_id": lambda o_, *a_, **k_: 7, "_get_app_id": lambda o_, *a_, **k_: 0}
            for nm in ("ReqCreateAndKeep", "ReqMeasureDirectly", "ReqReceive", "RandomBasis", "ReqRemoteStateCreate"):
                sc.externals[f"qlink_interface.{nm}"] = Lib(nm)
            try:
                arr = C.Interp(repo, ev, sc, None).call_function(be, ser, [tp, params], {})
            except C.EvalRaise:
                continue  # (judged by C11.S)
            arrays = Arrays(arr)
            o = C.object_from_init(repo, ex, {"_app_arrays": {0: arrays}}, kind="self")
            try:
                req = C.Interp(repo, ev, sc, ex).call_function(ex.module, g, [5, 2, 1, 3], {}, self_obj=o)
            except C.EvalRaise as ex_:
                bad.setdefault("request:built-for-every-argument-array", f"{label}: _get_create_request raises {ex_.exc_name} ({ex_})")
                continue
            if not (isinstance(req, tuple) and hasattr(req, "_fields")):
                bad.setdefault("request:built-for-every-argument-array", f"{label}: _get_create_request returns {req!r}")
                continue
            fields = req._fields
            defaults = dict(zip(fields[len(fields) - len(type(req).__new__.__defaults__ or ()):], type(req).__new__.__defaults__ or ()))
            rt = qcm.classes["RequestType"]
            want = {"remote_node_id": 2, "purpose_id": 7, "type": EnumMember(rt.qualname, tpn, ev.enum_members(rt)[tpn]), "number": number}
            if max_time != 0:
                want.update({"time_unit": params.fields["time_unit"].value, "max_time": max_time})
            if tpn in ("M", "R"):
                if rl != (0, 0, 0):
                    want.update({"rotation_X_local1": rl[0], "rotation_Y_local": rl[1], "rotation_X_local2": rl[2]})
                if rr != (0, 0, 0):
                    want.update({"rotation_X_remote1": rr[0], "rotation_Y_remote": rr[1], "rotation_X_remote2": rr[2]})
                if rbl:
                    want["random_basis_local"] = params.fields["random_basis_local"]
                if rbr:
                    want["random_basis_remote"] = params.fields["random_basis_remote"]
            for f in fields:
                got = getattr(req, f)
                exp = want[f] if f in want else defaults.get(f, "<no default>")
                d_ = defaults.get(f)
                if isinstance(d_, EnumMember) and not (isinstance(got, EnumMember) and got.enum == d_.enum):
                    bad.setdefault(f"_get_create_request:{f}:coerced-to-enum", f"{label}: LinkLayerCreate.{f} is {got!r}; consumers treat it as a member of {d_.enum.split(':')[-1]} (the argument array holds its integer)")
                    continue
                same = (got.enum == exp.enum and got.value == exp.value) if isinstance(got, EnumMember) and isinstance(exp, EnumMember) else (got == exp and isinstance(got, EnumMember) == isinstance(exp, EnumMember))
                if not same:
                    bad.setdefault(f"_get_create_request:{f}:carries-the-requested-value", f"{label}: LinkLayerCreate.{f} is {got!r}, expected {exp!r}")
            if tpn in ("K", "M"):
                try:
                    out = C.Interp(repo, ev, sc, None).call_function(qcm, r2q, [req], {})
                except C.EvalRaise as ex_:
                    bad.setdefault("request_to_qlink_1_0:converts-every-request", f"{label}: request_to_qlink_1_0 raises {ex_.exc_name} ({ex_}) on the request the executor built")
                    continue
                okind = {"K": "ReqCreateAndKeep", "M": "ReqMeasureDirectly"}[tpn]
                if not (isinstance(out, tuple) and out and out[0] == okind and out[1].get("number") == number and out[1].get("remote_node_id") == 2 and out[1].get("purpose_id") == 7):
                    bad.setdefault("request_to_qlink_1_0:converts-every-request", f"{label}: the link layer is handed {out!r}")
                elif tpn == "M" and (out[1].get("random_basis_local") != ("qlink.RandomBasis", want.get("random_basis_local", defaults.get("random_basis_local")).value)):
                    bad.setdefault("request_to_qlink_1_0:converts-every-request", f"{label}: the link layer is handed random_basis_local={out[1].get('random_basis_local')!r}")
    except AnalysisError as ex_:
        ctx.error("C11.C", f"the request path cannot be executed: {ex_}")
        return
    ctx.anchor("C11.C", "requests taken through serialize_request -> _get_create_request -> request_to_qlink_1_0", n, 250)
    if fields is None:
        ctx.error("C11.C", "no request could be built at all")
        return
    enum_fields = [f for f in fields if isinstance(defaults.get(f), EnumMember)]
    ctx.anchor("C11.C", "LinkLayerCreate fields that are enumeration members", len(enum_fields), 3)
    for f in fields:
        if f in enum_fields:
            nm = f"_get_create_request:{f}:coerced-to-enum"
            ctx.check("C11.C", nm, nm not in bad, bad.get(nm, ""), ex.loc(g), sample={"field": f})
        nm = f"_get_create_request:{f}:carries-the-requested-value"
        ctx.check("C11.C", nm, nm not in bad, bad.get(nm, ""), ex.loc(g), trivial=f not in ("type", "number", "remote_node_id", "purpose_id"), sample={"field": f})
    for nm, loc in (("request:built-for-every-argument-array", ex.loc(g)), ("request_to_qlink_1_0:converts-every-request", repo.loc(qcm, r2q))):
        ctx.check("C11.C", nm, nm not in bad, bad.get(nm, ""), loc)
    n_def = len(defaults)
    ctx.check("C11.C", "LinkLayerCreate:one-default-per-field", n_def == len(fields),
              f"LinkLayerCreate has {len(fields)} fields but {n_def} defaults; _get_create_request pairs arguments, fields and defaults, so a field without a default "
              f"never reaches the request", "netqasm/qlink_compat.py", sample={"fields": len(fields), "defaults": n_def})


def check_enum_joins(ctx):
    repo, ev = ctx.repo, ctx.ev
    qc = repo.module(QC)
    # external enums
    ext: Dict[str, Dict[str, int]] = {}
    path = None
    for cand in ("/venv/lib/python3.12/site-packages/qlink_interface/interface.py",):
        if os.path.exists(cand):
            path = cand
    if path is None:
        import glob
        g = glob.glob("/venv/lib/python*/site-packages/qlink_interface/interface.py")
        path = g[0] if g else None
    if path is None:
        ctx.note("qlink_interface source not found; by-value enum joins with the external interface are assumed, not checked")
    else:
        tree = ast.parse(open(path).read())
        for n in tree.body:
            if isinstance(n, ast.ClassDef) and any(dotted(b) in ("Enum", "enum.Enum") for b in n.bases):
                mem = {}
                last = 0
                for st in n.body:
                    if isinstance(st, ast.Assign) and isinstance(st.targets[0], ast.Name):
                        if isinstance(st.value, ast.Call) and dotted(st.value.func) == "auto":
                            last += 1
                        elif isinstance(st.value, ast.Constant) and isinstance(st.value.value, int):
                            last = st.value.value
                        else:
                            continue
                        mem[st.targets[0].id] = last
                ext[n.name] = mem
    n_j = 0
    for fn in qc.functions.values():
        for c in A.calls_in(fn):
            # X(expr.value) where X is an enum class (internal or qlink_1_0.X)
            if len(c.args) == 1 and isinstance(c.args[0], ast.Attribute) and c.args[0].attr == "value":
                d = dotted(c.func)
                if d is None:
                    continue
                target_name = d.split(".")[-1]
                internal = repo.resolve_class(qc, c.func)
                is_ext = d.startswith("qlink_1_0.")
                if not is_ext and (internal is None or not ev.is_enum(internal)):
                    continue
                # the source enum: by field name convention the same-named internal enum
                src_cls = qc.classes.get(target_name)
                if src_cls is None or not ev.is_enum(src_cls):
                    continue
                n_j += 1
                a = ev.enum_members(src_cls)
                b = ext.get(target_name) if is_ext else ev.enum_members(internal)
                if b is None:
                    ctx.note(f"enum {d} not available for comparison")
                    continue
                ctx.check("C11.E", f"{fn.name}:{d}(by-value)", dict(a) == dict(b),
                          f"{fn.name} converts by value between {target_name} {dict(a)} and {d} {dict(b)}; the name->value maps differ, so members are silently renamed", repo.loc(qc, c),
                          sample={"conversion": src(c)[:80], "maps_equal": dict(a) == dict(b)})
    ctx.anchor("C11.E", "by-value enum conversions", n_j, 3)
    # internal joins: RequestType / ReturnType values are taken from EPRType
    for en, base in (("RequestType", "EPRType"), ("ReturnType", "EPRType")):
        a, b = ev.enum_members(qc.classes[en]), ev.enum_members(qc.classes[base])
        ok = all(a.get(k if en == "RequestType" else "OK_" + k) == v for k, v in b.items())
        ctx.check("C11.E", f"{en}:extends-{base}-values", ok, f"{en} {a} does not reuse the values of {base} {b}; serialize_request writes tp.value and the executor rebuilds RequestType(value)", repo.loc(qc, qc.classes[en].node))


def check_forwarding(ctx):
    repo = ctx.repo
    es = repo.get_class("netqasm.sdk.epr_socket", "EPRSocket")
    be = repo.module(BE)
    erp = be.classes.get("EntRequestParams")
    if erp is None:
        raise AnalysisError("EntRequestParams not found")
    erp_fields = [f[0] for f in repo.dataclass_fields(erp)]
    sites = 0
    for name, fn in sorted(es.methods.items()):
        params = [p for p in A.param_names(fn) if p != "self"]
        if not params:
            continue
        for c in A.calls_in(fn):
            target = None
            accepted: List[str] = []
            if A.is_self_attr(c.func) and c.func.attr in es.methods and c.func.attr != name and not es.is_property(c.func.attr):
                target = c.func.attr
                accepted = [p for p in A.param_names(es.methods[target]) if p != "self"]
            elif A.call_name(c) == "EntRequestParams":
                target = "EntRequestParams"
                accepted = erp_fields
            if target is None:
                continue
            sites += 1
            ctx.fn(f"EPRSocket.{name}")
            kw = A.kwargs_of(c)
            for p in params:
                if p not in accepted:
                    continue
                passed = p in kw and any(isinstance(x, ast.Name) and x.id == p for x in ast.walk(kw[p]))
                ctx.check("C11.F", f"EPRSocket.{name}->{target}:{p}", passed,
                          f"EPRSocket.{name} accepts `{p}` and delegates to {target}, which also takes `{p}`, but does not pass it on: the caller's value is silently replaced by the default",
                          es.loc(c), sample={"api": name, "delegates_to": target, "parameter": p})
    ctx.anchor("C11.F", "delegating call sites in EPRSocket", sites, 14)
    # socket / node ids come from the socket itself
    for name, fn in sorted(es.methods.items()):
        for c in A.calls_in(fn):
            if A.call_name(c) == "EntRequestParams":
                kw = A.kwargs_of(c)
                ok = A.norm(kw.get("remote_node_id", ast.Constant(value=0))) == "self.remote_node_id" and A.norm(kw.get("epr_socket_id", ast.Constant(value=0))) in ("self._epr_socket_id", "self.epr_socket_id")
                ctx.check("C11.F", f"EPRSocket.{name}:socket-and-remote-node-ids", ok, f"EPRSocket.{name} builds its request with remote_node_id={src(kw.get('remote_node_id')) if 'remote_node_id' in kw else None}, epr_socket_id={src(kw.get('epr_socket_id')) if 'epr_socket_id' in kw else None}", es.loc(c), trivial=True)


ROLE_OF_NAME = {"remote_node_id": "remote_node_id", "epr_socket_id": "epr_socket_id", "qubit_ids_array": "qubit_addr_array", "create_args_array": "arg_array", "ent_results_array": "ent_results_array"}


def check_operand_roles(ctx):
    repo, ev = ctx.repo, ctx.ev
    core = repo.module(I.CORE_MOD)
    b = repo.get_class("netqasm.sdk.builder", "Builder")
    ex = repo.get_class(EXE, "Executor")
    n_sites = 0
    for gi, cname, handler, doer in (("CREATE_EPR", "CreateEPRInstruction", "_instr_create_epr", "_do_create_epr"), ("RECV_EPR", "RecvEPRInstruction", "_instr_recv_epr", "_do_recv_epr")):
        c = core.classes.get(cname)
        if c is None:
            raise AnalysisError(f"{cname} not found")
        ops = I.operands_attrs(repo, c)
        # role names in operand order: property aliases of reg0..regN
        roles = []
        for real in ops:
            names = [p for p in c.methods if c.is_property(p) and repo.property_alias(c, p) == real]
            roles.append(names[0] if len(names) == 1 else None)
        ctx.check("C11.O", f"{cname}:one-role-per-operand", all(roles), f"{cname}: operand positions {ops} have role properties {roles}", c.loc(), trivial=True)
        for name, fn in sorted(b.methods.items()):
            for call in A.calls_in(fn):
                if A.call_name(call) != "ICmd":
                    continue
                kw = A.kwargs_of(call)
                ins = kw.get("instruction", call.args[0] if call.args else None)
                if ins is None or A.norm(ins) != f"GenericInstr.{gi}":
                    continue
                n_sites += 1
                ctx.fn(f"Builder.{name}")
                defs = A.single_defs(fn)
                args = A.expand(kw.get("args", ast.List(elts=[])), defs)
                opers = A.expand(kw.get("operands", ast.List(elts=[])), defs)
                if not isinstance(args, ast.List) or not isinstance(opers, ast.List):
                    ctx.error("C11.O", f"Builder.{name}: {gi} args/operands are not list literals")
                    continue
                got = []
                for e in args.elts + opers.elts:
                    if isinstance(e, ast.Call) and A.call_name(e) == "Register":
                        got.append("<placeholder>")
                        continue
                    ch = A.attr_chain(e) or []
                    key = None
                    for part in ch:
                        if part in ROLE_OF_NAME:
                            key = ROLE_OF_NAME[part]
                    got.append(key)
                ok = len(got) == len(roles) and all(g == r or (g == "<placeholder>" and r == "qubit_addr_array") for g, r in zip(got, roles))
                ctx.check("C11.O", f"Builder.{name}:{gi}:args+operands-in-role-order", ok,
                          f"Builder.{name} emits {gi.lower()} with (args + operands) = {got}; the instruction's operand roles are {roles}", b.loc(call),
                          sample={"site": name, "emitted": got, "roles": roles})
        # executor: each role register is read and passed under its own name
        h = ex.methods.get(handler)
        d = ex.methods.get(doer)
        if h is None or d is None:
            raise AnalysisError(f"{handler}/{doer} not found")
        ctx.fn(f"Executor.{handler}")
        defs = A.single_defs(h)
        calls = [x for x in A.calls_in(h) if A.is_self_attr(x.func, doer)]
        if len(calls) != 1:
            ctx.error("C11.O", f"{handler} does not call {doer} once")
            continue
        kw = A.kwargs_of(calls[0])
        param_of_role = {"remote_node_id": "remote_node_id", "epr_socket_id": "epr_socket_id", "qubit_addr_array": "q_array_address", "arg_array": "arg_array_address", "ent_results_array": "ent_results_array_address"}
        for role in [r for r in roles if r]:
            p = param_of_role[role]
            v = kw.get(p)
            e = A.expand(v, {k2: v2 for k2, v2 in defs.items() if k2 != "app_id"}) if v is not None else None
            got = None
            if isinstance(e, ast.Call) and A.is_self_attr(e.func, "_get_register"):
                r = A.get_arg(e, 1, "register")
                got = A.norm(r) if r is not None else None
            want = f"{A.param_names(h)[2]}.{role}"
            ctx.check("C11.O", f"{handler}:{role}", got == want, f"{handler} passes {p} = register `{got}`; expected the value of register operand `{role}`", ex.loc(h), sample={"handler": handler, "role": role})
    ctx.anchor("C11.O", "create_epr / recv_epr emit sites in the builder", n_sites, 6)


def exec_store_ent_info(ctx):
    """Executor._store_ent_info executed for pair indices 0..3 with a response whose fields are tokens and enumeration members
    -> None when pair k fills entries [k * OK_FIELDS, (k + 1) * OK_FIELDS) of the request's result array with every field in order and
    the members lowered to their values; otherwise what is wrong.  Cached per run (shared by C11.R and C12.A)."""
    cached = getattr(ctx, "_c11_store_ent_info", None)
    if cached is not None:
        return cached
    from .. import circuit as C
    from ..model import EnumMember
    repo, ev = ctx.repo, ctx.ev
    ex = repo.get_class(EXE, "Executor")
    se = ex.methods.get("_store_ent_info")
    if se is None:
        raise AnalysisError("_store_ent_info not found")
    qcm = repo.module(QC)
    res = {"slice": None, "content": None}

    class _Log:
        _nqsa_model = True

        def debug(self, *a_, **k_):
            return None
        info = warning = error = debug

    class Arrays:
        _nqsa_model = True

        def __init__(self):
            self.stores = []

        def __setitem__(self, k, v):
            self.stores.append((k, list(v) if isinstance(v, (list, tuple)) else v))

        def __getitem__(self, k):
            raise C.EvalRaise("RuntimeError", "the result array is read while a response is stored")

    sc0 = C.Scenario()
    nt = C.Interp(repo, ev, sc0, None).global_name("LinkLayerOKTypeK", qcm)
    if not isinstance(nt, C.NamedTupleModel):
        raise AnalysisError("qlink_compat.LinkLayerOKTypeK is not a namedtuple class")
    nfields = len(nt._fields)
    rt, bs = qcm.classes["ReturnType"], qcm.classes["BellState"]
    for k in (0, 1, 2, 3):
        vals = []
        for i_, f in enumerate(nt._fields):
            if f == "type":
                vals.append(EnumMember(rt.qualname, "OK_K", ev.enum_members(rt)["OK_K"]))
            elif f == "bell_state":
                vals.append(EnumMember(bs.qualname, "PSI_MINUS", ev.enum_members(bs)["PSI_MINUS"]))
            else:
                vals.append(100 * (k + 1) + i_)
        resp = nt(*vals)
        arrays = {0: Arrays(), 1: Arrays()}
        sc = C.Scenario()
        sc.max_depth = 20
        sc.method_overrides = {"_get_app_id": lambda o_, *a_, **k_: 1}
        o = C.object_from_init(repo, ex, {"_app_arrays": arrays, "_logger": _Log()}, kind="self")
        cmd = C.Obj(repo.get_class(EXE, "EprCmdData"), {"subroutine_id": 9, "ent_results_array_address": 4, "q_array_address": 2, "request": None, "tot_pairs": 4, "pairs_left": 4 - k})
        try:
            C.Interp(repo, ev, sc, ex).call_function(ex.module, se, [cmd, resp, k], {}, self_obj=o)
        except C.EvalRaise as ex_:
            res["slice"] = res["slice"] or f"pair {k}: _store_ent_info raises {ex_.exc_name} ({ex_})"
            continue
        st = arrays[1].stores + [("app 0", s_) for s_ in arrays[0].stores]
        want_vals = [v_.value if isinstance(v_, EnumMember) else v_ for v_ in vals]
        if len(st) != 1 or not (isinstance(st[0][0], tuple) and len(st[0][0]) == 2 and isinstance(st[0][0][1], slice)):
            res["slice"] = res["slice"] or f"pair {k}: the stores into the application's arrays are {st!r}; expected one store at [results array of the request, k*{nfields}:(k+1)*{nfields}]"
            continue
        (addr, sl), got = st[0]
        if addr != 4 or (sl.start, sl.stop, sl.step) not in ((k * nfields, (k + 1) * nfields, None), (k * nfields, (k + 1) * nfields, 1)):
            res["slice"] = res["slice"] or f"pair {k}: the response is stored at [{addr}, {sl.start}:{sl.stop}]; expected [4 (the request's results array), {k * nfields}:{(k + 1) * nfields}]"
        if got != want_vals or any(isinstance(x_, EnumMember) for x_ in (got if isinstance(got, list) else [])):
            res["content"] = res["content"] or f"pair {k}: the stored entries are {got!r}; expected every field of the response in order with enumeration members lowered to their values: {want_vals!r}"
    ctx._c11_store_ent_info = res
    return res


def check_result_arrays(ctx):
    repo = ctx.repo
    ex = repo.get_class(EXE, "Executor")
    se = ex.methods.get("_store_ent_info")
    ctx.fn("Executor._store_ent_info")
    from .. import circuit as C
    try:
        r_ = exec_store_ent_info(ctx)
        ctx.check("C11.R", "_store_ent_info:all-fields-in-order-enums-lowered", r_["content"] is None and r_["slice"] is None, r_["content"] or r_["slice"] or "", ex.loc(se), sample={"pairs": 4})
    except AnalysisError as ex_:
        ctx.error("C11.R", f"_store_ent_info cannot be executed: {ex_}")
    b = repo.get_class("netqasm.sdk.builder", "Builder")
    cs = b.methods.get("_create_ent_info_k_slices")
    if cs is None:
        raise AnalysisError("_create_ent_info_k_slices not found")
    ctx.fn("Builder._create_ent_info_k_slices")
    # executed for 0..3 pairs against an array that answers get_future_slice(s) with one token per index of s: pair i must be made of
    # the tokens i*OK_FIELDS_K .. (i+1)*OK_FIELDS_K - 1, in order
    nf = ctx.ev.try_eval(ast.Name(id="OK_FIELDS_K", ctx=ast.Load()), b.module)
    bad = None
    try:
        if not isinstance(nf, int):
            raise AnalysisError("OK_FIELDS_K cannot be evaluated")

        class Arr:
            _nqsa_model = True

            def get_future_slice(self, s):
                if not isinstance(s, slice):
                    raise C.EvalRaise("TypeError", f"get_future_slice({s!r})")
                return [("entry", i_) for i_ in range(*s.indices(10 ** 6))]

            def get_future_index(self, i_):
                return ("entry", i_)

        for n_pairs in (0, 1, 2, 3):
            sc = C.Scenario()
            sc.max_depth = 20
            bo = C.object_from_init(repo, b, {}, kind="self")
            try:
                out = C.Interp(repo, ctx.ev, sc, b).call_function(b.module, cs, [n_pairs, Arr()], {}, self_obj=bo)
            except C.EvalRaise as ex_:
                bad = bad or f"{n_pairs} pairs: raises {ex_.exc_name} ({ex_})"
                continue
            got = [list(x_) if isinstance(x_, tuple) else x_ for x_ in (out if isinstance(out, list) else [out])]
            want = [[("entry", i_ * nf + j_) for j_ in range(nf)] for i_ in range(n_pairs)]
            if not isinstance(out, list) or got != want or any(not hasattr(x_, "_fields") for x_ in out):
                bad = bad or f"{n_pairs} pairs: the entanglement information is built from {got!r}; expected pair i from the entries i*{nf} .. (i+1)*{nf}-1 of the result array, as LinkLayerOKTypeK"
        ctx.check("C11.R", "_create_ent_info_k_slices:pair-i-reads-slice-i", bad is None, bad or "", b.loc(cs))
    except AnalysisError as ex_:
        ctx.error("C11.R", f"_create_ent_info_k_slices cannot be executed: {ex_}")
    # result array sizes
    ar = b.methods.get("_alloc_ent_results_array")
    sizes = {}
    exp = {}
    if ar is not None:
        # the function is executed abstractly for each request type; the length passed to alloc_array is evaluated for number = 3
        bm = b.module
        consts = {nm: ctx.ev.try_eval(ast.Name(id=nm, ctx=ast.Load()), bm) for nm in ("OK_FIELDS_K", "OK_FIELDS_M")}
        from .. import circuit as C
        from ..model import EnumMember
        ety = repo.get_class("netqasm.qlink_compat", "EPRType")
        emem = ctx.ev.enum_members(ety)
        for k_ in ("K", "M", "R"):
            got = []
            sc = C.Scenario()
            sc.globals = {n_: v_ for n_, v_ in consts.items() if v_ is not None}
            sc.overrides["alloc_array"] = lambda length=None, *a_, got=got, **kw_: got.append(length if length is not None else (a_[0] if a_ else None))
            bo = C.object_from_init(repo, b, {}, kind="self")
            try:
                C.Interp(repo, ctx.ev, sc, b).call_function(bm, ar, [], {"number": 3, "tp": EnumMember(ety.qualname, k_, emem[k_])}, self_obj=bo)
            except C.EvalRaise as ex_:
                got.append(f"raises {ex_}")
            except AnalysisError as ex_:
                got.append(f"? ({ex_})")
            sizes[k_] = got
            fields = consts["OK_FIELDS_K"] if k_ == "K" else consts["OK_FIELDS_M"]
            exp[k_] = [fields * 3] if isinstance(fields, int) else ["?"]
    ctx.check("C11.R", "_alloc_ent_results_array:OK_FIELDS-per-pair", sizes == exp, f"result arrays are sized {sizes}; expected {exp}", b.loc(ar) if ar else "")


def normalise(ctx):
    """name the locals of the functions read below by role (nqsa/roles.py)"""
    repo = ctx.repo
    m = repo.module(BE)
    specs = {
        "serialize_request": ["$array=[None for $_ in range(SER_CREATE_LEN)]"],
        "deserialize_epr_keep_results": ["for $i in range(request.number)", "$base=$i*SER_RESPONSE_KEEP_LEN", "$results=[]"],
        "deserialize_epr_measure_results": ["for $i in range(request.number)", "$base=$i*SER_RESPONSE_MEASURE_LEN", "$results=[]"],
    }
    for name, pats in specs.items():
        fn = m.functions.get(name)
        if fn is not None:
            roles.normalise(ctx, fn, pats, f"build_epr.{name}")
    ex = repo.get_class("netqasm.backend.executor", "Executor")
    c12.normalise_executor(ctx, ex)
    xs = {
        "_get_create_request": ["$kwargs={}", "for ($arg,$field,$default) in zip(...)"],
        "_store_ent_info": ["$ent_info=[...]", "$ent_results_array_address=epr_cmd_data.ent_results_array_address", "$arr_start=pair_index*OK_FIELDS", "$arr_stop=(pair_index+1)*OK_FIELDS",
                            "$subroutine_id=epr_cmd_data.subroutine_id", "$app_id=self._get_app_id(...)"],
    }
    for name, pats in xs.items():
        fn = ex.methods.get(name)
        if fn is not None:
            roles.normalise(ctx, fn, pats, f"Executor.{name}")
    b = repo.get_class("netqasm.sdk.builder", "Builder")
    fn = b.methods.get("_create_ent_info_k_slices")
    if fn is not None:
        roles.normalise(ctx, fn, ["for $i in range(num_pairs)", "$ent_info_slices=[]", "$ent_info_slice_futures=ent_results_array.get_future_slice(...)", "$ent_info_slice=LinkLayerOKTypeK(*$ent_info_slice_futures)"],
                        "Builder._create_ent_info_k_slices")


def run(ctx):
    normalise(ctx)
    check_indices(ctx)
    check_serialize(ctx)
    check_coercion(ctx)
    check_enum_joins(ctx)
    check_forwarding(ctx)
    check_operand_roles(ctx)
    check_result_arrays(ctx)
    # "each result handle reads the corresponding field of pair i's link-layer response": on the controller the i-th response consumed
    # for a request gets pair index i; the consumption loop is executed abstractly over all short pending lists (rule shared with C12)
    from . import c12
    exe_ = ctx.repo.get_class("netqasm.backend.executor", "Executor")
    c12.check_consumption(ctx, exe_, "C11.X")
    # "... of pair i's response" presupposes that a response is attributed to the request it answers: the oldest outstanding request
    # under the response's own (node, purpose) key and role, retired exactly after its last pair (rules of C12 on the two request
    # tables, evaluated under this property as C11.Q)
    from ..report import RenamedRules
    view = RenamedRules(ctx, {"C12.Q": "C11.Q", "C12.K": "C11.Qk", "C12.D": "C11.Qd", "C12.A": "C11.Qa", "C12.": "C11.Q"})
    c12.check_queues(view, exe_)
    c12.check_keys(view, exe_)
    # ... and that only requests the network stack accepted are outstanding: in the methods that touch the request / response queues no
    # state change precedes a raise, an assert or a call into the network stack (which may refuse) - a request filed before a refused
    # `put` stays at the head of its queue and takes the responses of the next accepted one (rule shared with C12.F / C13.U)
    from . import c13
    queues_ = ("_epr_create_requests", "_epr_recv_requests", "_pending_epr_responses")
    c13.check_fault_atomicity(ctx, "C11.F", only=lambda name, fn: any(isinstance(x, ast.Attribute) and x.attr in queues_ for x in ast.walk(fn)), floor=1)
    # 0 is an ordinary id / value / address: nothing int-valued may be tested by truthiness (nqsa/truth.py)
    from .. import truth
    truth.check(ctx, "C11.Z", ['netqasm.sdk.build_epr', 'netqasm.sdk.epr_socket', 'netqasm.qlink_compat', 'netqasm.backend.executor'])
    # a value remembered for later calls is keyed by every argument it depends on (nqsa/memo.py)
    from .. import memo
    memo.check(ctx, "C11.K", ['netqasm.sdk.build_epr', 'netqasm.sdk.epr_socket', 'netqasm.qlink_compat', 'netqasm.backend.executor'])
    # no type test that an earlier type test has already decided (a subclass tested after its base class: nqsa/shadow.py)
    from .. import shadow
    shadow.check(ctx, "C11.H", ['netqasm.sdk.build_epr', 'netqasm.sdk.epr_socket', 'netqasm.qlink_compat', 'netqasm.backend.executor'])


BEF = "netqasm/sdk/build_epr.py"
XF = "netqasm/backend/executor.py"
ESF = "netqasm/sdk/epr_socket.py"
BF = "netqasm/sdk/builder.py"
SEEDS = [
    dict(id="c11-defaults-one-short", file="netqasm/qlink_compat.py", expect="C11.C", construct="one-default-per-field",
         old="LinkLayerCreate.__new__.__defaults__ = (  # type: ignore\n    0,\n    0,\n", new="LinkLayerCreate.__new__.__defaults__ = (  # type: ignore\n    0,\n"),

    dict(id="c11-rotation-under-elif-of-random-basis", file="netqasm/sdk/build_epr.py", expect="C11.S", construct="written-whenever-its-own-field-is-set",
         old="        if params.rotations_remote != (0, 0, 0):\n", new="        if params.random_basis_remote:\n            pass\n        elif params.rotations_remote != (0, 0, 0):\n"),
    dict(id="c11-max-time-only-for-keep", file="netqasm/sdk/build_epr.py", expect="C11.S", construct="written-whenever-its-own-field-is-set",
         old="    if params.max_time != 0:\n", new="    if params.max_time != 0 and params.number > 0:\n"),

    dict(id="c11-swap-ser", file=BEF, expect="C11.I", construct="SER_CREATE_IDX_TIME_UNIT", old="SER_CREATE_IDX_TIME_UNIT = 5\nSER_CREATE_IDX_MAX_TIME = 6", new="SER_CREATE_IDX_TIME_UNIT = 6\nSER_CREATE_IDX_MAX_TIME = 5"),
    dict(id="c11-resp-idx", file=BEF, expect="C11.I", construct="SER_RESPONSE_MEASURE_IDX_GOODNESS", old="SER_RESPONSE_MEASURE_IDX_GOODNESS = 8", new="SER_RESPONSE_MEASURE_IDX_GOODNESS = 7"),
    dict(id="c11-tuple-field-moved", file="netqasm/qlink_compat.py", expect="C11.I", construct="SER_RESPONSE_KEEP_IDX", old='        "goodness",\n        "goodness_time",\n        "bell_state",\n    ],\n)\nLinkLayerOKTypeK.__new__', new='        "goodness_time",\n        "goodness",\n        "bell_state",\n    ],\n)\nLinkLayerOKTypeK.__new__'),
    dict(id="c11-rot-slot", file=BEF, expect="C11.S", construct="rotation_y_local", old="            array[SER_CREATE_IDX_ROTATION_Y_LOCAL] = params.rotations_local[1]", new="            array[SER_CREATE_IDX_ROTATION_Y_LOCAL] = params.rotations_local[2]"),
    dict(id="c11-remote-basis", file=BEF, expect="C11.S", construct="serialize_request:", old="            array[SER_CREATE_IDX_RANDOM_BASIS_REMOTE] = params.random_basis_remote.value", new="            array[SER_CREATE_IDX_RANDOM_BASIS_REMOTE] = params.random_basis_local.value"),
    dict(id="c11-duration-slot", file=BEF, expect="C11.S", construct="generation_duration", old="                generation_duration=array.get_future_index(\n                    base + SER_RESPONSE_KEEP_IDX_GOODNESS\n                ),", new="                generation_duration=array.get_future_index(\n                    base + SER_RESPONSE_KEEP_IDX_GOODNESS_TIME\n                ),"),
    dict(id="c11-base", file=BEF, expect="C11.S", construct="pair-i-starts", old="        base = i * SER_RESPONSE_MEASURE_LEN", new="        base = i * SER_RESPONSE_MEASURE_LEN + 1"),
    dict(id="c11-orig-coercion", file=XF, expect="C11.C", construct="random_basis_local", old='        kwargs["random_basis_local"] = RandomBasis(kwargs["random_basis_local"])  # type: ignore\n', new=""),
    dict(id="c11-type-coercion", file=XF, expect="C11.C", construct="type", old='        kwargs["type"] = RequestType(kwargs["type"])  # type: ignore\n', new=""),
    dict(id="c11-orig-forward", file=ESF, expect="C11.F", construct="create->create_rsp:rotations_local", old="                basis_local=basis_local,\n                rotations_local=rotations_local,\n                random_basis_local=random_basis_local,\n            )\n        assert False", new="                basis_local=basis_local,\n                random_basis_local=random_basis_local,\n            )\n        assert False"),
    dict(id="c11-forward-max-time", file=ESF, expect="C11.F", construct="create_context", old="                sequential=sequential,\n                time_unit=time_unit,\n                max_time=max_time,\n            )\n        )\n\n    def recv_keep(", new="                sequential=sequential,\n                time_unit=time_unit,\n            )\n        )\n\n    def recv_keep("),
    dict(id="c11-operand-order", file=BF, expect="C11.O", construct="_build_cmds_epr_create_keep", old="        epr_cmd_operands = [\n            qubit_ids_array.address,\n            create_args_array.address,\n            ent_results_array.address,\n        ]", new="        epr_cmd_operands = [\n            create_args_array.address,\n            qubit_ids_array.address,\n            ent_results_array.address,\n        ]"),
    dict(id="c11-args-order", file=BF, expect="C11.O", construct="_build_cmds_epr_recv_measure", old="            instruction=GenericInstr.RECV_EPR,\n            args=[params.remote_node_id, params.epr_socket_id],\n            operands=epr_cmd_operands,  # type: ignore\n        )\n        self.subrt_add_pending_command(epr_cmd)\n\n        # wait\n        arr_slice = ArraySlice(\n            ent_results_array.address, start=0, stop=len(ent_results_array)  # type: ignore\n        )\n        if wait_all:\n            wait_cmds = [ICmd(instruction=GenericInstr.WAIT_ALL, operands=[arr_slice])]\n        else:\n            wait_cmds = []\n\n        self.subrt_add_pending_commands(wait_cmds)  # type: ignore\n\n    def _build_cmds_epr_create_rsp(",
         new="            instruction=GenericInstr.RECV_EPR,\n            args=[params.epr_socket_id, params.remote_node_id],\n            operands=epr_cmd_operands,  # type: ignore\n        )\n        self.subrt_add_pending_command(epr_cmd)\n\n        # wait\n        arr_slice = ArraySlice(\n            ent_results_array.address, start=0, stop=len(ent_results_array)  # type: ignore\n        )\n        if wait_all:\n            wait_cmds = [ICmd(instruction=GenericInstr.WAIT_ALL, operands=[arr_slice])]\n        else:\n            wait_cmds = []\n\n        self.subrt_add_pending_commands(wait_cmds)  # type: ignore\n\n    def _build_cmds_epr_create_rsp("),
    dict(id="c11-executor-role", file=XF, expect="C11.O", construct="_instr_recv_epr", old="        q_array_address = self._get_register(\n            app_id=app_id, register=instr.qubit_addr_array\n        )\n        ent_results_array_address = self._get_register(\n            app_id=app_id, register=instr.ent_results_array\n        )\n        assert remote_node_id is not None\n        assert epr_socket_id is not None\n        # q_address can be None",
         new="        q_array_address = self._get_register(\n            app_id=app_id, register=instr.ent_results_array\n        )\n        ent_results_array_address = self._get_register(\n            app_id=app_id, register=instr.qubit_addr_array\n        )\n        assert remote_node_id is not None\n        assert epr_socket_id is not None\n        # q_address can be None"),
    dict(id="c11-enum-renumber", file="netqasm/qlink_compat.py", expect="C11.E", construct="RandomBasis", old="class RandomBasis(Enum):\n    NONE = 0\n    XZ = auto()\n    XYZ = auto()", new="class RandomBasis(Enum):\n    NONE = 0\n    XYZ = auto()\n    XZ = auto()"),
    dict(id="c11-enum-lowering", file=XF, expect="C11.R", construct="_store_ent_info", old="            entry.value if isinstance(entry, Enum) else entry for entry in response", new="            entry for entry in response"),
]
BENIGN = [
    dict(id="c11-benign-random-basis-written-first", edits=[
        ("netqasm/sdk/build_epr.py", "        if params.random_basis_local:\n            array[SER_CREATE_IDX_RANDOM_BASIS_LOCAL] = params.random_basis_local.value\n", ""),
        ("netqasm/sdk/build_epr.py", "        # Only write when non-zero.\n", "        if params.random_basis_local:\n            array[SER_CREATE_IDX_RANDOM_BASIS_LOCAL] = params.random_basis_local.value\n"),
    ]),
]
