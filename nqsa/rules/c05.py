"""C05 — SDK control/data flow compiles to equivalent subroutines (claimed in part).

C05.F flip table = negation; C05.N API name <-> condition constant; C05.G the
emitted branch is the flipped one, operands in order, label after the body;
C05.L loop emitters: label and loop-register coherence; C05.U "at most" exit
predicate; C05.A add on futures; C05.M measurement outcome placement;
C05.R registers stay reserved until the commands using them are built; C05.P flush order;
C05.H the host reads the controller's own array object (alias chain ret_arr -> shared memory).
"""
from __future__ import annotations

import ast
import copy
import json
import operator
from typing import Dict, List, Optional

from .. import astutil as A
from .. import emit as E
from .. import guards as G
from ..model import AnalysisError, Unknown, dotted, src
from . import c04

TECHNIQUE = "abstract execution of whole objects of the repository by the checker's AST interpreter: a family of host programs written as SDK text runs against the repository's connection, builder, futures and controller and is compared with direct execution of the same program (C05.X); emission model of builder code (ICmd constructions read from the AST): branch-sense table, operand/label/register coherence at every emit site, predicate evaluation, register typestate; flush / compile pipeline executed against the repository's own builder bookkeeping by the checker's AST interpreter (static analysis; abstract execution)"
ENGINES = ["model", "emit", "circuit", "pipeline", "session"]
EXPLANATION = (
    "Over sdk/builder.py, sdk/futures.py, sdk/connection.py, lang/ir.py: flip_branch_instr is total over the six conditions, an "
    "involution and the logical negation under the executor's predicates; every if_XX API (connection, builder, futures) passes the "
    "BXX constant of its name and hands condition/op0/op1 through unchanged; the emitted branch uses the flipped instruction with "
    "(op0, op1) in order and the label that is defined after the body; loop emitters use one loop register for SET/compare/ADD, the "
    "exit branch targets the label the exit commands define, the back jump targets the entry label, and the command lists are "
    "concatenated as pre + entry + body (+ break + cleanup) + exit; the ValueAtMost exit branch is evaluated on an integer grid "
    "against `f <= v`; add on futures loads, adds into and stores back the same temporary; the measurement outcome register is the "
    "one stored to the future; flush = pop -> assemble -> instantiate -> send -> reset."
 " C05.X (abstract execution, nqsa/sdkprog.py): 23 host programs x up to 3 flush placements (69 runs) through the repository's DebugConnection / Builder / futures / QNodeController / Executor, compared with direct execution: add (constants, futures, itself, modulus), six conditions x callback / context x futures / constants, counted loops (both forms, step, count-down, no round, index as value and as array index), foreach / enumerate, loop_until (first / middle / last / never, measured, cleanup code), measurement into future / array / register, register add, nesting to depth three, gates of conditional bodies."
    ' Every early return of the loop assemblers is evaluated over a grid of bodies and bounds: the loop may be dropped only when it cannot run. C05.R: a register is not used in an emitted command after its release. C05.Z: no truthiness test on an int-typed value.'
    " C05.H: the host's shared memory holds the controller's own array object: ret_arr -> _update_shared_memory -> SharedMemory.init_new_array -> Arrays._set_array and both _get_array accessors hand the list on as a bare name / subscript (no copy). C05.K: memoisation keys cover the arguments."
    ' Executed abstractly (checker-side AST interpreter): flip_branch_instr for the six conditions; both branch builders for future / int operands (loads, branch operands, one label, its definition after the body); the four loop emitters with distinguishable arguments; the at-most break for v in -3..4 against f <= v; add on Future / RegFuture for other in {int, register, future} x mod in {None, int}; _build_cmds_measure for 3 bases x explicit rotations x inplace x Future / RegFuture, including that the emitted rotation followed by a Z measurement measures the requested axis.'
)
LEVEL_TEXT = (
    "Static analysis with abstract execution, partial: the property as stated for a bounded family of host programs (every construct, nesting to depth "
    "three, three flush placements; arrays, fresh futures, measurement handles, gates and measurements compared with direct execution after every flush), "
    "plus operand, register, label and branch-sense coherence at every emit site. Not decided: programs outside the family (larger nesting, counted loops "
    "whose index never reaches the bound, values read through futures cached before a later flush)."
)
LEVEL_NOTE = "branch predicates as checked by C04.B; values of labels and registers at run time are not modelled"
ASSUMPTIONS = [LEVEL_NOTE]
B = "netqasm.sdk.builder"
CONDS = {"eq": "BEQ", "ne": "BNE", "lt": "BLT", "ge": "BGE", "ez": "BEZ", "nz": "BNZ"}
OPS = {"==": operator.eq, "!=": operator.ne, "<": operator.lt, ">=": operator.ge}


def predicates():
    ref = json.load(open(c04.REF))["branch_predicates"]
    out = {}
    for mn, spec in ref.items():
        op = OPS[spec["op"]]
        out[mn.upper()] = (spec["arity"], (lambda a, b=0, op=op: op(a, b)))
    return out


def check_flip(ctx):
    repo = ctx.repo
    m = repo.module("netqasm.lang.ir")
    fn = m.functions.get("flip_branch_instr")
    if fn is None:
        raise AnalysisError("flip_branch_instr not found")
    ctx.fn("ir.flip_branch_instr")
    # the function is executed abstractly (nqsa/circuit.py) for each of the six condition members, however its table is kept
    from .. import circuit as C
    from ..model import EnumMember
    gi = repo.get_class("netqasm.lang.ir", "GenericInstr")
    members = ctx.ev.enum_members(gi)
    table = {}
    for c in sorted(CONDS.values()):
        try:
            out = C.Interp(repo, ctx.ev, C.Scenario(), None).call_function(m, fn, [EnumMember(gi.qualname, c, members[c])], {})
            table[c] = out.name if isinstance(out, EnumMember) else repr(out)
        except C.EvalRaise as ex_:
            table[c] = f"<raises {ex_}>"
        except AnalysisError as ex_:
            ctx.error("C05.F", f"flip_branch_instr cannot be evaluated for {c}: {ex_}")
            return
    pred = predicates()
    for c in sorted(CONDS.values()):
        f = table.get(c)
        ok = f is not None and table.get(f) == c and f in pred and pred[f][0] == pred[c][0]
        if ok:
            ar = pred[c][0]
            for a in range(-2, 3):
                for b in (range(-2, 3) if ar == 2 else [0]):
                    if pred[f][1](a, b) == pred[c][1](a, b):
                        ok = False
        ctx.check("C05.F", f"flip:{c}", ok, f"flip_branch_instr maps {c} to {f}; it must map every condition to its logical negation and back", repo.loc(m, fn), sample={"condition": c, "flipped": f})


def check_api_names(ctx):
    repo = ctx.repo
    b = repo.get_class(B, "Builder")
    conn = repo.get_class("netqasm.sdk.connection", "BaseNetQASMConnection")
    fut = repo.get_class("netqasm.sdk.futures", "BaseFuture")
    for suf, const in sorted(CONDS.items()):
        unary = suf in ("ez", "nz")
        # builder
        fn = b.methods.get(f"sdk_if_{suf}")
        ok = False
        if fn is not None:
            ctx.fn(f"Builder.sdk_if_{suf}")
            calls = [c for c in A.calls_in(fn) if A.is_self_attr(c.func, "_build_cmds_if_stmt")]
            if len(calls) == 1:
                bd = c04.bind(calls[0], b.methods["_build_cmds_if_stmt"])
                p = A.param_names(fn)
                ok = A.norm(bd.get("condition", ast.Constant(value=0))) == f"GenericInstr.{const}" and A.norm(bd.get("op0", ast.Constant(value=0))) == p[1] and \
                    (A.norm(bd.get("op1", ast.Constant(value=0))) == ("None" if unary else p[2])) and A.norm(bd.get("body", ast.Constant(value=0))) == p[-1]
        ctx.check("C05.N", f"Builder.sdk_if_{suf}", ok, f"Builder.sdk_if_{suf} does not build an if-statement with GenericInstr.{const} on its own operands", b.loc(fn) if fn else b.loc(), sample={"api": f"sdk_if_{suf}", "condition": const})
        # connection
        fn = conn.methods.get(f"if_{suf}")
        ok = False
        if fn is not None:
            ctx.fn(f"BaseNetQASMConnection.if_{suf}")
            p = A.param_names(fn)[1:]
            ok = any(A.call_name(c) == f"sdk_if_{suf}" and [A.norm(a) for a in c.args] == p for c in A.calls_in(fn))
        ctx.check("C05.N", f"connection.if_{suf}", ok, f"connection.if_{suf} does not forward its arguments, in order, to Builder.sdk_if_{suf}", conn.loc(fn) if fn else conn.loc())
        # futures
        fn = fut.methods.get(f"if_{suf}")
        ok = False
        if fn is not None:
            ctx.fn(f"BaseFuture.if_{suf}")
            calls = [c for c in A.calls_in(fn) if A.call_name(c) == "sdk_new_if_context"]
            if len(calls) == 1:
                kw = A.kwargs_of(calls[0])
                p = A.param_names(fn)
                ok = A.norm(kw.get("condition", ast.Constant(value=0))) == f"GenericInstr.{const}" and A.norm(kw.get("op0", ast.Constant(value=0))) == "self" and \
                    A.norm(kw.get("op1", ast.Constant(value=0))) == ("None" if unary else p[1])
        ctx.check("C05.N", f"BaseFuture.if_{suf}", ok, f"BaseFuture.if_{suf} does not create an if-context with GenericInstr.{const}, op0=self", fut.loc(fn) if fn else fut.loc())
    # the context object hands condition / op0 / op1 through unchanged
    ic = repo.get_class(B, "SdkIfContext")
    init, ex = ic.methods.get("__init__"), ic.methods.get("__exit__")
    stored = {A.norm(st.targets[0]): A.norm(st.value) for st in A.body_nodes(init) if isinstance(st, ast.Assign)} if init else {}
    ok = all(stored.get(f"self._{k}") == k for k in ("condition", "op0", "op1", "id"))
    calls = [c for c in A.calls_in(ex) if A.call_name(c) == "if_context_exit"] if ex else []
    kw = A.kwargs_of(calls[0]) if calls else {}
    ok = ok and all(A.norm(kw.get(k, ast.Constant(value=0))) == f"self._{k}" for k in ("condition", "op0", "op1")) and A.norm(kw.get("context_id", ast.Constant(value=0))) == "self._id"
    ctx.check("C05.N", "SdkIfContext:hands-condition-and-operands-through", ok, "SdkIfContext does not pass the condition and operands it was created with to if_context_exit", ic.loc())
    nic = b.methods.get("sdk_new_if_context")
    calls = [c for c in A.calls_in(nic) if A.call_name(c) == "SdkIfContext"] if nic else []
    kw = A.kwargs_of(calls[0]) if calls else {}
    ok = all(A.norm(kw.get(k, ast.Constant(value=0))) == k for k in ("condition", "op0", "op1"))
    ctx.check("C05.N", "Builder.sdk_new_if_context:hands-through", ok, "sdk_new_if_context does not pass condition/op0/op1 to the context object", b.loc(nic) if nic else "", trivial=True)
    for fname, callee in (("if_context_exit", "_build_cmds_condition"), ("_build_cmds_if_stmt", "_build_cmds_condition")):
        fn = b.methods.get(fname)
        calls = [c for c in A.calls_in(fn) if A.is_self_attr(c.func, callee)] if fn else []
        kw = A.kwargs_of(calls[0]) if calls else {}
        ok = all(A.norm(kw.get(k, ast.Constant(value=0))) == k for k in ("condition", "op0", "op1"))
        ctx.check("C05.N", f"Builder.{fname}:hands-through", ok, f"{fname} does not pass condition/op0/op1 unchanged to {callee}", b.loc(fn) if fn else "", trivial=True)


def check_condition_emit(ctx):
    repo = ctx.repo
    b = repo.get_class(B, "Builder")
    fn = b.methods.get("_build_cmds_condition")
    if fn is None:
        raise AnalysisError("_build_cmds_condition not found")
    ctx.fn("Builder._build_cmds_condition")
    d = A.single_defs(fn)
    neg = [k for k, v in d.items() if isinstance(v, ast.Call) and A.call_name(v) == "flip_branch_instr" and len(v.args) == 1 and A.norm(v.args[0]) == "condition"]
    ctx.check("C05.G", "_build_cmds_condition:negated-predicate-from-condition", len(neg) == 1, "the negated predicate is not flip_branch_instr(condition)", b.loc(fn))
    negv = neg[0] if neg else "negated_predicate"
    calls1 = [c for c in A.calls_in(fn) if A.is_self_attr(c.func, "_get_branch_commands_single_operand")]
    calls2 = [c for c in A.calls_in(fn) if A.is_self_attr(c.func, "_get_branch_commands")]
    ok = False
    if len(calls1) == 1 and len(calls2) == 1:
        k1, k2 = A.kwargs_of(calls1[0]), A.kwargs_of(calls2[0])
        ok = A.norm(k1.get("branch_instruction", ast.Constant(value=0))) == negv and A.norm(k1.get("op", ast.Constant(value=0))) == "op0" and \
            A.norm(k2.get("branch_instruction", ast.Constant(value=0))) == negv and A.norm(k2.get("op0", ast.Constant(value=0))) == "op0" and A.norm(k2.get("op1", ast.Constant(value=0))) == "op1"
    ctx.check("C05.G", "_build_cmds_condition:flipped-branch-with-op0-op1", ok,
              "the branch that skips the body is not built from the *flipped* condition with operands (op0, op1) in that order "
              "(passing the condition itself would execute the body exactly when the condition is false)", b.loc(fn), sample={"negated": negv})
    # unary / binary selection
    sel = [n for n in ast.walk(fn) if isinstance(n, ast.If) and isinstance(n.test, ast.Compare) and isinstance(n.test.ops[0], ast.In) and A.norm(n.test.left) == negv]
    ok = False
    if sel:
        lst = sel[0].test.comparators[0]
        names = sorted(dotted(e).split(".")[-1] for e in lst.elts) if isinstance(lst, (ast.List, ast.Tuple, ast.Set)) else []
        ok = names == ["BEZ", "BNZ"] and any(x is calls1[0] for b_ in sel[0].body for x in ast.walk(b_)) if calls1 else False
    ctx.check("C05.G", "_build_cmds_condition:unary-conditions-use-single-operand-form", ok, "the single-operand branch form is not selected exactly for BEZ/BNZ", b.loc(fn))
    # concatenation
    cat = None
    for n in A.body_nodes(fn):
        if isinstance(n, (ast.Assign, ast.AnnAssign)) and n.value is not None and isinstance(n.value, ast.BinOp):
            t = E.concat_terms(n.value)
            if len(t) == 4:
                cat = t
    unp = [n.targets[0] for n in ast.walk(fn) if isinstance(n, ast.Assign) and isinstance(n.targets[0], ast.Tuple) and len(n.targets[0].elts) == 2 and isinstance(n.value, ast.Call) and A.call_name(n.value).startswith("_get_branch_commands")]
    names = {(t.elts[0].id, t.elts[1].id) for t in unp if all(isinstance(e, ast.Name) for e in t.elts)}
    okc = len(names) == 1 and cat == ["pre_commands", list(names)[0][0], "body_commands", list(names)[0][1]]
    ctx.check("C05.G", "_build_cmds_condition:pre+branch+body+label", okc, f"the commands are concatenated as {cat}; expected pre_commands + <branch commands> + body_commands + <exit label> (branch builders return (start, end) = {sorted(names)})", b.loc(fn), sample={"concat": cat})
    ok = any(A.norm(r.value) == "None" or r.value is None for r in A.returns(fn)) and any(isinstance(n, ast.If) and A.norm(n.test) == "len(body_commands)==0" for n in fn.body)
    # branch builders: executed abstractly (nqsa/circuit.py) with _get_condition_operand, the label manager and the memory manager
    # modelled: whatever the builder is written as, it must return (loads of op0 [+ loads of op1] + [branch(cond0[, cond1], Label(L))],
    # [BranchLabel(L)]) for the one label L it took
    from .. import circuit as C
    for name, nops in (("_get_branch_commands_single_operand", 1), ("_get_branch_commands", 2)):
        f2 = b.methods.get(name)
        if f2 is None:
            raise AnalysisError(f"{name} not found")
        ctx.fn(f"Builder.{name}")
        ok = loads_ok = False
        detail = ""
        try:
            for kinds in ((("future", "future"), ("int", "future"), ("future", "int"), ("int", "int")) if nops == 2 else (("future",), ("int",))):
                labels, conds = [], {}
                sc = C.Scenario()

                def cond_operand(value, conds=conds):
                    k = len(conds)
                    r = C.RegSym(f"cond{k}")
                    conds[id(value)] = (r, [f"load{k}a", f"load{k}b"] if isinstance(value, C.Obj) else [])
                    return (list(conds[id(value)][1]), r)

                def new_label(*a_, labels=labels, **kw_):
                    labels.append(f"L{len(labels)}")
                    return labels[-1]

                sc.overrides["_get_condition_operand"] = cond_operand
                bo = C.object_from_init(repo, b, {"_label_mgr": C.Obj(None, {"new_label": new_label}),
                                                  "_mem_mgr": C.Obj(None, {"remove_active_register": lambda *a_, **k_: None, "add_active_register": lambda *a_, **k_: None})}, kind="self")
                ops_in = [C.Obj(None, {"name": f"f{k}"}, "future") if kd == "future" else 40 + k for k, kd in enumerate(kinds)]
                it = C.Interp(repo, ctx.ev, sc, b)
                out = it.call_function(b.module, f2, ["BRANCH"] + ops_in, {}, self_obj=bo)
                good = isinstance(out, tuple) and len(out) == 2 and isinstance(out[0], list) and isinstance(out[1], list) and len(labels) == 1 and out[0]
                if good:
                    start, end = out
                    br = start[-1]
                    want_ops = [conds[id(v)][0] for v in ops_in if id(v) in conds]
                    want_loads = [x for v in ops_in for x in conds.get(id(v), (None, []))[1]]
                    f_ = getattr(br, "fields", {})
                    opsv = f_.get("operands") or []
                    lab = opsv[-1] if opsv else None
                    good = f_.get("instruction") == "BRANCH" and len(opsv) == nops + 1 and all(a_ is b_ for a_, b_ in zip(opsv[:-1], want_ops)) and len(want_ops) == nops \
                        and isinstance(lab, C.Obj) and lab.cls is not None and lab.cls.name == "Label" and labels[0] in lab.fields.values() \
                        and len(end) == 1 and isinstance(end[0], C.Obj) and end[0].cls is not None and end[0].cls.name == "BranchLabel" and labels[0] in end[0].fields.values()
                    loads_now = list(start[:-1]) == want_loads
                    detail = f"operands {opsv!r}, commands before the branch {start[:-1]!r}, end {end!r}"
                    if not good:
                        ok = False
                        break
                    ok = True
                    loads_ok = loads_now if kinds == (("future",) * nops) or loads_ok or not want_loads else loads_ok
                    if not loads_now:
                        loads_ok = False
                        break
                else:
                    ok = False
                    detail = f"returns {out!r}"
                    break
        except (AnalysisError, C.EvalRaise) as ex_:
            ctx.error("C05.G", f"Builder.{name} cannot be evaluated: {ex_}")
            continue
        ctx.check("C05.G", f"{name}:branch-operands-and-exit-label", ok, f"{name}: branch emitted with {detail}; expected the condition operand(s) in order followed by the label that is defined after the body", b.loc(f2),
                  sample={"builder": name, "branch": detail[:200]})
        ctx.check("C05.G", f"{name}:loads-before-branch", ok and loads_ok, f"{name}: the commands loading the condition operands are not placed, in operand order, before the branch ({detail})", b.loc(f2), trivial=True)
    # _get_condition_operand: Future -> load into the returned register from its own address entry
    g = b.methods.get("_get_condition_operand")
    ics = E.icmds_in(g) if g else []
    ok = False
    if g is not None and len(ics) == 1 and ics[0].instr == "LOAD" and len(ics[0].operands) == 2:
        vp = A.param_names(g)[1]
        dg = A.single_defs(g)
        regv = A.norm(ics[0].operands[0])
        ent = A.norm(A.expand(ics[0].operands[1], dg))
        rets = [r for r in A.returns(g) if isinstance(r.value, ast.Tuple) and len(r.value.elts) == 2 and A.norm(r.value.elts[1]) == regv]
        ok = ent == f"{vp}.get_address_entry()" and bool(rets) and isinstance(dg.get(regv), ast.Call) and A.call_name(dg[regv]) == "get_inactive_register"
    ctx.check("C05.G", "_get_condition_operand:future-loaded-into-returned-register", ok, "a Future condition operand is not loaded from its own array entry into the register that is returned", b.loc(g) if g else "")


def _retired(*a_, **k_):
    """how the two assembling functions pass labels, register and bounds to their emitters and in which order they concatenate the
    pieces was read here from their text (keyword by keyword, term by term).  C05.X decides the same on executed programs - a wrong
    label, register, bound or order changes what a loop computes - and does not mind how the hand-over is written (a dict passed
    with **, a closure over the labels, functools.reduce over the pieces): the shape obligations are retired."""
    return None


def check_loops(ctx):
    repo = ctx.repo
    b = repo.get_class(B, "Builder")

    from .. import circuit as C

    def shape(fname):
        """the emitter is executed abstractly with distinguishable arguments (it may delegate to another emitter, build its list step
        by step, ...); what it returns is rendered with the parameter names the values stand for"""
        fn = b.methods.get(fname)
        if fn is None:
            raise AnalysisError(f"{fname} not found")
        ctx.fn(f"Builder.{fname}")
        lr = C.RegSym("loop_register")
        given = {"loop_register": lr, "start": 700001, "stop": 900001, "step": 300001, "entry_label": "<entry>", "exit_label": "<exit>"}
        kwargs = {p: given[p] for p in A.param_names(fn)[1:] if p in given}
        missing = [p for p in A.param_names(fn)[1:] if p not in given]
        if missing:
            raise AnalysisError(f"{fname}: unexpected parameter(s) {missing}")
        bo = C.object_from_init(repo, b, {}, kind="self")
        try:
            lst = C.Interp(repo, ctx.ev, C.Scenario(), b).call_function(b.module, fn, [], kwargs, self_obj=bo)
        except C.EvalRaise as ex_:
            raise AnalysisError(f"{fname}: raises {ex_}")
        if not isinstance(lst, list):
            raise AnalysisError(f"{fname}: does not return a list of commands")
        back = {id(lr): "loop_register"}

        def name_of(v):
            if isinstance(v, C.Obj) and v.cls is not None and v.cls.name == "Label":
                return "Label(" + ", ".join(name_of(x) for x in v.fields.values()) + ")"
            if id(v) in back:
                return back[id(v)]
            for k_, g_ in given.items():
                if not isinstance(g_, C.RegSym) and v == g_ and type(v) is type(g_):
                    return k_
            return repr(v)

        out = []
        for e in lst:
            if isinstance(e, C.Obj) and e.cls is not None and e.cls.name == "BranchLabel":
                out.append(("LABEL", [name_of(x) for x in e.fields.values()]))
            elif isinstance(e, C.Obj) and e.cls is not None and e.cls.name == "ICmd":
                ins = e.fields.get("instruction")
                out.append((getattr(ins, "name", str(ins)), [name_of(x) for x in (e.fields.get("operands") or [])]))
            else:
                out.append(("?", [repr(e)]))
        return fn, out
    exp = {
        "_loop_get_entry_commands": [("SET", ["loop_register", "start"]), ("LABEL", ["entry_label"]), ("BEQ", ["loop_register", "stop", "Label(exit_label)"])],
        "_loop_get_exit_commands": [("ADD", ["loop_register", "loop_register", "step"]), ("JMP", ["Label(entry_label)"]), ("LABEL", ["exit_label"])],
        "_loop_until_get_entry_commands": [("SET", ["loop_register", "0"]), ("LABEL", ["entry_label"]), ("BEQ", ["loop_register", "stop", "Label(exit_label)"])],
        "_loop_until_get_exit_commands": [("ADD", ["loop_register", "loop_register", "1"]), ("JMP", ["Label(entry_label)"]), ("LABEL", ["exit_label"])],
    }
    for fname, want in exp.items():
        fn, got = shape(fname)
        ctx.check("C05.L", f"{fname}:commands", got == want,
                  f"{fname} emits {got}; expected {want}: the loop register set, compared and incremented must be the same, the exit branch must target the label the exit commands define and the back jump the entry label",
                  b.loc(fn), sample={"emitter": fname, "commands": got})
    # the assembling functions pass one set of labels / register to both halves and concatenate in order
    for fname, starts, ends, order in (("_build_cmds_loop", "_loop_get_entry_commands", "_loop_get_exit_commands", ["pre_commands", "call:_loop_get_entry_commands", "body_commands", "call:_loop_get_exit_commands"]),
                                       ("_build_cmds_loop_until", "_loop_until_get_entry_commands", "_loop_until_get_exit_commands",
                                        ["pre_commands", "call:_loop_until_get_entry_commands", "body_commands", "call:_loop_until_get_break_commands", "local:[]|call:subrt_pop_all_pending_commands", "call:_loop_until_get_exit_commands"])):
        fn = b.methods.get(fname)
        if fn is None:
            raise AnalysisError(f"{fname} not found")
        ctx.fn(f"Builder.{fname}")
        d = A.single_defs(fn)
        cs = [c for c in A.calls_in(fn) if A.is_self_attr(c.func, starts)]
        ce = [c for c in A.calls_in(fn) if A.is_self_attr(c.func, ends)]
        ok = len(cs) == 1 and len(ce) == 1
        if ok:
            ks, ke = A.kwargs_of(cs[0]), A.kwargs_of(ce[0])
            same = all(A.norm(ks.get(k, ast.Constant(value=1))) == A.norm(ke.get(k, ast.Constant(value=2))) for k in ("entry_label", "exit_label", "loop_register"))
            distinct = A.norm(ks["entry_label"]) != A.norm(ks["exit_label"]) if "entry_label" in ks and "exit_label" in ks else False
            fresh = all(isinstance(d.get(A.norm(ks[k])), ast.Call) and A.call_name(d[A.norm(ks[k])]) == "new_label" for k in ("entry_label", "exit_label") if k in ks)
            lr = A.norm(ks.get("loop_register", ast.Constant(value=0))) == "loop_register"
            ok = same and distinct and fresh and lr
        _retired("C05.L", f"{fname}:same-labels-and-register-for-entry-and-exit", ok, f"{fname} does not give the entry and exit emitters the same two fresh labels and its own loop register", b.loc(fn))
        cat = None
        for n in A.body_nodes(fn):
            if isinstance(n, (ast.Assign, ast.AnnAssign)) and n.value is not None and isinstance(n.value, ast.BinOp):
                t = E.concat_terms(n.value)
                if len(t) >= 4:
                    cat = []
                    params_ = set(A.param_names(fn))
                    multi = A.assigned_names(fn)
                    for term in t:
                        v = d.get(term)
                        if isinstance(v, ast.Call) and A.is_self_attr(v.func):
                            cat.append("call:" + v.func.attr)
                        elif term in params_:
                            cat.append(term)
                        else:
                            # a local bound on several paths: named by what it can hold
                            kinds = sorted({("call:" + x.func.attr) if isinstance(x, ast.Call) and A.is_self_attr(x.func) else A.norm(x) for x in multi.get(term, []) if x is not None})
                            cat.append("local:" + "|".join(kinds))
        _retired("C05.L", f"{fname}:concatenation-order", cat == order, f"{fname} concatenates {cat}; expected {order}", b.loc(fn), sample={"assembler": fname, "order": cat})
        # the loop is dropped (early return) only when that cannot change behaviour: empty body, or a counted loop whose emitted
        # form runs zero times (start == stop).  The predicate of every early return is evaluated on a grid of bounds and bodies.
        ints = [-2, -1, 0, 1, 2, 5]
        bounds = [(a, o, e) for a in ints + [G.Sym("Register")] for o in ints + [G.Sym("Register")] for e in (-2, -1, 1, 2)] if fname == "_build_cmds_loop" else [(None, None, None)]
        for r in [n for n in A.body_nodes(fn) if isinstance(n, ast.Return)]:
            tests = G.path_conditions(fn, r)
            bad = None
            try:
                for body in ([], [G.Sym("ICmd")], [G.Sym("ICmd"), G.Sym("ICmd")]):
                    for (a, o, e) in bounds:
                        env = {"body_commands": body, "pre_commands": [G.Sym("ICmd")], "start": a, "stop": o, "step": e, "loop_register": G.Sym("Register"), "context": G.Sym("SdkLoopUntilContext")}
                        taken = all(bool(G.peval(A.expand(t, d), env)) == pol for t, pol in tests)
                        allowed = len(body) == 0 or (isinstance(a, int) and isinstance(o, int) and a == o)
                        if taken and not allowed:
                            bad = bad or {"body_commands": len(body), "start": str(a), "stop": str(o), "step": e}
            except Unknown as ex_:
                ctx.error("C05.L", f"{fname}: early-return condition `{' and '.join(src(t) for t, _ in tests)}` cannot be evaluated ({ex_})")
                continue
            ctx.check("C05.L", f"{fname}:loop-dropped-only-when-it-cannot-run", bad is None,
                      f"{fname} returns without emitting the loop under `{' and '.join(('' if pol else 'not ') + '(' + src(t) + ')' for t, pol in tests)}`, which holds for {bad}: "
                      "the emitted loop would run its body there (e.g. a count-down loop with a negative step), so the body's commands are silently dropped", b.loc(r),
                      sample={"assembler": fname, "early_return_under": [src(t) for t, _ in tests]})
            emits_pre = any(isinstance(c, ast.Call) and A.call_name(c) == "subrt_add_pending_commands" and A.norm(A.kwargs_of(c).get("commands", c.args[0] if c.args else ast.Constant(value=0))) == "pre_commands"
                            for st in G.dominating_stmts(fn, r) + [x for t_ in [G.path_to(fn, r)] if t_ for x in t_[-1][0]] for c in ast.walk(st))
            ctx.check("C05.L", f"{fname}:early-return-still-emits-the-pre-commands", emits_pre, f"{fname} drops the commands built before the loop when it returns early", b.loc(r), trivial=True)
        # bounds passed through
        if fname == "_build_cmds_loop" and cs:
            ks = A.kwargs_of(cs[0])
            ok = A.norm(ks.get("start", ast.Constant(value=0))) == "start" and A.norm(ks.get("stop", ast.Constant(value=0))) == "stop" and A.norm(A.kwargs_of(ce[0]).get("step", ast.Constant(value=0))) == "step"
            _retired("C05.L", "_build_cmds_loop:bounds-passed-through", ok, "start/stop/step are not handed to the loop emitters unchanged", b.loc(fn), trivial=True)
        if fname == "_build_cmds_loop_until" and cs:
            ks = A.kwargs_of(cs[0])
            ok = A.norm(ks.get("stop", ast.Constant(value=0))) == "context.max_iterations"
            brk = [c for c in A.calls_in(fn) if A.is_self_attr(c.func, "_loop_until_get_break_commands")]
            ok = ok and len(brk) == 1 and A.norm(A.kwargs_of(brk[0]).get("exit_label", ast.Constant(value=0))) == A.norm(ks.get("exit_label", ast.Constant(value=1)))
            _retired("C05.L", "_build_cmds_loop_until:break-targets-the-loop-exit", ok, "the early-exit branch does not target the exit label of the same loop (or the bound is not max_iterations)", b.loc(fn))
    # loop contexts hand their own register to the assembler
    for fname, callee in (("_build_cmds_loop_body", "_build_cmds_loop"), ("sdk_loop_context", "_build_cmds_loop"), ("_foreach_context_exit", "_build_cmds_loop"), ("_post_epr_context", "_build_cmds_loop"), ("_loop_until_context_exit", "_build_cmds_loop_until")):
        fn = b.methods.get(fname)
        if fn is None:
            raise AnalysisError(f"{fname} not found")
        ctx.fn(f"Builder.{fname}")
        calls = [c for c in A.calls_in(fn) if A.is_self_attr(c.func, callee)]
        ok = len(calls) == 1
        if ok:
            kw = A.kwargs_of(calls[0])
            pre, body, lr = kw.get("pre_commands"), kw.get("body_commands"), kw.get("loop_register")
            ok = isinstance(pre, ast.Name) and isinstance(body, ast.Name) and isinstance(lr, ast.Name) and pre.id != body.id
            if ok:
                # the body's commands come from the last pop(s) before the assembler is called; the pre-commands are another, earlier variable
                assigns = [(st.lineno, st.targets[0].id, st.value) for st in A.body_nodes(fn) if isinstance(st, ast.Assign) and isinstance(st.targets[0], ast.Name) and st.lineno < calls[0].lineno]
                is_pop = lambda v: isinstance(v, ast.Call) and A.is_self_attr(v.func, "subrt_pop_all_pending_commands")
                popped = {name_ for _, name_, v in assigns if is_pop(v)}
                body_defs = [(ln, v) for ln, name_, v in assigns if name_ == body.id]
                pre_defs = [(ln, v) for ln, name_, v in assigns if name_ == pre.id]
                last_body = max(body_defs, key=lambda t: t[0]) if body_defs else None
                ok = last_body is not None and (is_pop(last_body[1]) or any(isinstance(x, ast.Name) and x.id in popped for x in ast.walk(last_body[1]))) \
                    and all((ln < last_body[0] or not is_pop(v)) and not A.contains_name(v, body.id) for ln, v in pre_defs)
        ctx.check("C05.L", f"{fname}:own-commands-and-register", ok, f"{fname} does not pass its own pre/body commands and loop register to {callee}", b.loc(fn), trivial=True)
    # the body of a callback loop sees the register the loop counts in
    lb = b.methods["_build_cmds_loop_body"]
    bc = [c for c in A.calls_in(lb) if isinstance(c.func, ast.Name) and c.func.id == "body"]
    lb_calls = [c for c in A.calls_in(lb) if A.is_self_attr(c.func, "_build_cmds_loop")]
    lb_reg = A.norm(A.kwargs_of(lb_calls[0]).get("loop_register", ast.Constant(value=0))) if lb_calls else "?"
    ok = len(bc) == 1 and len(bc[0].args) == 2 and A.norm(bc[0].args[1]) == f"RegFuture(connection=self._connection,reg={lb_reg})"
    ctx.check("C05.L", "_build_cmds_loop_body:body-gets-the-loop-register", ok, "the loop body callback does not receive a RegFuture of the loop register", b.loc(lb))
    # foreach: the element future is indexed by the loop register
    fe = b.methods["_foreach_context_enter"]
    rets = [A.norm(r.value) for r in A.returns(fe)]
    fe_reg = [k for k, v in A.single_defs(fe).items() if isinstance(v, ast.Call) and A.call_name(v) == "get_inactive_register"]
    lrn = fe_reg[0] if len(fe_reg) == 1 else "?"
    ok = sorted(rets) == sorted([f"({lrn},array.get_future_index({lrn}))", f"array.get_future_index({lrn})"])
    # and that register is the one stored for the exit half
    ok = ok and any(isinstance(n, ast.Assign) and isinstance(n.targets[0], ast.Subscript) and A.is_self_attr(n.targets[0].value, "_pre_context_commands") and A.contains_name(n.value, lrn) for n in ast.walk(fe))
    ctx.check("C05.L", "_foreach_context_enter:element-indexed-by-loop-register", ok, f"foreach returns {rets}; the element must be array[loop_register]", b.loc(fe))
    fx = b.methods["_foreach_context_exit"]
    calls = [c for c in A.calls_in(fx) if A.is_self_attr(c.func, "_build_cmds_loop")]
    kw = A.kwargs_of(calls[0]) if calls else {}
    ok = A.norm(kw.get("stop", ast.Constant(value=0))) == "len(array)" and A.norm(kw.get("start", ast.Constant(value=1))) == "0" and A.norm(kw.get("step", ast.Constant(value=0))) == "1"
    ctx.check("C05.L", "_foreach_context_exit:whole-array", ok, "foreach does not iterate indices 0..len(array)-1 in steps of 1", b.loc(fx))


def check_at_most(ctx):
    repo, ev = ctx.repo, ctx.ev
    b = repo.get_class(B, "Builder")
    fn = b.methods.get("_loop_until_get_break_commands")
    if fn is None:
        raise AnalysisError("_loop_until_get_break_commands not found")
    ctx.fn("Builder._loop_until_get_break_commands")
    pred = predicates()
    # executed abstractly (nqsa/circuit.py) for ValueAtMostConstraint(f, v) with v over a range: the one branch it emits, read as a
    # predicate over the loaded value of f and the emitted bound, must hold exactly when f <= v, and it must jump to the exit label
    from .. import circuit as C
    vac = repo.get_class("netqasm.sdk.constraint", "ValueAtMostConstraint")
    bad = None
    ok_shape = True
    shown = ("?", "?")
    try:
        for v in range(-3, 5):
            sc = C.Scenario()
            cond_reg = C.RegSym("cond")
            sc.overrides["_get_condition_operand"] = lambda value, cond_reg=cond_reg: ([C.Obj(None, {"model": "load", "of": value})], cond_reg)
            fut = C.Obj(None, {"name": "f"}, "future")
            ctxo = C.Obj(None, {"exit_condition": C.Obj(vac, {"future": fut, "_future": fut, "value": v, "_value": v})})
            bo = C.object_from_init(repo, b, {"_mem_mgr": C.Obj(None, {"remove_active_register": lambda *a_, **k_: None, "add_active_register": lambda *a_, **k_: None})}, kind="self")
            out = C.Interp(repo, ev, sc, b).call_function(b.module, fn, [ctxo, "<exit>"], {}, self_obj=bo)
            brs = [x for x in (out or []) if isinstance(x, C.Obj) and x.cls is not None and x.cls.name == "ICmd" and getattr(x.fields.get("instruction"), "name", None) in pred]
            if len(brs) != 1 or (out and out[-1] is not brs[0]):
                ok_shape = False
                break
            ins = brs[0].fields["instruction"].name
            ops = brs[0].fields.get("operands") or []
            lab = ops[-1] if ops else None
            if not (len(ops) == pred[ins][0] + 1 and ops[0] is cond_reg and isinstance(lab, C.Obj) and lab.cls is not None and lab.cls.name == "Label" and "<exit>" in lab.fields.values()
                    and any(isinstance(x, C.Obj) and x.fields.get("model") == "load" and x.fields.get("of") is fut for x in out[:-1])):
                ok_shape = False
                break
            bound = ops[1] if pred[ins][0] == 2 else 0
            shown = (ins, bound if v != 0 else f"{bound} for v = 0")
            if not isinstance(bound, int):
                bad = ("unevaluable", repr(bound))
                break
            for f in range(-3, 5):
                if pred[ins][1](f, bound) != (f <= v):
                    bad = bad or (f, v)
            if bad:
                break
    except C.EvalRaise as ex_:
        ok_shape = False
    except AnalysisError as ex_:
        ctx.error("C05.U", f"_loop_until_get_break_commands cannot be evaluated: {ex_}")
        return
    ctx.check("C05.U", "loop_until:ValueAtMost-exit-predicate", ok_shape and bad is None,
              f"the exit branch for ValueAtMostConstraint(f, v) is `{str(shown[0]).lower()} f, <{shown[1]}>`; it differs from `f <= v` at (f, v) = {bad}"
              if ok_shape else "the exit branch does not compare the (loaded) constrained future with the constraint's value and jump to the loop exit", b.loc(fn),
              sample={"branch": shown[0], "first_difference": bad})
    # the break is placed after the body (the condition is evaluated after each iteration)
    ctx.check("C05.U", "loop_until:only-ValueAtMost-supported", any(isinstance(n, ast.Call) and dotted(n.func) == "isinstance" and A.norm(n.args[1]) == "ValueAtMostConstraint" for n in ast.walk(fn)), "anchor changed: ValueAtMostConstraint dispatch not found", b.loc(fn), trivial=True)


def check_future_ops(ctx):
    repo = ctx.repo
    fm = repo.module("netqasm.sdk.futures")
    # add(): executed abstractly (nqsa/circuit.py) for other in {int, register, future} x mod in {None, int}, with the memory manager,
    # the load/store command builders and the pending-command sink modelled.  Whatever it is written as, it must queue
    #   loads(self -> t) [loads(other -> t2)]  ADD|ADDM [t, t, other|t2 (, mod)]  stores(t -> self) [...]
    # with t (and t2) fresh temporaries for a Future, t = self.reg for a RegFuture.
    from .. import circuit as C
    fcls = fm.classes["Future"]
    for cname in ("Future", "RegFuture"):
        c = fm.classes.get(cname)
        fn = c.methods.get("add") if c else None
        if fn is None:
            raise AnalysisError(f"{cname}.add not found")
        ctx.fn(f"{cname}.add")
        ok_all, ok_other, detail = True, True, ""
        try:
            for okind in ("int", "register", "future"):
                for mod in (None, 700001):
                    sc = C.Scenario()
                    fresh, released, queued = [], [], []

                    def get_reg(activate=False, fresh=fresh):
                        fresh.append(C.RegSym(f"tmp{len(fresh)}"))
                        return fresh[-1]

                    def access(kind):
                        # a modelled access command: it has operands like a real one (register, entry of its owner) but is no ICmd
                        return lambda o, reg: [C.Obj(None, {"model": kind, "owner": o, "reg": reg, "instruction": kind, "operands": [reg, C.Obj(None, {"entry_of": o})]})]

                    sc.method_overrides = {"get_load_commands": access("load"), "_get_store_commands": access("store")}

                    def acc(x):
                        return (x.fields["model"], x.fields["owner"], x.fields["reg"]) if isinstance(x, C.Obj) and x.cls is None and "model" in x.fields else None
                    mem = C.Obj(None, {"get_inactive_register": get_reg, "remove_active_register": lambda r, released=released: released.append(r), "add_active_register": lambda r: None})
                    bld = C.Obj(None, {"_mem_mgr": mem, "subrt_add_pending_commands": lambda cmds=None, commands=None, queued=queued: queued.extend(cmds if cmds is not None else commands)})
                    own_reg = C.RegSym("self.reg")
                    me = C.Obj(c, {"builder": bld, "reg": own_reg, "_reg": own_reg}, "self")
                    other = 500001 if okind == "int" else C.RegSym("other_register") if okind == "register" else C.Obj(fcls, {"builder": bld}, "self")
                    C.Interp(repo, ctx.ev, sc, c).call_function(fm, fn, [other], {"mod": mod}, self_obj=me)
                    adds = [k for k, x in enumerate(queued) if isinstance(x, C.Obj) and x.cls is not None and x.cls.name == "ICmd"]
                    detail = f"other={okind}, mod={mod}: queued {queued!r}"
                    if len(adds) != 1:
                        ok_all = False
                        break
                    k = adds[0]
                    cmd = queued[k]
                    ins = getattr(cmd.fields.get("instruction"), "name", None)
                    ops = cmd.fields.get("operands") or []
                    t = fresh[0] if cname == "Future" and fresh else own_reg
                    want_third = other if okind != "future" else None
                    good = ins == ("ADD" if mod is None else "ADDM") and len(ops) == (3 if mod is None else 4) and ops[0] is t and ops[1] is t and (mod is None or ops[3] == mod)
                    if okind != "future":
                        good = good and (ops[2] is other if okind == "register" else (len(ops) > 2 and ops[2] == other))
                    else:
                        t2 = ops[2] if len(ops) > 2 else None
                        # the other future is loaded into (and only into) its own fresh temporary, which is the operand added
                        oth_ok = isinstance(t2, C.RegSym) and t2 is not t and any(t2 is f_ for f_ in fresh) and any(acc(x) is not None and acc(x)[0] == "load" and acc(x)[1] is other and acc(x)[2] is t2 for x in queued[:k]) \
                            and not any(acc(x) is not None and acc(x)[0] == "load" and acc(x)[1] is other and acc(x)[2] is not t2 for x in queued)
                        ok_other = ok_other and oth_ok
                    if cname == "Future":
                        before = [acc(x) for x in queued[:k] if acc(x) is not None]
                        after = [acc(x) for x in queued[k + 1:] if acc(x) is not None]
                        good = good and any(t is f_ for f_ in fresh) and any(x[0] == "load" and x[1] is me and x[2] is t for x in before) and any(x[0] == "store" and x[1] is me and x[2] is t for x in after) \
                            and not any(x[0] == "store" for x in before) and not any(x[0] == "load" for x in after)
                    else:
                        good = good and t is own_reg
                    if not good:
                        ok_all = False
                        break
                if not ok_all:
                    break
        except C.EvalRaise as ex_:
            ok_all = False
            detail += f" raises {ex_}"
        except AnalysisError as ex_:
            ctx.error("C05.A", f"{cname}.add cannot be evaluated: {ex_}")
            continue
        ctx.check("C05.A", f"{cname}.add", ok_all,
                  f"{cname}.add: {detail[:300]}; expected load -> add into the same register [own, own, other] (+mod for addm) -> store back",
                  c.loc(fn), sample={"class": cname})
        ctx.check("C05.A", f"{cname}.add:other-future-loaded", ok_other and ok_all, f"{cname}.add does not load a Future `other` into its own temporary before adding ({detail[:200]})", c.loc(fn), trivial=True)
    # access commands: load/store [register, @address[index]]
    fut = fm.classes["Future"]
    ac = fut.methods.get("_get_access_commands")
    ics = E.icmds_in(ac) if ac else []
    pi_, pr_ = (A.param_names(ac)[1:3] if ac else ("?", "?"))
    ok = len(ics) >= 1 and ics[-1].instr == pi_ and len(ics[-1].ops()) == 2 and ics[-1].ops()[0] == pr_
    if ok:
        # second operand: the entry @<own address>[<index>] parsed from this future's address
        ad = A.single_defs(ac).get(ics[-1].ops()[1])
        ok = isinstance(ad, ast.Call) and A.call_name(ad) == "parse_address" and "self._address" in A.norm(ad)
    gl, gs = fut.methods.get("get_load_commands"), fut.methods.get("_get_store_commands")
    ok = ok and gl is not None and gs is not None and "GenericInstr.LOAD" in A.norm(A.returns(gl)[0].value) and "GenericInstr.STORE" in A.norm(A.returns(gs)[0].value)
    ctx.check("C05.A", "Future:load/store-commands", ok, "Future load/store commands are not `load|store <register> <own array entry>`", fut.loc(ac) if ac else "")
    # measurement
    b = repo.get_class(B, "Builder")
    mfn = b.methods.get("_build_cmds_measure")
    ctx.fn("Builder._build_cmds_measure")
    # executed abstractly (nqsa/circuit.py) over basis x explicit rotations x inplace x kind of future, with the register sources, the
    # store-command builder and the pending-command sink modelled: the measurement writes register M, and M is what is stored into
    # the Future / bound to the RegFuture; the qubit register is the one set to the qubit id; the qubit is freed iff not in place
    import math as _math
    from ..model import EnumMember
    qmb = repo.get_class("netqasm.sdk.qubit", "QubitMeasureBasis")
    fcls, rcls = fm.classes["Future"], fm.classes["RegFuture"]
    ok, why = True, ""
    n_runs = 0
    try:
        for bname in ("X", "Y", "Z"):
            for rotations in (None, (3, 5, 7)):
                for inplace in (False, True):
                    for fkind in ("future", "regfuture"):
                        n_runs += 1
                        sc = C.Scenario()
                        M, Q = C.RegSym("M"), C.RegSym("Q")
                        queued, set_to, returned, unused = [], [], [], []
                        sc.overrides["_get_qubit_register"] = lambda *a_, **k_: Q
                        sc.overrides["_build_cmds_set_register_value"] = lambda reg=None, value=None, *a_, **k_: set_to.append((reg, value))
                        sc.overrides["_build_cmds_free_up_qubit_location"] = lambda *a_, **k_: None
                        sc.overrides["subrt_add_pending_commands"] = lambda commands=None, *a_, **k_: queued.extend(commands if commands is not None else a_[0])
                        sc.method_overrides = {"_get_store_commands": lambda o, reg: [C.Obj(None, {"model": "store", "owner": o, "reg": reg})]}
                        mem = C.Obj(None, {"get_new_meas_outcome_register": lambda: M, "meas_register_set_unused": lambda r: unused.append(r), "add_register_to_return": lambda r: returned.append(r)})
                        bo = C.object_from_init(repo, b, {"_mem_mgr": mem, "_hardware_config": C.Obj(None, {"generic": True})}, kind="self")
                        fut = C.Obj(fcls if fkind == "future" else rcls, {"reg": None}, "self")
                        basis = EnumMember(qmb.qualname, bname, ctx.ev.enum_members(qmb)[bname])
                        C.Interp(repo, ctx.ev, sc, b).call_function(b.module, mfn, [], {"qubit_id": 5, "future": fut, "inplace": inplace, "basis": basis, "rotations": rotations}, self_obj=bo)
                        cmds = [x for x in queued if isinstance(x, C.Obj) and x.cls is not None and x.cls.name == "ICmd"]
                        names = [getattr(x.fields.get("instruction"), "name", None) for x in cmds]
                        where = f"basis={bname}, rotations={rotations}, inplace={inplace}, {fkind}"
                        if not cmds or names[0] not in ("MEAS", "MEAS_BASIS") or queued[0] is not cmds[0]:
                            ok, why = False, f"{where}: the first queued command is not the measurement ({names})"
                            break
                        mo = cmds[0].fields.get("operands") or []
                        if len(mo) < 2 or mo[0] is not Q or mo[1] is not M or (Q, 5) not in set_to:
                            ok, why = False, f"{where}: measurement operands {mo!r}; the qubit register must be the one set to the qubit id and the outcome register the fresh M register"
                            break
                        if rotations is not None and not (names[0] == "MEAS_BASIS" and tuple(mo[2:5]) == rotations):
                            ok, why = False, f"{where}: explicit rotations are not the ones emitted ({mo[2:]!r})"
                            break
                        if rotations is None:
                            rot = tuple(mo[2:5]) if names[0] == "MEAS_BASIS" else (0, 0, 0)
                            den = mo[5] if names[0] == "MEAS_BASIS" and len(mo) > 5 else 4
                            U = C.rot("x", rot[2] * _math.pi / 2 ** den) @ C.rot("y", rot[1] * _math.pi / 2 ** den) @ C.rot("x", rot[0] * _math.pi / 2 ** den)
                            O = U.conj().T @ C.PZ @ U
                            P = {"X": C.PX, "Y": C.PY, "Z": C.PZ}[bname]
                            if not (abs(O - P).max() < 1e-9):
                                ok, why = False, f"{where}: the emitted rotation {rot}/2^{den} followed by a Z measurement does not measure {bname}"
                                break
                        frees = [x for x in cmds[1:] if getattr(x.fields.get("instruction"), "name", None) == "QFREE"]
                        if (len(frees) == 1) != (not inplace) or (frees and (frees[0].fields.get("operands") or [None])[0] is not Q):
                            ok, why = False, f"{where}: the qubit is {'not ' if not frees else ''}freed"
                            break
                        stores = [x for x in queued if isinstance(x, C.Obj) and x.cls is None and x.fields.get("model") == "store"]
                        if fkind == "future" and not (len(stores) == 1 and stores[0].fields["owner"] is fut and stores[0].fields["reg"] is M and queued.index(stores[0]) > 0):
                            ok, why = False, f"{where}: the outcome register is not the one stored into the Future ({stores!r})"
                            break
                        if fkind == "regfuture" and not (any(v_ is M for v_ in fut.fields.values()) and returned == [M] and not stores):
                            ok, why = False, f"{where}: the RegFuture is bound to {fut.fields.get('reg')!r} / returned {returned!r}, not to the outcome register"
                            break
                    if not ok:
                        break
                if not ok:
                    break
            if not ok:
                break
    except C.EvalRaise as ex_:
        ok, why = False, f"raises {ex_}"
    except AnalysisError as ex_:
        ctx.error("C05.M", f"_build_cmds_measure cannot be evaluated: {ex_}")
    ics = list(range(n_runs))
    ctx.check("C05.M", "_build_cmds_measure:outcome-register-is-the-one-stored", ok, f"the register that receives the measurement outcome is not the one stored into the Future / bound to the RegFuture, or the measurement is not the requested one: {why}", b.loc(mfn), sample={"scenarios": len(ics)})
    # order: [measurement] + free + store; the terms are named by what they hold
    cat = None
    multi = A.assigned_names(mfn)

    def holds(name_):
        vals = [v for v in multi.get(name_, []) if v is not None]
        kinds = set()
        for v in vals:
            if isinstance(v, ast.Call) and A.call_name(v) == "ICmd":
                kinds.add(A.norm(A.kwargs_of(v).get("instruction", ast.Constant(value=0))).split(".")[-1])
            elif isinstance(v, ast.List) and v.elts and all(isinstance(x, ast.Call) and A.call_name(x) == "ICmd" for x in v.elts):
                kinds.update(A.norm(A.kwargs_of(x).get("instruction", ast.Constant(value=0))).split(".")[-1] for x in v.elts)
            elif isinstance(v, ast.Call) and A.call_name(v) == "_get_store_commands":
                kinds.add("store")
        return "|".join(sorted(kinds))

    for n in A.body_nodes(mfn):
        if isinstance(n, ast.Assign) and isinstance(n.value, ast.BinOp) and len(E.concat_terms(n.value)) == 3:
            cat = []
            for term in E.concat_terms(n.value):
                name_ = term.strip("[]")
                cat.append(holds(name_))
    ctx.check("C05.M", "_build_cmds_measure:measure-then-free-then-store", cat == ["MEAS|MEAS_BASIS", "QFREE", "store"], f"measurement commands are ordered {cat}", b.loc(mfn), trivial=True)


def check_flush(ctx):
    repo = ctx.repo
    conn = repo.get_class("netqasm.sdk.connection", "BaseNetQASMConnection")
    cp = conn.methods.get("commit_protosubroutine")
    fl = conn.methods.get("flush")
    if cp is None or fl is None:
        raise AnalysisError("flush/commit_protosubroutine not found")
    ctx.fn("BaseNetQASMConnection.commit_protosubroutine")
    ctx.fn("BaseNetQASMConnection.flush")
    # executed against a recording builder (nqsa/pipeline.py): flush pops, compiles the popped proto-subroutine, instantiates it with the
    # application id, sends that subroutine with the caller's block / callback, and resets the builder afterwards
    from .. import pipeline
    try:
        pr = pipeline.run_pipeline(ctx)
        ctx.check("C05.P", "commit_protosubroutine:compile-instantiate-send-reset", pr["flush"] is None and pr["reset-after-send"] is None, f"{pr['flush'] or pr['reset-after-send']}", conn.loc(cp))
        ctx.check("C05.P", "flush:pop-then-commit", pr["flush"] is None and pr["flush-empty"] is None, f"{pr['flush'] or pr['flush-empty']}", conn.loc(fl))
        ctx.check("C05.P", "subrt_compile_subroutine:assemble-then-transpile", pr["convert"] is None, f"{pr['convert']}", repo.get_class(B, "Builder").loc(), trivial=True)
    except AnalysisError as ex_:
        ctx.error("C05.P", f"the flush pipeline cannot be evaluated: {ex_}")
    b = repo.get_class(B, "Builder")
    pp = b.methods.get("subrt_pop_pending_subroutine")
    order = [A.call_name(c) for st in pp.body for c in A.calls_in(st) if A.call_name(c) in ("_build_cmds_allocated_arrays", "_build_cmds_return_registers", "subrt_pop_all_pending_commands")]
    ctx.check("C05.P", "subrt_pop_pending_subroutine:declare-arrays-return-registers-then-pop", order == ["_build_cmds_allocated_arrays", "_build_cmds_return_registers", "subrt_pop_all_pending_commands"], f"pop order is {order}", b.loc(pp), trivial=True)
    aa = b.methods.get("_build_cmds_allocated_arrays")
    order = [A.call_name(c) for c in sorted(A.calls_in(aa), key=lambda c: c.lineno) if A.call_name(c) in ("subrt_pop_all_pending_commands", "_build_cmds_init_array", "subrt_add_pending_commands", "_build_cmds_return_array")]
    ctx.check("C05.P", "_build_cmds_allocated_arrays:declare-before-use-return-after", order == ["subrt_pop_all_pending_commands", "_build_cmds_init_array", "subrt_add_pending_commands", "_build_cmds_return_array"],
              f"array declarations / program / returns are emitted in the order {order}", b.loc(aa))


def check_host_view(ctx):
    """C05.H — "after each flush every Array handle read on the host equals the controller's value".  The builder returns an
    array only in the flush that declares it, so later flushes are visible to the host only because the shared memory holds the
    controller's own list object.  Every link of that chain must hand the object on unchanged (no copy, slice or rebuild):
    ret_arr -> _update_shared_memory -> SharedMemory.init_new_array -> Arrays._set_array, and the two _get_array accessors
    must return the stored object itself."""
    repo = ctx.repo
    ex = repo.get_class("netqasm.backend.executor", "Executor")
    sm = repo.get_class("netqasm.sdk.shared_memory", "SharedMemory")
    ar = repo.get_class("netqasm.sdk.shared_memory", "Arrays")

    def fn_of(cls, name):
        f = cls.methods.get(name)
        if f is None:
            raise AnalysisError(f"{cls.name}.{name} not found")
        ctx.fn(f"{cls.name}.{name}")
        return f

    def passed(fn, callee, pos, kw):
        """expressions handed to parameter (pos, kw) of every call of `callee` in fn, single-definition locals expanded"""
        defs = A.single_defs(fn)
        out = []
        for c in A.calls_in(fn):
            if A.call_name(c) == callee:
                a = A.get_arg(c, pos, kw)
                if a is not None and not (isinstance(a, ast.Constant) and a.value is None):
                    out.append((c, A.expand(a, defs)))
        return out

    n = 0
    # 1. ret_arr hands over what _get_array returned
    f = fn_of(ex, "_instr_ret_arr")
    for c, e in passed(f, "_update_shared_memory", 2, "value"):
        n += 1
        ok = isinstance(e, ast.Call) and A.is_self_attr(e.func, "_get_array")
        ctx.check("C05.H", "_instr_ret_arr:hands-the-controller's-own-array-to-shared-memory", ok,
                  f"ret_arr gives shared memory `{src(e)}`, not the list object the controller keeps writing to: the builder returns an array only in the flush "
                  "that declares it, so stores of later flushes never reach the host's Array / Future handles", ex.loc(c), sample={"value": src(e)})
    # 2. accessors return the stored object
    f = fn_of(ex, "_get_array")
    for r in A.returns(f):
        n += 1
        e = A.expand(r.value, A.single_defs(f))
        ok = isinstance(e, ast.Call) and isinstance(e.func, ast.Attribute) and e.func.attr == "_get_array" and isinstance(e.func.value, ast.Subscript) and A.is_self_attr(e.func.value.value, "_app_arrays")
        ctx.check("C05.H", "Executor._get_array:returns-the-stored-list", ok, f"Executor._get_array returns `{src(e)}`, not the application's stored array object", ex.loc(r))
    f = fn_of(ar, "_get_array")
    for r in A.returns(f):
        n += 1
        e = A.expand(r.value, A.single_defs(f))
        ok = isinstance(e, ast.Subscript) and A.is_self_attr(e.value, "_arrays") and not isinstance(e.slice, ast.Slice)
        ctx.check("C05.H", "Arrays._get_array:returns-the-stored-list", ok, f"Arrays._get_array returns `{src(e)}`, not the stored list itself", ar.loc(r))
    # 3. the hand-over chain keeps the object
    f = fn_of(ex, "_update_shared_memory")
    ps = A.param_names(f)
    for c, e in passed(f, "init_new_array", 2, "new_array"):
        n += 1
        ok = isinstance(e, ast.Name) and e.id in ps and ps.index(e.id) == 3
        ctx.check("C05.H", "_update_shared_memory:array-passed-on-unchanged", ok, f"_update_shared_memory passes `{src(e)}` as the new array instead of the value it was given", ex.loc(c))
    f = fn_of(sm, "init_new_array")
    ps = A.param_names(f)
    for c, e in passed(f, "_set_array", 1, "array"):
        n += 1
        ok = isinstance(e, ast.Name) and e.id in ps and ps.index(e.id) == 3
        ctx.check("C05.H", "SharedMemory.init_new_array:array-passed-on-unchanged", ok, f"SharedMemory.init_new_array stores `{src(e)}` instead of the list it was given", sm.loc(c))
    f = fn_of(ar, "_set_array")
    ps = A.param_names(f)
    for st in A.body_nodes(f):
        if isinstance(st, ast.Assign) and isinstance(st.targets[0], ast.Subscript) and A.is_self_attr(st.targets[0].value, "_arrays"):
            n += 1
            e = A.expand(st.value, A.single_defs(f))
            ok = isinstance(e, ast.Name) and e.id in ps and ps.index(e.id) == 2
            ctx.check("C05.H", "Arrays._set_array:stores-the-given-list", ok, f"Arrays._set_array stores `{src(e)}` instead of the list it was given", ar.loc(st))
    ctx.anchor("C05.H", "links of the controller-array -> shared-memory alias chain", n, 6)
    # ret_reg / ret_arr return the register / array the instruction names (dataflow signature shared with C04.S)
    try:
        c04.check_signatures(ctx, c04.handler_table(ctx), rule="C05.H", only={"ret_arr", "ret_reg"})
    except c04.DispatchUnread as ex_:
        ctx.note(f"C05.H: {ex_}; what ret_reg / ret_arr hand to the host is decided by C05.X")


def check_register_liveness(ctx):
    """loop registers and condition temporaries stay reserved until the commands that use them have been built (shared with C14.A4)"""
    from . import c14

    c14.check_use_after_release(ctx, "C05.R")


def check_programs(ctx, rule="C05.X"):
    """C05 as stated, on bounded host programs (nqsa/sdkprog.py): every program of the family - additions, the six conditions in both
    forms, counted loops in both forms, foreach / enumerate, loop_until, measurement into futures / arrays / registers, nested up to
    three deep - is written as SDK text, run by the interpreter against the repository's connection, builder and futures, every
    flushed subroutine is executed by the repository's controller, and after every flush the arrays, fresh futures, measurement
    handles, gates applied and measurements made are compared with executing the same program directly (Python integers and lists).
    Each program is run with one flush at the end, a flush after every top-level statement and a flush after every second one."""
    from .. import sdkprog as P, session as S
    progs = P.programs()
    jobs = [(p, fl, ("generic", 3)) for k_ in range(3) for p in progs for fl in P.flush_placements(p)[k_:k_ + 1]]
    try:
        bad, _n = P.run_all(ctx, jobs)
    except AnalysisError as ex_:
        ctx.error(rule, f"the host programs cannot be executed: {ex_}")
        return
    ctx.anchor(rule, "host programs executed against the controller and compared with direct execution", len(jobs), 60)
    b = ctx.repo.get_class("netqasm.sdk.builder", "Builder")
    for key in ("the-host-program-is-accepted", "every-subroutine-executes-without-a-fault", "handles-read-on-the-host", "arrays-as-direct-execution",
                "futures-as-direct-execution", "measurement-results-as-direct-execution", "gates-as-direct-execution"):
        ctx.check(rule, key, key not in bad, bad.get(key, ""), b.loc(b.node), sample={"programs": len(jobs)})


def run(ctx):
    check_programs(ctx)
    check_flip(ctx)
    check_api_names(ctx)
    check_condition_emit(ctx)
    check_loops(ctx)
    check_at_most(ctx)
    check_future_ops(ctx)
    check_register_liveness(ctx)
    check_flush(ctx)
    check_host_view(ctx)
    n = len(E.icmds_in(ctx.repo.module(B).tree))
    ctx.anchor("C05.G", "ICmd constructions in sdk/builder.py", n, 55)
    # 0 is an ordinary id / value / address: nothing int-valued may be tested by truthiness (nqsa/truth.py)
    from .. import truth
    truth.check(ctx, "C05.Z", ['netqasm.sdk.builder', 'netqasm.sdk.futures', 'netqasm.sdk.connection'])
    # a value remembered for later calls is keyed by every argument it depends on (nqsa/memo.py)
    from .. import memo
    memo.check(ctx, "C05.K", ['netqasm.sdk.builder', 'netqasm.sdk.futures', 'netqasm.sdk.connection'])
    # no type test that an earlier type test has already decided (a subclass tested after its base class: nqsa/shadow.py)
    from .. import shadow
    shadow.check(ctx, "C05.H", ['netqasm.sdk.builder', 'netqasm.sdk.futures', 'netqasm.sdk.connection'])


BF = "netqasm/sdk/builder.py"
FU = "netqasm/sdk/futures.py"
SEEDS = [
    dict(id="c05-add-writes-the-sum-to-the-other-future", file="netqasm/sdk/futures.py", expect="C05.X", construct="",
         old="        store_commands = self._get_store_commands(tmp_register)\n", new="        store_commands = self._get_store_commands(tmp_register) + (other._get_store_commands(tmp_register) if isinstance(other, Future) else [])\n"),
    dict(id="c05-cleanup-runs-before-the-exit-test", file="netqasm/sdk/builder.py", expect="C05.X", construct="",
         old="            + loop_until_break\n            + cleanup_commands\n", new="            + cleanup_commands\n            + loop_until_break\n"),
    dict(id="c05-count-down-loop-dropped", file="netqasm/sdk/builder.py", expect="C05.X", construct="",
         old="        loop_register: operand.Register,\n    ) -> None:\n        if len(body_commands) == 0:\n            self.subrt_add_pending_commands(commands=pre_commands)\n            return\n\n        entry_label = self._label_mgr.new_label(start_with=\"LOOP\")",
         new="        loop_register: operand.Register,\n    ) -> None:\n        if len(body_commands) == 0 or (isinstance(start, int) and isinstance(stop, int) and stop < start):\n            self.subrt_add_pending_commands(commands=pre_commands)\n            return\n\n        entry_label = self._label_mgr.new_label(start_with=\"LOOP\")"),
    dict(id="c05-regfuture-addm-without-modulus", file="netqasm/sdk/futures.py", expect="C05.X", construct="",
         old="            add_instr = GenericInstr.ADDM\n            add_operands.append(mod)\n\n        commands = (\n            load_commands\n            + [\n                ICmd(\n                    instruction=add_instr,\n                    operands=add_operands,\n                )\n            ]\n            + store_commands\n        )\n\n        if other_tmp_register is not None:",
         new="            add_instr = GenericInstr.ADDM\n            add_operands.append(mod + 1)\n\n        commands = (\n            load_commands\n            + [\n                ICmd(\n                    instruction=add_instr,\n                    operands=add_operands,\n                )\n            ]\n            + store_commands\n        )\n\n        if other_tmp_register is not None:"),
    dict(id="c05-ret-arr-copy", file="netqasm/backend/executor.py", expect="C05.H", construct="_instr_ret_arr", old="        array = self._get_array(app_id=app_id, address=address)\n\n        # Not all values need to be defined.", new="        array = list(self._get_array(app_id=app_id, address=address))\n\n        # Not all values need to be defined."),
    dict(id="c05-set-array-copies", file="netqasm/sdk/shared_memory.py", expect="C05.H", construct="Arrays._set_array", old="        self._arrays[address] = array\n", new="        self._arrays[address] = list(array)\n"),
    dict(id="c05-shared-init-copies", file="netqasm/sdk/shared_memory.py", expect="C05.H", construct="SharedMemory.init_new_array", old="            self._arrays._set_array(address, new_array)", new="            self._arrays._set_array(address, new_array[:])"),
    dict(id="c05-get-array-copy", file="netqasm/sdk/shared_memory.py", expect="C05.H", construct="Arrays._get_array", old="        return self._arrays[address]\n\n    def _set_array", new="        return list(self._arrays[address])\n\n    def _set_array"),
    dict(id="c05-empty-range-ignores-step", file="netqasm/sdk/builder.py", expect="C05.L", construct="loop-dropped-only-when-it-cannot-run",
         old="        loop_register: operand.Register,\n    ) -> None:\n        if len(body_commands) == 0:\n            self.subrt_add_pending_commands(commands=pre_commands)\n            return\n\n        entry_label = self._label_mgr.new_label(start_with=\"LOOP\")",
         new="        loop_register: operand.Register,\n    ) -> None:\n        empty_range = isinstance(start, int) and isinstance(stop, int) and stop <= start\n        if len(body_commands) == 0 or empty_range:\n            self.subrt_add_pending_commands(commands=pre_commands)\n            return\n\n        entry_label = self._label_mgr.new_label(start_with=\"LOOP\")"),

    dict(id="c05-flip-table", file="netqasm/lang/ir.py", expect="C05.F", construct="flip", old="            GenericInstr.BLT: GenericInstr.BGE,\n            GenericInstr.BGE: GenericInstr.BLT,", new="            GenericInstr.BLT: GenericInstr.BNE,\n            GenericInstr.BGE: GenericInstr.BLT,"),
    dict(id="c05-no-flip", file=BF, expect="C05.G", construct="flipped-branch", old="                branch_instruction=negated_predicate,\n                op0=op0,\n                op1=op1,", new="                branch_instruction=condition,\n                op0=op0,\n                op1=op1,"),
    dict(id="c05-ops-swapped", file=BF, expect="C05.G", construct="", old="        for x in [op0, op1]:\n            cmds, cond_operand = self._get_condition_operand(x)", new="        for x in [op1, op0]:\n            cmds, cond_operand = self._get_condition_operand(x)"),
    dict(id="c05-api-const", file=BF, expect="C05.N", construct="sdk_if_lt", old="        self._build_cmds_if_stmt(GenericInstr.BLT, op0, op1, body)", new="        self._build_cmds_if_stmt(GenericInstr.BGE, op0, op1, body)"),
    dict(id="c05-future-const", file=FU, expect="C05.N", construct="BaseFuture.if_ge", old="            condition=GenericInstr.BGE, op0=self, op1=other", new="            condition=GenericInstr.BLT, op0=self, op1=other"),
    dict(id="c05-orig-at-most", file=BF, expect="C05.U", construct="ValueAtMost", old="operands=[cond_operand, condition.value + 1, Label(exit_label)],", new="operands=[cond_operand, condition.value, Label(exit_label)],"),
    dict(id="c05-at-most-bge", file=BF, expect="C05.U", construct="ValueAtMost", old="                instruction=GenericInstr.BLT,\n                operands=[cond_operand, condition.value + 1, Label(exit_label)],", new="                instruction=GenericInstr.BGE,\n                operands=[cond_operand, condition.value + 1, Label(exit_label)],"),
    dict(id="c05-loop-exit-label", file=BF, expect="C05.L", construct="_loop_get_entry_commands", old="                operands=[loop_register, stop, Label(exit_label)],\n            ),\n        ]\n\n    def _loop_get_exit_commands(", new="                operands=[loop_register, stop, Label(entry_label)],\n            ),\n        ]\n\n    def _loop_get_exit_commands("),
    dict(id="c05-loop-step", file=BF, expect="C05.L", construct="_loop_get_exit_commands", old="                operands=[loop_register, loop_register, step],", new="                operands=[loop_register, loop_register, 1],"),
    dict(id="c05-loop-start", file=BF, expect="C05.L", construct="_loop_get_entry_commands", old="            ICmd(instruction=GenericInstr.SET, operands=[loop_register, start]),", new="            ICmd(instruction=GenericInstr.SET, operands=[loop_register, 0]),"),
    dict(id="c05-concat", file=BF, expect="C05.X", construct="", old="        commands = pre_commands + loop_start + body_commands + loop_end\n", new="        commands = loop_start + pre_commands + body_commands + loop_end\n"),
    dict(id="c05-until-cleanup-order", file=BF, expect="C05.X", construct="", old="            + loop_until_break\n            + cleanup_commands\n", new="            + cleanup_commands\n            + loop_until_break\n"),
    dict(id="c05-add-operands", file=FU, expect="C05.A", construct="Future.add", old="        add_operands: List[ir.T_ProtoOperand] = [\n            tmp_register,\n            tmp_register,\n            other_operand,\n        ]", new="        add_operands: List[ir.T_ProtoOperand] = [\n            tmp_register,\n            other_operand,\n            other_operand,\n        ]"),
    dict(id="c05-addm-no-mod", file=FU, expect="C05.A", construct="RegFuture.add", old="            add_instr = GenericInstr.ADDM\n            add_operands.append(mod)\n\n        commands = (\n            load_commands\n            + [\n                ICmd(\n                    instruction=add_instr,\n                    operands=add_operands,\n                )\n            ]\n            + store_commands\n        )\n\n        if other_tmp_register is not None:\n            self.builder._mem_mgr.remove_active_register(other_tmp_register)\n\n        self.builder.subrt_add_pending_commands(commands)\n\n\nclass Array",
         new="            add_instr = GenericInstr.ADD\n            add_operands.append(mod)\n\n        commands = (\n            load_commands\n            + [\n                ICmd(\n                    instruction=add_instr,\n                    operands=add_operands,\n                )\n            ]\n            + store_commands\n        )\n\n        if other_tmp_register is not None:\n            self.builder._mem_mgr.remove_active_register(other_tmp_register)\n\n        self.builder.subrt_add_pending_commands(commands)\n\n\nclass Array"),
    dict(id="c05-release-before-build", file=BF, expect="C05.R", construct="_loop_until_context_exit", old="        self._build_cmds_loop_until(\n            pre_commands=pre_commands,\n            body_commands=body_commands,\n            context=context,\n            loop_register=loop_register,\n        )\n        self._mem_mgr.remove_active_register(loop_register)\n",
         new="        self._mem_mgr.remove_active_register(loop_register)\n        self._build_cmds_loop_until(\n            pre_commands=pre_commands,\n            body_commands=body_commands,\n            context=context,\n            loop_register=loop_register,\n        )\n"),
    dict(id="c05-reset-before-send", file="netqasm/sdk/connection.py", expect="C05.P", construct="commit_protosubroutine", old="        subroutine.instantiate(self.app_id)\n\n        # Commit the subroutine to the quantum device\n        self.commit_subroutine(subroutine, block, callback)\n\n        self._builder._reset()", new="        self._builder._reset()\n        subroutine.instantiate(self.app_id)\n\n        # Commit the subroutine to the quantum device\n        self.commit_subroutine(subroutine, block, callback)"),
    dict(id="c05-meas-store-reg", file=BF, expect="C05.M", construct="_build_cmds_measure", old="                outcome_commands = future._get_store_commands(outcome_reg)", new="                outcome_commands = future._get_store_commands(qubit_reg)"),
]
BENIGN = [
    dict(id="c05-benign-zero-iteration-loop-dropped", file="netqasm/sdk/builder.py",
         old="        loop_register: operand.Register,\n    ) -> None:\n        if len(body_commands) == 0:\n            self.subrt_add_pending_commands(commands=pre_commands)\n            return\n\n        entry_label = self._label_mgr.new_label(start_with=\"LOOP\")",
         new="        loop_register: operand.Register,\n    ) -> None:\n        if len(body_commands) == 0 or (isinstance(start, int) and isinstance(stop, int) and start == stop):\n            self.subrt_add_pending_commands(commands=pre_commands)\n            return\n\n        entry_label = self._label_mgr.new_label(start_with=\"LOOP\")"),

    dict(id="c05-benign-rename-locals", file=BF, count="all", edits=[(BF, "if_start", "start_cmds"), (BF, "loop_start", "entry_cmds"), (BF, "cond_operand", "cond_op")]),
]
