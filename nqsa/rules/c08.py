"""C08 — NV transpilation preserves program behaviour, not only gates (claimed in part).

C08.J  the class set retargeted by the NV transpiler = scanned by the REIDS
       transpiler = dispatched to the executor's branch handler = every core
       class with a `line` target
C08.I  index_changes[i] is recorded on every iteration before the expansion of
       instruction i is appended
C08.E  a target equal to the old length maps to the new length on the path that
       sets the no-op flag; the no-op is appended iff the flag is set; every
       other target goes through index_changes
C08.W  writes_to() of every instruction class = the register its executor handler writes
C08.V  a non-`set` write to a Q register invalidates the tracked value (or raises)
"""
from __future__ import annotations

import ast
from typing import Dict, List, Optional, Set

from .. import astutil as A
from .. import guards as G
from .. import instrs as I
from .. import roles
from ..model import AnalysisError, dotted, src
from . import c04

TECHNIQUE = "sibling-agreement of class sets, ordering rule in the rewrite loop, writes_to vs executor write signatures, invalidation rule for tracked register values; abstract interpretation of small functions over an enumerated finite domain by the checker's own AST interpreter (static analysis)"
ENGINES = ["model", "flow", "instrs", "circuit"]
EXPLANATION = (
    "Over sdk/transpile.py, lang/instr/core.py and backend/executor.py: the isinstance set used to retarget jumps in the NV "
    "transpiler, the set scanned by the REIDS transpiler, the set dispatched to Executor._handle_branch_instr and the set of core "
    "classes owning a `line` target must coincide; in the rewrite loop the old->new index is recorded unconditionally before the "
    "expansion is appended; the past-the-end target is mapped to len(new_commands) on the same path that sets the no-op flag and the "
    "no-op is appended under exactly that flag; writes_to() of each class equals the register operand written by its executor "
    "handler (C04 signatures); every write to a Q register by an instruction other than `set` must drop the tracked value; the scratch register for carbon-carbon gates is chosen outside a set that receives every Register operand of every instruction and never shrinks."
    ' C08.I: no early exit in the rewrite loop and, after it, the new command list may only grow at its end. C08.Z: no truthiness test on an int-typed value.'
    ' C08.E additionally executes NV transpile() abstractly on two 7-instruction programs (expansions of 2 and 3 marker instructions, with and without a jump past the end): jump targets, order of kept / expanded commands, the trailing no-op; the all-paths rules on the rewrite loop stay in force.'
    ' C08.V / C08.U execute transpile() with the two-qubit handler modelled and the real get_unused_register on programs that set, overwrite, load and compute into Q registers (4, 15 and 16 registers named): tracked values at each gate, scratch register named by no instruction so far, exhaustion. C08.D: the decomposition rules of C07 under this id.'
)
LEVEL_TEXT = (
    "Static analysis, partial: the structural conditions of jump retargeting and of the Q-register value tracking are decided for all "
    "classes. Not decided: end-to-end state equality, flow-insensitivity of the tracking across branches, scratch-register liveness."
)
LEVEL_NOTE = "flow-insensitive register tracking across branches is a known limitation of the transpiler that this check does not decide"
ASSUMPTIONS = [LEVEL_NOTE]
TR = "netqasm.sdk.transpile"


def isinstance_classes(repo, m, test) -> Optional[Set[str]]:
    parts = test.values if isinstance(test, ast.BoolOp) and isinstance(test.op, ast.Or) else [test]
    out = set()
    for p in parts:
        if isinstance(p, ast.Call) and dotted(p.func) == "isinstance" and len(p.args) == 2:
            t = p.args[1]
            for e in (t.elts if isinstance(t, ast.Tuple) else [t]):
                c = repo.resolve_class(m, e)
                if c is None:
                    return None
                out.add(c.name)
        else:
            return None
    return out


def run(ctx):
    repo, ev = ctx.repo, ctx.ev
    m = repo.module(TR)
    nvt = repo.get_class(TR, "NVSubroutineTranspiler")
    reids = repo.get_class(TR, "REIDSSubroutineTranspiler")
    tp = nvt.methods.get("transpile")
    rt = reids.methods.get("transpile")
    if tp is None or rt is None:
        raise AnalysisError("transpile methods not found")
    ctx.fn("NVSubroutineTranspiler.transpile")
    ctx.fn("REIDSSubroutineTranspiler.transpile")
    # the rules below name the locals of the two transpile() methods by role; which local plays which role is read from the statements
    roles.normalise(ctx, tp, [
        "for ($i,$instr) in enumerate(self._subroutine.instructions)",
        "self._subroutine.instructions=$new_commands",
        "$index_changes[$i]=len($new_commands)",
        "$affected_regs=$instr.writes_to()",
        "for $reg in $affected_regs",
        "for $op in $instr.operands",
        "$original_line=$_.line.value",
        "if $add_no_op_at_end",
    ], "NVSubroutineTranspiler.transpile")
    roles.normalise(ctx, rt, [
        "for $instr in self._subroutine.instructions",
        "$original_line=$instr.line.value",
        "if $add_no_op_at_end",
    ], "REIDSSubroutineTranspiler.transpile")
    # ---- C08.J
    def jump_if(fn):
        """the statements that run for jump instructions only, and the classes tested: whatever the test is written as
        (an `if isinstance(...) or ...:` block, or a guard `if not (...): continue` followed by the statements)"""
        def blocks(stmts):
            yield stmts
            for st in stmts:
                for field in ("body", "orelse", "finalbody"):
                    sub = getattr(st, field, None)
                    if isinstance(sub, list) and sub and isinstance(sub[0], ast.stmt):
                        yield from blocks(sub)

        for block in blocks(fn.body):
            region, classes = [], None
            for st in block:
                cs = None
                for t, pol in G.path_conditions(fn, st):
                    c_ = isinstance_classes(repo, m, t) if pol else None
                    if c_ and any("Branch" in x or "Jmp" in x for x in c_):
                        cs = c_
                if cs:
                    region.append(st)
                    classes = cs
            if region and any(isinstance(x, ast.Attribute) and x.attr == "line" for st in region for x in ast.walk(st)):
                node = ast.If(test=ast.Constant(value=True), body=region, orelse=[])
                ast.copy_location(node, region[0])
                return node, classes
        return None, None
    nv_if, nv_set = jump_if(tp)
    re_if, re_set = jump_if(rt)
    if nv_if is None or re_if is None:
        raise AnalysisError("jump-retargeting isinstance test not found in a transpiler")
    table = c04.handler_table(ctx)
    arms = ctx._c04_arms
    ex_set = set()
    for classes, h in arms:
        if h == "_handle_branch_instr":
            ex_set = {c.name for c in classes}
    core = repo.module(I.CORE_MOD)
    with_line = set()
    for c in I.core_instructions(repo):
        r = repo.lookup(c, "line")
        if r is not None:
            with_line.add(r[0].name)

    def closure(names):
        out = set()
        for c in I.core_instructions(repo):
            if any(k.name in names for k in repo.mro(c)):
                out.add(c.name)
        return out
    ref = closure(with_line)
    for label, s in (("NV transpiler retargets", nv_set), ("REIDS transpiler scans", re_set), ("executor branch handler", ex_set)):
        got = closure(s)
        ctx.check("C08.J", f"jump-classes:{label}", got == ref,
                  f"{label} {sorted(got)} but the core classes with a jump target are {sorted(ref)}: "
                  f"{'missing ' + str(sorted(ref - got)) if ref - got else ''}{' extra ' + str(sorted(got - ref)) if got - ref else ''} — a jump of a missing class keeps its old (now wrong) target", repo.loc(m, nv_if),
                  sample={"set": label, "classes": sorted(got)})
    ctx.anchor("C08.J", "core instruction classes with a jump target", len(ref), 7)
    # ---- C08.I
    loops = [st for st in tp.body if isinstance(st, ast.For)]
    if len(loops) < 2:
        raise AnalysisError("NV transpile: rewrite loop and retarget loop not found")
    rw = loops[0]
    it = rw.iter
    ok_iter = isinstance(it, ast.Call) and dotted(it.func) == "enumerate" and len(it.args) == 1 and A.norm(it.args[0]) == "self._subroutine.instructions" and isinstance(rw.target, ast.Tuple)
    ctx.check("C08.I", "rewrite-loop:enumerates-all-instructions", ok_iter, f"the rewrite loop iterates `{src(it)}`; expected enumerate(self._subroutine.instructions)", repo.loc(m, rw))
    ivar = rw.target.elts[0].id if ok_iter else "i"
    rec_idx = None
    first_append = None
    early = None
    for k, st in enumerate(rw.body):
        if isinstance(st, ast.Assign) and isinstance(st.targets[0], ast.Subscript) and A.norm(st.targets[0]) == f"index_changes[{ivar}]":
            if rec_idx is None:
                rec_idx = k
                rec_val = A.norm(st.value)
        appends = [n for n in ast.walk(st) if isinstance(n, ast.AugAssign) and A.norm(n.target) == "new_commands"] + \
            [n for n in ast.walk(st) if isinstance(n, ast.Call) and A.norm(n.func) in ("new_commands.append", "new_commands.extend")]
        if appends and first_append is None:
            first_append = k
        # continue/break/return belonging to the outer loop
        for n in A.walk_no_nested(st):
            if isinstance(n, (ast.Continue, ast.Break, ast.Return)):
                # inside an inner loop?
                inner = any(isinstance(p, (ast.For, ast.While)) and any(x is n for x in ast.walk(p)) for p in ast.walk(st) if p is not st or isinstance(st, (ast.For, ast.While)))
                if not inner and early is None:
                    early = k
    ok = rec_idx is not None and first_append is not None and rec_idx < first_append and early is None and rec_val == "len(new_commands)"
    ctx.check("C08.I", "rewrite-loop:index-recorded-before-expansion", ok,
              f"index_changes[{ivar}] is recorded at statement {rec_idx} (value `{rec_val if rec_idx is not None else None}`), the expansion is appended at statement {first_append}, "
              f"an early exit (continue/break/return) of the iteration at statement {early}; the map must be recorded unconditionally as len(new_commands) before the expansion is appended, "
              f"and no iteration may leave the loop body early (the instruction would be neither kept nor expanded)", repo.loc(m, rw),
              sample={"record_at": rec_idx, "append_at": first_append, "early_exit": early})
    # every instruction is appended exactly once: if/elif/else chain where every arm appends
    def grows(n):
        # new_commands += X   |   new_commands.append(x)   |   new_commands.extend(X)
        return (isinstance(n, ast.AugAssign) and A.norm(n.target) == "new_commands") or \
            (isinstance(n, ast.Expr) and isinstance(n.value, ast.Call) and A.norm(n.value.func) in ("new_commands.append", "new_commands.extend"))

    def keeps(n, var):
        return (isinstance(n, ast.AugAssign) and A.norm(n.value) == f"[{var}]") or \
            (isinstance(n, ast.Expr) and isinstance(n.value, ast.Call) and A.norm(n.value.func) == "new_commands.append" and len(n.value.args) == 1 and A.norm(n.value.args[0]) == var)

    chain = [st for st in rw.body if isinstance(st, ast.If) and any(grows(n) for n in ast.walk(st))]
    ok = False
    if len(chain) == 1:
        cur = chain[0]
        ok = True
        while True:
            ok = ok and sum(1 for n in cur.body if grows(n)) == 1
            if len(cur.orelse) == 1 and isinstance(cur.orelse[0], ast.If):
                cur = cur.orelse[0]
                continue
            ok = ok and sum(1 for n in cur.orelse if grows(n)) == 1
            # the else arm keeps the instruction itself
            ok = ok and any(keeps(n, rw.target.elts[1].id) for n in cur.orelse)
            break
    ctx.check("C08.I", "rewrite-loop:every-instruction-kept-or-expanded", ok, "not every arm of the rewrite appends exactly one expansion (non-gate instructions must be kept as they are, in order)", repo.loc(m, rw))
    # the index map describes new_commands as the rewrite loop built it: afterwards the list may only grow at its end (the no-op)
    edits = []
    order_ = {id(x): k for k, top in enumerate(tp.body) for x in ast.walk(top)}
    rw_k = tp.body.index(rw)
    later_loops = [k for k, top in enumerate(tp.body) if isinstance(top, ast.For) and k > rw_k]
    rl_k = later_loops[0] if later_loops else len(tp.body)
    for st in A.body_nodes(tp):
        inside_rw = any(st is x for x in ast.walk(rw))
        if isinstance(st, ast.Assign) and any(A.norm(t_) == "new_commands" for t_ in st.targets):
            if not (isinstance(st.value, ast.List) and not st.value.elts and order_.get(id(st), 1 << 30) < rw_k):
                edits.append(src(st)[:80])
        elif isinstance(st, ast.AugAssign) and A.norm(st.target) == "new_commands":
            if not (isinstance(st.op, ast.Add) and (inside_rw or order_.get(id(st), -1) > rl_k)):
                edits.append(src(st)[:80])
        elif isinstance(st, (ast.Assign, ast.Delete)) and any(isinstance(t_, ast.Subscript) and A.norm(t_.value) == "new_commands" for t_ in (st.targets)):
            edits.append(src(st)[:80])
        elif isinstance(st, ast.Call) and isinstance(st.func, ast.Attribute) and A.norm(st.func.value) == "new_commands" and st.func.attr in ("remove", "pop", "insert", "sort", "reverse", "clear", "extend", "append"):
            if not (st.func.attr in ("append", "extend") and (inside_rw or order_.get(id(st), -1) > rl_k)):
                edits.append(src(st)[:80])
    ctx.check("C08.I", "rewrite-result:only-appended-to", not edits,
              f"the rewritten command list is changed other than by appending expansions in the rewrite loop ({'; '.join(edits)}): the old->new index map was recorded against the list "
              "as the loop built it, so removing or inserting commands afterwards shifts every later jump target", repo.loc(m, tp), sample={"other_edits": edits})
    # ---- C08.I / C08.E  (abstract execution, nqsa/circuit.py)
    # transpile() is executed on small programs with the two gate handlers modelled (a single-qubit gate becomes 2 marker
    # instructions, a two-qubit gate 3); whatever the method is written as, the stored result must be the in-order concatenation of
    # kept instructions and expansions, every jump must point at the first command of its old target's expansion, a jump to the
    # position just past the end must point just past the new end, and a trailing no-op is appended exactly when there is such a jump.
    from .. import circuit as C
    from ..model import EnumMember
    rn = repo.get_class("netqasm.lang.encoding", "RegisterName")
    rmem = ev.enum_members(rn)
    R_ = repo.get_class("netqasm.lang.operand", "Register")
    corem = repo.module(I.CORE_MOD)
    vanm = repo.module("netqasm.lang.instr.vanilla")

    def reg(name, index):
        return C.Obj(R_, {"name": EnumMember(rn.qualname, name, rmem[name]), "index": index})

    def program(with_end_jump):
        q0, q1, r1, r2 = reg("Q", 0), reg("Q", 1), reg("R", 1), reg("R", 2)
        prog = [
            C.Obj(corem.classes["SetInstruction"], {"reg": q0, "imm": C.Imm(5)}),
            C.Obj(vanm.classes["GateXInstruction"], {"reg": q0}),
            C.Obj(corem.classes["BezInstruction"], {"reg": r1, "imm": C.Imm(5)}),
            C.Obj(vanm.classes["CnotInstruction"], {"reg0": q0, "reg1": q1}),
            C.Obj(corem.classes["JmpInstruction"], {"imm": C.Imm(7 if with_end_jump else 1)}),
            C.Obj(vanm.classes["GateHInstruction"], {"reg": q0}),
            C.Obj(corem.classes["BeqInstruction"], {"reg0": r1, "reg1": r2, "imm": C.Imm(0)}),
        ]
        return prog

    res = {"order": True, "targets": True, "end": True, "noop": True, "stored": True}
    why = {}
    try:
        for with_end_jump in (True, False):
            prog = program(with_end_jump)
            sc = C.Scenario()
            expansions = {}

            def single(instr=None, *a_, expansions=expansions, **k_):
                expansions[id(instr)] = [C.Obj(None, {"expansion_of": instr, "k": j}) for j in range(2)]
                return list(expansions[id(instr)])

            def two(instr=None, *a_, expansions=expansions, **k_):
                expansions[id(instr)] = [C.Obj(None, {"expansion_of": instr, "k": j}) for j in range(3)]
                return list(expansions[id(instr)])

            sc.overrides["_handle_single_qubit_gate"] = single
            sc.overrides["_handle_two_qubit_gate"] = two
            sub = C.Obj(None, {"instructions": list(prog)})
            o = C.object_from_init(repo, nvt, {"_subroutine": sub, "_used_registers": set(), "_register_values": {}, "_debug": False}, kind="self")
            C.Interp(repo, ev, sc, nvt).call_function(m, tp, [], {}, self_obj=o)
            out = sub.fields.get("instructions")
            want = []
            first = {}
            for k, ins_ in enumerate(prog):
                first[k] = len(want)
                want.extend(expansions.get(id(ins_), [ins_]))
            n_new = len(want)
            if not isinstance(out, list):
                res["stored"] = False
                why["stored"] = f"the result stored is {out!r}"
                continue
            body = out[:n_new]
            if len(body) != n_new or any(a_ is not b_ for a_, b_ in zip(body, want)):
                res["order"] = False
                why["order"] = f"{len(out)} commands stored; expected the {n_new} kept / expanded commands in order"
                continue
            tail = out[n_new:]
            jumps = {2: 5, 4: (7 if with_end_jump else 1), 6: 0}
            for k, old_t in jumps.items():
                line = prog[k].fields.get("imm")
                got_t = line.value if isinstance(line, C.Imm) else line
                if old_t == len(prog):
                    if got_t != n_new:
                        res["end"] = False
                        why["end"] = f"a jump to the position just past the end ({old_t}) now points at {got_t}; the new end is {n_new}"
                elif got_t != first[old_t]:
                    res["targets"] = False
                    why["targets"] = f"the jump at {k} to old line {old_t} now points at {got_t}; the expansion of line {old_t} starts at {first[old_t]}"
            is_noop = len(tail) == 1 and isinstance(tail[0], C.Obj) and tail[0].cls is not None and tail[0].cls.name == "SetInstruction"
            if (with_end_jump and not is_noop) or (not with_end_jump and tail):
                res["noop"] = False
                why["noop"] = f"with{'' if with_end_jump else 'out'} a jump past the end the commands after the rewritten program are {tail!r}"
    except C.EvalRaise as ex_:
        for k_ in res:
            res[k_] = False
            why[k_] = f"raises {ex_}"
    except AnalysisError as ex_:
        ctx.error("C08.I", f"NV transpile() cannot be evaluated: {ex_}")
        res = None
    if res is not None:
        ctx.check("C08.I", "transpile:sample-programs:jumps-follow-their-targets", res["targets"] and res["order"],
                  f"after the rewrite a jump does not point at the first command its old target was expanded into ({why.get('targets') or why.get('order')})", repo.loc(m, tp))
        ctx.check("C08.I", "transpile:sample-programs:kept-and-expanded-in-order", res["order"], f"the rewritten program is not the in-order concatenation of kept instructions and expansions: {why.get('order')}", repo.loc(m, tp))
        ctx.check("C08.E", "retarget:past-the-end-and-ordinary-targets", res["end"] and res["targets"], f"jump retargeting: {why.get('end') or why.get('targets')}", repo.loc(m, nv_if))
        ctx.check("C08.E", "retarget:no-op-appended-iff-flag", res["noop"], f"the trailing no-op is not appended exactly when a jump targeted the position just past the end: {why.get('noop')}", repo.loc(m, tp))
        ctx.check("C08.E", "transpile:result-stored", res["stored"], f"the rewritten command list is not stored back: {why.get('stored')}", repo.loc(m, tp), trivial=True)
    # REIDS: same past-the-end handling
    ok_r = False
    rdefs = A.single_defs(rt)
    for n in ast.walk(rt):
        if isinstance(n, ast.Assign) and isinstance(n.value, ast.Constant) and n.value.value is True and isinstance(n.targets[0], ast.Name):
            facts = [(A.norm(A.expand(t, rdefs)), pol) for t, pol in G.path_conditions(rt, n)]
            if any(pol and ("line.value==len(self._subroutine.instructions)" in t_ or "len(self._subroutine.instructions)==" in t_ and "line.value" in t_) for t_, pol in facts):
                ok_r = True
    ctx.check("C08.E", "REIDS:past-the-end-target-gets-a-no-op", ok_r, "the REIDS transpiler does not flag a jump to the position just past the end", repo.loc(m, re_if))

    # ---- C08.W
    sigs = c04.all_signatures(ctx, table)
    n_w = 0
    for c in I.core_instructions(repo):
        mn = I.field_default(repo, ev, c, "mnemonic")
        r = repo.lookup(c, "writes_to")
        wt = None
        if r is not None:
            rets = A.returns(r[1])
            if len(rets) == 1 and isinstance(rets[0].value, ast.List):
                wt = []
                for e in rets[0].value.elts:
                    if A.is_self_attr(e):
                        wt.append(repo.property_alias(c, e.attr) or e.attr)
                    else:
                        wt = None
                        break
        if wt is None:
            ctx.error("C08.W", f"{c.name}.writes_to is not a list of self attributes")
            continue
        sig = sigs.get(mn)
        if sig is None:
            ctx.note(f"{mn}: no classical handler signature (quantum hook or unsupported in the base executor); writes_to={wt}")
            continue
        n_w += 1
        written = []
        for s in sig:
            if s.startswith("_set_register("):
                for part in s[len("_set_register("):-1].split(", "):
                    if part.startswith("register=instr."):
                        written.append(part[len("register=instr."):])
        ctx.check("C08.W", f"{mn}:writes_to=executor-writes", sorted(wt) == sorted(written),
                  f"{c.name}.writes_to() names {wt} but the executor's handler for `{mn}` writes register operand(s) {written}: the transpiler would "
                  f"{'miss' if set(written) - set(wt) else 'wrongly assume'} a register write", c.loc(), sample={"mnemonic": mn, "writes_to": wt, "executor_writes": written})
    ctx.anchor("C08.W", "instruction classes with a classical handler signature", n_w, 15)

    # ---- C08.V / C08.U  (abstract execution)
    check_tracking(ctx, nvt, tp, reg, corem, vanm)
    # the tracked values are what the two-qubit dispatch reads
    h2 = nvt.methods.get("_handle_two_qubit_gate")
    ok = h2 is not None and sum(1 for c in A.calls_in(h2) if A.call_name(c) == "get_reg_value") >= 2
    grv = nvt.methods.get("get_reg_value")
    ok = ok and grv is not None and any(A.norm(r.value) == f"self._register_values[{A.param_names(grv)[1]}]" for r in A.returns(grv))
    ctx.check("C08.V", "two-qubit-dispatch:reads-tracked-values", ok, "the two-qubit dispatch does not read the tracked register values (anchor changed)", repo.loc(m, h2) if h2 else "", trivial=True)
    # "the same quantum state": every expansion the rewrite inserts implements the gate it replaces (the rules of C07, under this id)
    from . import c07
    c07.check_decompositions(ctx, "C08.D")
    # 0 is an ordinary id / value / address: nothing int-valued may be tested by truthiness (nqsa/truth.py)
    from .. import truth
    truth.check(ctx, "C08.Z", ['netqasm.sdk.transpile'])
    # a value remembered for later calls is keyed by every argument it depends on (nqsa/memo.py)
    from .. import memo
    memo.check(ctx, "C08.K", ['netqasm.sdk.transpile'])
    # no type test that an earlier type test has already decided (a subclass tested after its base class: nqsa/shadow.py)
    from .. import shadow
    shadow.check(ctx, "C08.H", ['netqasm.sdk.transpile'])


def check_tracking(ctx, nvt, tp, reg, corem, vanm):
    """C08.V and C08.U: what the transpiler knows about registers while it rewrites, decided by executing transpile().

    transpile() runs in the checker's interpreter on a program that sets, overwrites, loads into and computes into Q registers
    between two-qubit gates.  The two-qubit handler is modelled: at each gate it records the tracked register values and asks the
    real get_unused_register for a scratch register.  Required at every gate:
      V  the tracked value of a Q register is the immediate of the last `set` of it, and there is none once any other instruction
         has written it since (or it was never set); registers of other banks are not tracked;
      U  the scratch register is a Q register that no instruction so far (the gate included) names as an operand - whatever the
         instruction is and whether or not its value is tracked; with all sixteen named, asking for one fails."""
    from .. import circuit as C
    repo = ctx.repo
    m = nvt.module
    gu = nvt.methods.get("get_unused_register")
    if gu is None:
        raise AnalysisError("NVSubroutineTranspiler.get_unused_register not found")
    ctx.fn("NVSubroutineTranspiler.get_unused_register")
    K = corem.classes
    ADDR, ENTRY = repo.get_class("netqasm.lang.operand", "Address"), repo.get_class("netqasm.lang.operand", "ArrayEntry")

    def setq(r, v):
        return C.Obj(K["SetInstruction"], {"reg": r, "imm": C.Imm(v)})

    def program(n_q):
        q = [reg("Q", i) for i in range(16)]
        r1, r2, c3 = reg("R", 1), reg("R", 2), reg("C", 3)
        entry = C.Obj(ENTRY, {"address": C.Obj(ADDR, {"address": 0}), "index": r2})
        prog = [setq(q[0], 0), setq(r1, 5), setq(q[1], 2), setq(q[1], 1),
                C.Obj(vanm.classes["CnotInstruction"], {"reg0": q[0], "reg1": q[1]}),                       # gate A: Q0=0 Q1=1
                C.Obj(K["LoadInstruction"], {"reg": q[0], "entry": entry}),                                  # Q0 unknown from here
                setq(q[2], 9), C.Obj(K["AddInstruction"], {"reg0": q[2], "reg1": q[2], "reg2": r1}),         # Q2 set, then computed into
                setq(c3, 1), setq(q[3], 3),
                C.Obj(vanm.classes["CphaseInstruction"], {"reg0": q[1], "reg1": q[3]}),                      # gate B: Q1=1 Q3=3 (Q0, Q2 unknown)
                setq(q[0], 4),
                C.Obj(vanm.classes["CnotInstruction"], {"reg0": q[0], "reg1": q[3]})]                        # gate C: Q0=4 Q1=1 Q3=3
        for k in range(4, n_q):
            prog.insert(len(prog) - 1, C.Obj(K["LoadInstruction"], {"reg": q[k], "entry": entry}))           # named, never set
        return prog

    def reference(prog, upto):
        vals, named = {}, []
        for ins_ in prog[:upto + 1]:
            f = ins_.fields
            regs_ = [v for v in f.values() if isinstance(v, C.Obj) and v.cls is not None and v.cls.name == "Register"]
            for r_ in regs_:
                if not any(r_ is x for x in named):
                    named.append(r_)
            tgt = f.get("reg") if ins_.cls.name in ("SetInstruction", "LoadInstruction") else f.get("reg0") if ins_.cls.name == "AddInstruction" else None
            if tgt is not None and tgt.fields["name"].name == "Q":
                if ins_.cls.name == "SetInstruction":
                    vals[id(tgt)] = (tgt, f["imm"].value)
                else:
                    vals.pop(id(tgt), None)
        return vals, named

    def rname(r_):
        return f"{r_.fields['name'].name}{r_.fields['index']}" if isinstance(r_, C.Obj) and r_.cls is not None and r_.cls.name == "Register" else repr(r_)

    bad = {}
    n_gates = 0
    try:
        for n_q in (4, 15, 16):
            prog = program(n_q)
            sub = C.Obj(None, {"instructions": list(prog)})
            o = C.object_from_init(repo, nvt, {"_subroutine": sub, "_used_registers": set(), "_register_values": {}, "_debug": False}, kind="self")
            sc = C.Scenario()
            sc.plain_registers = True
            seen = []

            def two(instr=None, *a_, o=o, sc=sc, seen=seen, **k_):
                tracked = dict(o.fields["_register_values"])
                try:
                    scratch = C.Interp(repo, ctx.ev, sc, nvt).call_function(m, gu, [], {}, self_obj=o)
                except C.EvalRaise as ex_:
                    scratch = f"raises {ex_.exc_name}"
                seen.append((instr, tracked, scratch))
                return [instr]

            sc.overrides["_handle_two_qubit_gate"] = two
            sc.overrides["_handle_single_qubit_gate"] = lambda instr=None, *a_, **k_: [instr]
            C.Interp(repo, ctx.ev, sc, nvt).call_function(m, tp, [], {}, self_obj=o)
            gates = [k for k, x in enumerate(prog) if x.cls.name in ("CnotInstruction", "CphaseInstruction")]
            if [g_[0] for g_ in seen] != [prog[k] for k in gates]:
                bad.setdefault("dispatch", f"the two-qubit handler is called for {len(seen)} of the {len(gates)} two-qubit gates")
                continue
            for k, (ins_, tracked, scratch) in zip(gates, seen):
                n_gates += 1
                want, named = reference(prog, k)
                got = {}
                for key, val in tracked.items():
                    got[rname(key)] = val.value if isinstance(val, C.Imm) else val
                want_n = {rname(r_): v_ for r_, v_ in want.values()}
                stale = sorted(k_ for k_ in got if k_ not in want_n)
                wrong = sorted(k_ for k_ in want_n if got.get(k_) != want_n[k_])
                if stale:
                    bad.setdefault("other-write-invalidates", f"at instruction {k} ({ins_.cls.name}) the transpiler still believes {', '.join(f'{x}={got[x]}' for x in stale)}; "
                                                                f"the program has written {stale} by an instruction other than `set` since (or never set it / it is not a Q register)")
                if wrong:
                    bad.setdefault("set-updates-value", f"at instruction {k} ({ins_.cls.name}) the tracked values are {got}, the last `set`s say {want_n}")
                q_named = [r_ for r_ in named if r_.fields["name"].name == "Q"]
                if len(q_named) >= 16:
                    if not (isinstance(scratch, str) and scratch.startswith("raises")):
                        bad.setdefault("exhaustion", f"all sixteen Q registers are named by the program and get_unused_register still returns {rname(scratch)}")
                    continue
                if isinstance(scratch, str):
                    bad.setdefault("scratch", f"at instruction {k} get_unused_register {scratch} although only {len(q_named)} Q registers are named")
                    continue
                if not (isinstance(scratch, C.Obj) and scratch.cls is not None and scratch.cls.name == "Register" and scratch.fields["name"].name == "Q" and 0 <= scratch.fields["index"] < 16):
                    bad.setdefault("scratch", f"the scratch register {rname(scratch)} is not one of Q0..Q15")
                elif any(rname(r_) == rname(scratch) for r_ in named):
                    bad.setdefault("scratch", f"at instruction {k} ({ins_.cls.name}) the scratch register is {rname(scratch)}, which the program names "
                                              f"(operands so far: {sorted(rname(r_) for r_ in named)}): its value is overwritten by the borrowed-electron sequence")
    except C.EvalRaise as ex_:
        bad.setdefault("dispatch", f"transpile() raises {ex_}")
    except AnalysisError as ex_:
        ctx.error("C08.V", f"NV transpile() cannot be evaluated for register tracking: {ex_}")
        return
    ctx.anchor("C08.V", "two-qubit gates at which the tracked state was inspected", n_gates, 9)
    loc = repo.loc(m, tp)
    ctx.check("C08.V", "register-tracking:gates-dispatched", "dispatch" not in bad, f"{bad.get('dispatch')}", loc, trivial=True)
    ctx.check("C08.V", "register-tracking:set-updates-value", "set-updates-value" not in bad, f"a `set` of a Q register does not record its immediate as the tracked value: {bad.get('set-updates-value')}", loc)
    ctx.check("C08.V", "register-tracking:other-write-invalidates", "other-write-invalidates" not in bad,
              f"a stale or foreign register value is tracked: {bad.get('other-write-invalidates')}: the decomposition chosen for a later two-qubit gate reflects a stale qubit id (wrong circuit or assertion)", loc)
    ctx.check("C08.U", "get_unused_register:scratch-is-a-Q-register-the-program-has-not-named", "scratch" not in bad, f"{bad.get('scratch')}", repo.loc(m, gu))
    ctx.check("C08.U", "get_unused_register:no-free-register-is-an-error", "exhaustion" not in bad, f"{bad.get('exhaustion')}", repo.loc(m, gu))


TP = "netqasm/sdk/transpile.py"
CO = "netqasm/lang/instr/core.py"
SEEDS = [
    dict(id="c08-strip-zero-rotations-after-map", file=TP, expect="C08.I", construct="only-appended-to",
         old="        add_no_op_at_end = False\n\n        for instr in new_commands:", new="        new_commands = [c for c in new_commands if not (isinstance(c, core.RotationInstruction) and c.angle_num == Immediate(0))]\n        add_no_op_at_end = False\n\n        for instr in new_commands:"),

    dict(id="c08-scratch-from-tracked-values", file=TP, expect="C08.U", construct="scratch-is-a-Q-register",
         old="            if reg not in self._used_registers:", new="            if reg not in self._register_values:"),
    dict(id="c08-used-registers-only-set-targets", file=TP, expect="C08.U", construct="scratch-is-a-Q-register",
         old="                if isinstance(op, Register):\n                    self._used_registers.update([op])", new="                if isinstance(op, Register) and isinstance(instr, core.SetInstruction):\n                    self._used_registers.update([op])"),

    dict(id="c08-drop-jmp", file=TP, expect="C08.J", construct="NV transpiler", old="                or isinstance(instr, core.BranchBinaryInstruction)\n                or isinstance(instr, core.JmpInstruction)\n            ):\n                original_line = instr.line.value\n                if original_line == len(self._subroutine.instructions):\n                    # There was a label in the original subroutine at the very end.\n                    # Since this label is now removed, we should put a \"no-op\"\n                    # instruction there so there is something to jump to.\n                    add_no_op_at_end = True\n                    instr.line",
         new="                or isinstance(instr, core.BranchBinaryInstruction)\n            ):\n                original_line = instr.line.value\n                if original_line == len(self._subroutine.instructions):\n                    # There was a label in the original subroutine at the very end.\n                    # Since this label is now removed, we should put a \"no-op\"\n                    # instruction there so there is something to jump to.\n                    add_no_op_at_end = True\n                    instr.line"),
    dict(id="c08-index-after", file=TP, expect="C08.I", construct="index-recorded", old="            index_changes[i] = len(new_commands)\n\n            if isinstance(instr, core.SingleQubitInstruction) or isinstance(\n                instr, core.RotationInstruction\n            ):\n                new_commands += self._handle_single_qubit_gate(instr)\n            elif isinstance(instr, core.TwoQubitInstruction):\n                new_commands += self._handle_two_qubit_gate(instr)\n            else:\n                new_commands += [instr]\n",
         new="            if isinstance(instr, core.SingleQubitInstruction) or isinstance(\n                instr, core.RotationInstruction\n            ):\n                new_commands += self._handle_single_qubit_gate(instr)\n            elif isinstance(instr, core.TwoQubitInstruction):\n                new_commands += self._handle_two_qubit_gate(instr)\n            else:\n                new_commands += [instr]\n            index_changes[i] = len(new_commands)\n"),
    dict(id="c08-end-target", file=TP, expect="C08.E", construct="past-the-end", old="                    instr.line = Immediate(len(new_commands))", new="                    instr.line = Immediate(len(new_commands) - 1)"),
    dict(id="c08-noop-always", file=TP, expect="C08.E", construct="no-op", old="        if add_no_op_at_end:\n            new_commands += [", new="        if True:\n            new_commands += ["),
    dict(id="c08-writes-to-load", file=CO, expect="C08.W", construct="load", old="    id: int = 6\n    mnemonic: str = \"load\"\n\n    def writes_to(self) -> List[Register]:\n        return [self.reg]\n", new="    id: int = 6\n    mnemonic: str = \"load\"\n"),
    dict(id="c08-writes-to-meas", file=CO, expect="C08.W", construct="meas", old="    mnemonic: str = \"meas\"\n\n    def writes_to(self) -> List[Register]:\n        return [self.creg]", new="    mnemonic: str = \"meas\"\n\n    def writes_to(self) -> List[Register]:\n        return [self.qreg]"),
    dict(id="c08-skip-debug-continue", file=TP, expect="C08.I", construct="index-recorded", old="            for op in instr.operands:\n                # update used registers", new="            if not instr.operands:\n                new_commands += [instr]\n                continue\n            for op in instr.operands:\n                # update used registers"),
    dict(id="c08-orig-stale-value", file=TP, expect="C08.V", construct="other-write-invalidates", old="                    self._register_values.pop(reg, None)\n", new="                    pass\n"),
    dict(id="c08-set-not-tracked", file=TP, expect="C08.V", construct="set-updates-value", old="                    self._register_values[reg] = instr.imm", new="                    self._register_values[reg] = Immediate(0)"),
    dict(id="c08-drop-redundant-set", file=TP, expect="C08.I", construct="index-recorded", old="            index_changes[i] = len(new_commands)\n", new="            index_changes[i] = len(new_commands)\n            if isinstance(instr, core.SetInstruction) and instr.imm.value == 1337:\n                continue\n"),
]
BENIGN = [
    dict(id="c08-benign-del", file=TP, old="                    self._register_values.pop(reg, None)\n", new="                    if reg in self._register_values:\n                        del self._register_values[reg]\n"),
]
