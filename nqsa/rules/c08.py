"""C08 — NV transpilation preserves program behaviour, not only gates (claimed in part).

C08.J  the class set retargeted by the NV transpiler = scanned by the REIDS
       transpiler = dispatched to the executor's branch handler = every core
       class with a `line` target
C08.I  index_changes[i] is recorded on every iteration before the expansion of
       instruction i is appended
C08.E  a target equal to the old length maps to the new length on the path that
       sets the no-op flag; the no-op is appended iff the flag is set; every
       other target goes through index_changes
C08.W  writes_to() of every instruction class = the register its executor handler writes
C08.V  a non-`set` write to a Q register invalidates the tracked value (or raises)
"""
from __future__ import annotations

import ast
from typing import Dict, List, Optional, Set

from .. import astutil as A
from .. import guards as G
from .. import instrs as I
from .. import roles
from ..model import AnalysisError, dotted, src
from . import c04

TECHNIQUE = "differential abstract execution of programs before and after NVSubroutineTranspiler.transpile() on the repository's Executor (checker's AST interpreter; registers and gate operators compared); writes_to vs executor write signatures; tracked register values and scratch register executed; sibling agreement of jump-class sets for the REIDS transpiler and the executor (static analysis)"
ENGINES = ["model", "flow", "instrs", "circuit", "session"]
EXPLANATION = (
    "Over sdk/transpile.py, lang/instr/core.py and backend/executor.py. C08.X (abstract execution, differential): 60 vanilla programs parsed by the repository's parser run on the repository's Executor before and after NVSubroutineTranspiler.transpile() - every branch class taken / not taken jumping forward over a gate, to the very end, backward in a counted loop, to instruction 0 of a later subroutine; gates whose NV expansions differ in length; zero-angle rotations before a target; a register set on one path only and again after the join; the no-op's constant in the program; every C register in use: the classical registers (a marker counts basic blocks) and the operator applied to the qubits (recorded gates multiplied out, up to a global phase) must agree. C08.J: the jump-class set scanned by the REIDS transpiler = dispatched to the executor's branch handler = every core class with a `line` target. C08.E: the REIDS transpiler flags a jump to the position just past the end. C08.W: writes_to() of each class equals the register operand written by its executor handler. C08.V / C08.U execute transpile() with the two-qubit handler modelled and the real get_unused_register on programs that set, overwrite, load and compute into Q registers (4, 15 and 16 registers named): tracked values at each gate, scratch register outside everything named, exhaustion raises. C08.D = the decomposition rules of C07. C08.Z: no truthiness test on an int-typed value."
)
LEVEL_TEXT = (
    "Abstract execution (differential, before / after transpilation) over an enumerated family of programs for jump retargeting and gate mapping; executed rules for the tracked register values and the scratch register; static rules for writes_to and for the REIDS transpiler. Not decided: programs outside the family; the REIDS rewrite beyond its jump scan."
)
LEVEL_NOTE = "flow-insensitive register tracking across branches is a known limitation of the transpiler that this check does not decide"
ASSUMPTIONS = [LEVEL_NOTE]
TR = "netqasm.sdk.transpile"


def isinstance_classes(repo, m, test) -> Optional[Set[str]]:
    parts = test.values if isinstance(test, ast.BoolOp) and isinstance(test.op, ast.Or) else [test]
    out = set()
    for p in parts:
        if isinstance(p, ast.Call) and dotted(p.func) == "isinstance" and len(p.args) == 2:
            t = p.args[1]
            for e in (t.elts if isinstance(t, ast.Tuple) else [t]):
                c = repo.resolve_class(m, e)
                if c is None:
                    return None
                out.add(c.name)
        else:
            return None
    return out


def _run_differential(ctx, program):
    """one program before and after NV transpilation -> None when both behave alike, else (construct, what differs)"""
    from .. import session as S
    label, texts = program
    w1 = S.ExecutorWorld(ctx, S.scenario(max_steps=400000))
    w1.init_app(0, 3)
    for text in texts:
        r1 = w1.run(w1.parse(text))
        if r1[0] != "ok":
            raise AnalysisError(f"the checker's program `{label}` does not run on the executor in the vanilla flavour: {r1}")
    w2 = S.ExecutorWorld(ctx, S.scenario(max_steps=400000))
    w2.init_app(0, 3)
    for text in texts:
        t_ = S.nv_transpile(w2, w2.parse(text))
        if t_[0] != "ok":
            return ("transpile:accepts-every-program", f"`{label}`: transpile() {t_}")
        r2 = w2.run(t_[1])
        if r2[0] != "ok":
            return ("transpiled-program:runs", f"`{label}`: the transpiled program {r2} on the executor; the original runs")
    regs1 = {k_: v_ for k_, v_ in w1.registers().items() if k_[0] in "RCM"}
    regs2 = {k_: v_ for k_, v_ in w2.registers().items() if k_[0] in "RCM" and k_ in regs1}
    if regs1 != regs2:
        diff = {k_: (regs1.get(k_), regs2.get(k_)) for k_ in regs1 if regs1.get(k_) != regs2.get(k_)}
        return ("jump-targets:same-classical-outcome", f"`{label}`: registers after the original / the transpiled program differ: {diff} "
                                                       "(R5 counts the basic blocks that ran: a jump of the transpiled program lands somewhere else)")
    why = S.same_behaviour(S.trace_unitaries(w1.trace, 3), S.trace_unitaries(w2.trace, 3))
    if why is not None:
        return ("gates:same-operator-on-the-executed-path", f"`{label}`: {why}; original gates {[t[:2] for t in w1.trace]}, transpiled {[(t[0], t[1], round(t[2], 4) if t[2] is not None else None) for t in w2.trace]}")
    return None


def check_differential(ctx, rule="C08.X"):
    """NV transpilation decided by differential execution: programs in the vanilla flavour are parsed by the repository's parser,
    run by the repository's Executor (quantum hooks recorded), transpiled by NVSubroutineTranspiler.transpile() and run again.  Both
    runs must end with the same classical registers and program counter behaviour (the same markers were executed) and must have
    applied the same operator to the qubits (the recorded gates multiplied out, up to a global phase), with the same initialisations
    and measurements in between.

    Programs: every branch class (jmp, bez, bnz, beq, bne, blt, bge) taken and not taken, jumping forward over a gate, to the very end
    of the subroutine and backward (a counted loop); around the jump and at its target gates whose NV expansions have different lengths
    (h, x, t, s, k, rot_z, cnot / cphase between electron and carbon in both directions and between two carbons); a marker register is
    increased by a different amount in every basic block, so a target that lands one instruction early or late is seen."""
    from .. import session as S
    branches = {"jmp": ("jmp {t}", [(0, 0)]), "bez": ("bez R0 {t}", [(0, 0), (2, 0)]), "bnz": ("bnz R0 {t}", [(0, 0), (2, 0)]),
                "beq": ("beq R0 R1 {t}", [(1, 1), (1, 2)]), "bne": ("bne R0 R1 {t}", [(1, 1), (1, 2)]),
                "blt": ("blt R0 R1 {t}", [(1, 2), (2, 1), (1, 1)]), "bge": ("bge R0 R1 {t}", [(1, 2), (2, 1), (1, 1)])}
    gates = ["h Q0", "x Q1", "t Q2", "cnot Q0 Q1", "cnot Q1 Q0", "cnot Q1 Q2", "cphase Q2 Q0", "rot_z Q1 3 3", "k Q0\ns Q1", "cphase Q1 Q2"]
    head = "# NETQASM 1.0\n# APPID 0\nset R0 {a}\nset R1 {b}\nset R5 0\nset R6 1\nset R7 10\nset R8 100\nset R9 0\nset R10 3\n" + \
           "".join(f"set Q{k} {k}\nqalloc Q{k}\ninit Q{k}\n" for k in range(3))
    programs = []
    gi = 0
    for mn, (form, values) in branches.items():
        for a_, b_ in values:
            for shape in ("forward", "to-the-end", "backward"):
                g = [gates[(gi + k) % len(gates)] for k in range(4)]
                gi += 1
                if shape == "forward":
                    body = f"{g[0]}\n{form.format(t='TARGET')}\n{g[1]}\nadd R5 R5 R6\nTARGET:\n{g[2]}\nadd R5 R5 R7\n{g[3]}\nadd R5 R5 R8\n"
                elif shape == "to-the-end":
                    body = f"{g[0]}\nadd R5 R5 R6\n{form.format(t='END')}\n{g[1]}\nadd R5 R5 R7\n{g[2]}\nEND:\n"
                else:
                    # a loop that runs three times, left by the branch under test when it is taken, else by the counter
                    body = f"LOOP:\n{g[0]}\nadd R5 R5 R6\nadd R9 R9 R6\nbeq R9 R10 OUT\n{form.format(t='OUT') if mn != 'jmp' else 'jmp LOOP'}\n{g[1]}\nadd R5 R5 R7\njmp LOOP\nOUT:\n{g[2]}\nadd R5 R5 R8\n"
                programs.append((f"{mn} {shape} R0={a_} R1={b_}", [head.format(a=a_, b=b_) + body]))
    hdr = "# NETQASM 1.0\n# APPID 0\n"
    prelude = head.format(a=0, b=1)
    # a target that is the very first instruction of the subroutine (registers and qubits prepared by an earlier subroutine of the application)
    for form in ("bne R9 R10 TOP", "blt R9 R10 TOP"):
        programs.append((f"backward to instruction 0 ({form.split()[0]})", [prelude, hdr + f"TOP:\nadd R9 R9 R6\nset Q0 0\nh Q0\nset Q1 1\ncnot Q0 Q1\nadd R5 R5 R7\n{form}\nset Q2 2\nx Q2\nadd R5 R5 R8\n"]))
    programs.append(("jmp over a block to instruction 0 of nothing: first instruction is a jump", [prelude, hdr + "jmp SKIP\nset Q0 0\nh Q0\nadd R5 R5 R6\nSKIP:\nset Q1 1\nx Q1\nadd R5 R5 R7\n"]))
    # a qubit register set on one path only, and set again (to the value of the other path) after the join
    for r0 in (0, 2):
        programs.append((f"register value differs per path at a join (R0={r0})", [head.format(a=r0, b=1) + "set Q0 1\nbez R0 JOIN\nset Q0 0\nh Q0\nadd R5 R5 R6\nJOIN:\nset Q0 0\nx Q0\nset Q1 1\nset Q1 1\nt Q1\nadd R5 R5 R7\n"]))
    # rotations over a zero angle in front of jump targets
    for r0 in (0, 2):
        programs.append((f"zero-angle rotations before a target (R0={r0})", [head.format(a=r0, b=1) + "rot_x Q0 0 4\nrot_z Q1 0 0\nbez R0 AFTER\nrot_y Q0 0 2\nh Q0\nadd R5 R5 R6\nAFTER:\nrot_x Q1 0 1\nx Q1\nadd R5 R5 R7\nbnz R0 END\nt Q2\nadd R5 R5 R8\nEND:\n"]))
    # the whole classical register file in use, nothing jumps to the end
    programs.append(("every C register in use", [head.format(a=1, b=1) + "".join(f"set C{k} {k + 40}\n" for k in range(16)) + "h Q0\ncnot Q0 Q1\nadd R5 R5 R6\n"]))
    programs.append(("the constant of the no-op in the program", [head.format(a=0, b=1) + "bez R0 L1\nh Q0\nL1:\nset C15 1337\nset C14 1337\nx Q1\nbez R0 L2\nadd R5 R5 R6\nL2:\nt Q2\nadd R5 R5 R7\n"]))
    bad = {}
    n = len(programs)
    seen_branches = set()
    try:
        for (label, texts), res in zip(programs, S.parallel_map(ctx, _run_differential, programs)):
            if res is None:
                seen_branches.add(label.split()[0])
            else:
                bad.setdefault(res[0], res[1])
    except AnalysisError as ex_:
        ctx.error(rule, f"differential execution cannot be carried out: {ex_}")
        return
    ctx.anchor(rule, "programs executed before and after NV transpilation", n, 40)
    ctx.anchor(rule, "branch classes exercised", len(seen_branches), 7)
    repo = ctx.repo
    nvt = repo.get_class("netqasm.sdk.transpile", "NVSubroutineTranspiler")
    loc = nvt.loc(nvt.methods["transpile"]) if "transpile" in nvt.methods else None
    for key, text in (("transpile:accepts-every-program", "the NV transpiler refuses a vanilla program"),
                      ("transpiled-program:runs", "a transpiled program faults on the executor"),
                      ("jump-targets:same-classical-outcome", "a transpiled program takes another path than the original"),
                      ("gates:same-operator-on-the-executed-path", "the gates executed by the transpiled program are not those of the original")):
        ctx.check(rule, key, key not in bad, f"{text}: {bad.get(key)}", loc, sample={"programs": n})


def run(ctx):
    check_differential(ctx)
    repo, ev = ctx.repo, ctx.ev
    m = repo.module(TR)
    nvt = repo.get_class(TR, "NVSubroutineTranspiler")
    reids = repo.get_class(TR, "REIDSSubroutineTranspiler")
    tp = nvt.methods.get("transpile")
    rt = reids.methods.get("transpile")
    if tp is None or rt is None:
        raise AnalysisError("transpile methods not found")
    ctx.fn("NVSubroutineTranspiler.transpile")
    ctx.fn("REIDSSubroutineTranspiler.transpile")
    # the rules below name the locals of the two transpile() methods by role; which local plays which role is read from the statements
    roles.normalise(ctx, tp, [
        "for ($i,$instr) in enumerate(self._subroutine.instructions)",
        "self._subroutine.instructions=$new_commands",
        "$index_changes[$i]=len($new_commands)",
        "$affected_regs=$instr.writes_to()",
        "for $reg in $affected_regs",
        "for $op in $instr.operands",
        "$original_line=$_.line.value",
        "if $add_no_op_at_end",
    ], "NVSubroutineTranspiler.transpile")
    roles.normalise(ctx, rt, [
        "for $instr in self._subroutine.instructions",
        "$original_line=$instr.line.value",
        "if $add_no_op_at_end",
    ], "REIDSSubroutineTranspiler.transpile")
    # ---- C08.J
    def jump_if(fn):
        """the statements that run for jump instructions only, and the classes tested: whatever the test is written as
        (an `if isinstance(...) or ...:` block, or a guard `if not (...): continue` followed by the statements)"""
        def blocks(stmts):
            yield stmts
            for st in stmts:
                for field in ("body", "orelse", "finalbody"):
                    sub = getattr(st, field, None)
                    if isinstance(sub, list) and sub and isinstance(sub[0], ast.stmt):
                        yield from blocks(sub)

        for block in blocks(fn.body):
            region, classes = [], None
            for st in block:
                cs = None
                for t, pol in G.path_conditions(fn, st):
                    c_ = isinstance_classes(repo, m, t) if pol else None
                    if c_ and any("Branch" in x or "Jmp" in x for x in c_):
                        cs = c_
                if cs:
                    region.append(st)
                    classes = cs
            if region and any(isinstance(x, ast.Attribute) and x.attr == "line" for st in region for x in ast.walk(st)):
                node = ast.If(test=ast.Constant(value=True), body=region, orelse=[])
                ast.copy_location(node, region[0])
                return node, classes
        return None, None
    nv_if, nv_set = jump_if(tp)
    re_if, re_set = jump_if(rt)
    if re_if is None:
        raise AnalysisError("jump-scanning isinstance test not found in the REIDS transpiler")
    # (the NV transpiler's retargeting is decided by differential execution, C08.X: which classes it tests, and how, is not read)
    try:
        table = c04.handler_table(ctx)
        arms = ctx._c04_arms
    except c04.DispatchUnread as ex_:
        arms = None
        ctx.note(f"C08.J: {ex_}; which instructions the executor treats as jumps is decided by C04.D")
    ex_set = set()
    for classes, h in (arms or []):
        if h == "_handle_branch_instr":
            ex_set = {c.name for c in classes}
    core = repo.module(I.CORE_MOD)
    with_line = set()
    for c in I.core_instructions(repo):
        r = repo.lookup(c, "line")
        if r is not None:
            with_line.add(r[0].name)

    def closure(names):
        out = set()
        for c in I.core_instructions(repo):
            if any(k.name in names for k in repo.mro(c)):
                out.add(c.name)
        return out
    ref = closure(with_line)
    for label, s in (("REIDS transpiler scans", re_set),) + ((("executor branch handler", ex_set),) if arms is not None else ()):
        got = closure(s)
        ctx.check("C08.J", f"jump-classes:{label}", got == ref,
                  f"{label} {sorted(got)} but the core classes with a jump target are {sorted(ref)}: "
                  f"{'missing ' + str(sorted(ref - got)) if ref - got else ''}{' extra ' + str(sorted(got - ref)) if got - ref else ''} — a jump of a missing class keeps its old (now wrong) target", repo.loc(m, nv_if),
                  sample={"set": label, "classes": sorted(got)})
    ctx.anchor("C08.J", "core instruction classes with a jump target", len(ref), 7)
    from .. import circuit as C
    from ..model import EnumMember
    rn = repo.get_class("netqasm.lang.encoding", "RegisterName")
    rmem = ev.enum_members(rn)
    R_ = repo.get_class("netqasm.lang.operand", "Register")
    corem = repo.module(I.CORE_MOD)
    vanm = repo.module("netqasm.lang.instr.vanilla")

    def reg(name, index):
        return C.Obj(R_, {"name": EnumMember(rn.qualname, name, rmem[name]), "index": index})

    # REIDS: same past-the-end handling
    ok_r = False
    rdefs = A.single_defs(rt)
    for n in ast.walk(rt):
        if isinstance(n, ast.Assign) and isinstance(n.value, ast.Constant) and n.value.value is True and isinstance(n.targets[0], ast.Name):
            facts = [(A.norm(A.expand(t, rdefs)), pol) for t, pol in G.path_conditions(rt, n)]
            if any(pol and ("line.value==len(self._subroutine.instructions)" in t_ or "len(self._subroutine.instructions)==" in t_ and "line.value" in t_) for t_, pol in facts):
                ok_r = True
    ctx.check("C08.E", "REIDS:past-the-end-target-gets-a-no-op", ok_r, "the REIDS transpiler does not flag a jump to the position just past the end", repo.loc(m, re_if))

    # ---- C08.W
    if arms is None:
        ctx.note("C08.W: the executor's dispatch is not read (see C08.J); which registers an instruction writes is compared on executed programs by C08.X")
        sigs = {}
    else:
        sigs = c04.all_signatures(ctx, table)
    n_w = 0
    from .. import session as S_
    for c in I.core_instructions(repo):
        mn = I.field_default(repo, ev, c, "mnemonic")
        if sigs.get(mn) is None:
            if arms is not None:
                ctx.note(f"{mn}: no classical handler signature (quantum hook or unsupported in the base executor)")
            continue
        # writes_to() is called (by the checker's interpreter) on an instance whose operand fields hold distinct marker objects; the
        # operands it names are the fields the returned markers came from - however the method is written
        wt = None
        try:
            flds = [f_[0] for f_ in repo.dataclass_fields(c)]
            marks = {f_: reg("R", 1 + k_) for k_, f_ in enumerate(flds)}
            inst = C.Obj(c, dict(marks))
            interp = C.Interp(repo, ev, S_.scenario(), c)
            r_ = S_.outcome(interp.method, inst, "writes_to", [], {}, None)
            if r_[0] == "ok" and isinstance(r_[1], (list, tuple)):
                by_id = {id(v_): f_ for f_, v_ in marks.items()}
                if all(id(x_) in by_id for x_ in r_[1]):
                    wt = [repo.property_alias(c, by_id[id(x_)]) or by_id[id(x_)] for x_ in r_[1]]
        except AnalysisError as ex_:
            ctx.error("C08.W", f"{c.name}.writes_to cannot be evaluated: {ex_}")
            continue
        if wt is None:
            ctx.error("C08.W", f"{c.name}.writes_to() does not return a list of the instruction's own operands")
            continue
        sig = sigs.get(mn)
        if sig is None:
            ctx.note(f"{mn}: no classical handler signature (quantum hook or unsupported in the base executor); writes_to={wt}")
            continue
        n_w += 1
        written = []
        for s in sig:
            if s.startswith("_set_register("):
                for part in s[len("_set_register("):-1].split(", "):
                    if part.startswith("register=instr."):
                        written.append(part[len("register=instr."):])
        ctx.check("C08.W", f"{mn}:writes_to=executor-writes", sorted(wt) == sorted(written),
                  f"{c.name}.writes_to() names {wt} but the executor's handler for `{mn}` writes register operand(s) {written}: the transpiler would "
                  f"{'miss' if set(written) - set(wt) else 'wrongly assume'} a register write", c.loc(), sample={"mnemonic": mn, "writes_to": wt, "executor_writes": written})
    if arms is not None:
        ctx.anchor("C08.W", "instruction classes with a classical handler signature", n_w, 15)

    # ---- C08.V / C08.U  (abstract execution)
    check_tracking(ctx, nvt, tp, reg, corem, vanm)
    # the tracked values are what the two-qubit dispatch reads
    h2 = nvt.methods.get("_handle_two_qubit_gate")
    ok = h2 is not None and sum(1 for c in A.calls_in(h2) if A.call_name(c) == "get_reg_value") >= 2
    grv = nvt.methods.get("get_reg_value")
    ok = ok and grv is not None and any(A.norm(r.value) == f"self._register_values[{A.param_names(grv)[1]}]" for r in A.returns(grv))
    ctx.check("C08.V", "two-qubit-dispatch:reads-tracked-values", ok, "the two-qubit dispatch does not read the tracked register values (anchor changed)", repo.loc(m, h2) if h2 else "", trivial=True)
    # "the same quantum state": every expansion the rewrite inserts implements the gate it replaces (the rules of C07, under this id)
    from . import c07
    c07.check_decompositions(ctx, "C08.D")
    # 0 is an ordinary id / value / address: nothing int-valued may be tested by truthiness (nqsa/truth.py)
    from .. import truth
    truth.check(ctx, "C08.Z", ['netqasm.sdk.transpile'])
    # a value remembered for later calls is keyed by every argument it depends on (nqsa/memo.py)
    from .. import memo
    memo.check(ctx, "C08.K", ['netqasm.sdk.transpile'])
    # no type test that an earlier type test has already decided (a subclass tested after its base class: nqsa/shadow.py)
    from .. import shadow
    shadow.check(ctx, "C08.H", ['netqasm.sdk.transpile'])


def check_tracking(ctx, nvt, tp, reg, corem, vanm):
    """C08.V and C08.U: what the transpiler knows about registers while it rewrites, decided by executing transpile().

    transpile() runs in the checker's interpreter on a program that sets, overwrites, loads into and computes into Q registers
    between two-qubit gates.  The two-qubit handler is modelled: at each gate it records the tracked register values and asks the
    real get_unused_register for a scratch register.  Required at every gate:
      V  the tracked value of a Q register is the immediate of the last `set` of it, and there is none once any other instruction
         has written it since (or it was never set); registers of other banks are not tracked;
      U  the scratch register is a Q register that no instruction so far (the gate included) names as an operand - whatever the
         instruction is and whether or not its value is tracked; with all sixteen named, asking for one fails."""
    from .. import circuit as C
    repo = ctx.repo
    m = nvt.module
    gu = nvt.methods.get("get_unused_register")
    if gu is None:
        raise AnalysisError("NVSubroutineTranspiler.get_unused_register not found")
    ctx.fn("NVSubroutineTranspiler.get_unused_register")
    K = corem.classes
    ADDR, ENTRY = repo.get_class("netqasm.lang.operand", "Address"), repo.get_class("netqasm.lang.operand", "ArrayEntry")

    def setq(r, v):
        return C.Obj(K["SetInstruction"], {"reg": r, "imm": C.Imm(v)})

    def program(n_q):
        q = [reg("Q", i) for i in range(16)]
        r1, r2, c3 = reg("R", 1), reg("R", 2), reg("C", 3)
        entry = C.Obj(ENTRY, {"address": C.Obj(ADDR, {"address": 0}), "index": r2})
        prog = [setq(q[0], 0), setq(r1, 5), setq(q[1], 2), setq(q[1], 1),
                C.Obj(vanm.classes["CnotInstruction"], {"reg0": q[0], "reg1": q[1]}),                       # gate A: Q0=0 Q1=1
                C.Obj(K["LoadInstruction"], {"reg": q[0], "entry": entry}),                                  # Q0 unknown from here
                setq(q[2], 9), C.Obj(K["AddInstruction"], {"reg0": q[2], "reg1": q[2], "reg2": r1}),         # Q2 set, then computed into
                setq(c3, 1), setq(q[3], 3),
                C.Obj(vanm.classes["CphaseInstruction"], {"reg0": q[1], "reg1": q[3]}),                      # gate B: Q1=1 Q3=3 (Q0, Q2 unknown)
                setq(q[0], 4),
                C.Obj(vanm.classes["CnotInstruction"], {"reg0": q[0], "reg1": q[3]})]                        # gate C: Q0=4 Q1=1 Q3=3
        for k in range(4, n_q):
            prog.insert(len(prog) - 1, C.Obj(K["LoadInstruction"], {"reg": q[k], "entry": entry}))           # named, never set
        return prog

    def reference(prog, upto):
        vals, named = {}, []
        for ins_ in prog[:upto + 1]:
            f = ins_.fields
            regs_ = [v for v in f.values() if isinstance(v, C.Obj) and v.cls is not None and v.cls.name == "Register"]
            for r_ in regs_:
                if not any(r_ is x for x in named):
                    named.append(r_)
            tgt = f.get("reg") if ins_.cls.name in ("SetInstruction", "LoadInstruction") else f.get("reg0") if ins_.cls.name == "AddInstruction" else None
            if tgt is not None and tgt.fields["name"].name == "Q":
                if ins_.cls.name == "SetInstruction":
                    vals[id(tgt)] = (tgt, f["imm"].value)
                else:
                    vals.pop(id(tgt), None)
        return vals, named

    def rname(r_):
        return f"{r_.fields['name'].name}{r_.fields['index']}" if isinstance(r_, C.Obj) and r_.cls is not None and r_.cls.name == "Register" else repr(r_)

    bad = {}
    n_gates = 0
    try:
        for n_q in (4, 15, 16):
            prog = program(n_q)
            sub = C.Obj(None, {"instructions": list(prog)})
            o = C.object_from_init(repo, nvt, {"_subroutine": sub, "_used_registers": set(), "_register_values": {}, "_debug": False}, kind="self")
            sc = C.Scenario()
            sc.plain_registers = True
            seen = []

            def two(instr=None, *a_, o=o, sc=sc, seen=seen, **k_):
                tracked = dict(o.fields["_register_values"])
                try:
                    scratch = C.Interp(repo, ctx.ev, sc, nvt).call_function(m, gu, [], {}, self_obj=o)
                except C.EvalRaise as ex_:
                    scratch = f"raises {ex_.exc_name}"
                seen.append((instr, tracked, scratch))
                return [instr]

            sc.overrides["_handle_two_qubit_gate"] = two
            sc.overrides["_handle_single_qubit_gate"] = lambda instr=None, *a_, **k_: [instr]
            C.Interp(repo, ctx.ev, sc, nvt).call_function(m, tp, [], {}, self_obj=o)
            gates = [k for k, x in enumerate(prog) if x.cls.name in ("CnotInstruction", "CphaseInstruction")]
            if [g_[0] for g_ in seen] != [prog[k] for k in gates]:
                bad.setdefault("dispatch", f"the two-qubit handler is called for {len(seen)} of the {len(gates)} two-qubit gates")
                continue
            for k, (ins_, tracked, scratch) in zip(gates, seen):
                n_gates += 1
                want, named = reference(prog, k)
                got = {}
                for key, val in tracked.items():
                    got[rname(key)] = val.value if isinstance(val, C.Imm) else val
                want_n = {rname(r_): v_ for r_, v_ in want.values()}
                stale = sorted(k_ for k_ in got if k_ not in want_n)
                wrong = sorted(k_ for k_ in want_n if got.get(k_) != want_n[k_])
                if stale:
                    bad.setdefault("other-write-invalidates", f"at instruction {k} ({ins_.cls.name}) the transpiler still believes {', '.join(f'{x}={got[x]}' for x in stale)}; "
                                                                f"the program has written {stale} by an instruction other than `set` since (or never set it / it is not a Q register)")
                if wrong:
                    bad.setdefault("set-updates-value", f"at instruction {k} ({ins_.cls.name}) the tracked values are {got}, the last `set`s say {want_n}")
                q_named = [r_ for r_ in named if r_.fields["name"].name == "Q"]
                if len(q_named) >= 16:
                    if not (isinstance(scratch, str) and scratch.startswith("raises")):
                        bad.setdefault("exhaustion", f"all sixteen Q registers are named by the program and get_unused_register still returns {rname(scratch)}")
                    continue
                if isinstance(scratch, str):
                    bad.setdefault("scratch", f"at instruction {k} get_unused_register {scratch} although only {len(q_named)} Q registers are named")
                    continue
                if not (isinstance(scratch, C.Obj) and scratch.cls is not None and scratch.cls.name == "Register" and scratch.fields["name"].name == "Q" and 0 <= scratch.fields["index"] < 16):
                    bad.setdefault("scratch", f"the scratch register {rname(scratch)} is not one of Q0..Q15")
                elif any(rname(r_) == rname(scratch) for r_ in named):
                    bad.setdefault("scratch", f"at instruction {k} ({ins_.cls.name}) the scratch register is {rname(scratch)}, which the program names "
                                              f"(operands so far: {sorted(rname(r_) for r_ in named)}): its value is overwritten by the borrowed-electron sequence")
    except C.EvalRaise as ex_:
        bad.setdefault("dispatch", f"transpile() raises {ex_}")
    except AnalysisError as ex_:
        ctx.error("C08.V", f"NV transpile() cannot be evaluated for register tracking: {ex_}")
        return
    ctx.anchor("C08.V", "two-qubit gates at which the tracked state was inspected", n_gates, 9)
    loc = repo.loc(m, tp)
    ctx.check("C08.V", "register-tracking:gates-dispatched", "dispatch" not in bad, f"{bad.get('dispatch')}", loc, trivial=True)
    ctx.check("C08.V", "register-tracking:set-updates-value", "set-updates-value" not in bad, f"a `set` of a Q register does not record its immediate as the tracked value: {bad.get('set-updates-value')}", loc)
    ctx.check("C08.V", "register-tracking:other-write-invalidates", "other-write-invalidates" not in bad,
              f"a stale or foreign register value is tracked: {bad.get('other-write-invalidates')}: the decomposition chosen for a later two-qubit gate reflects a stale qubit id (wrong circuit or assertion)", loc)
    ctx.check("C08.U", "get_unused_register:scratch-is-a-Q-register-the-program-has-not-named", "scratch" not in bad, f"{bad.get('scratch')}", repo.loc(m, gu))
    ctx.check("C08.U", "get_unused_register:no-free-register-is-an-error", "exhaustion" not in bad, f"{bad.get('exhaustion')}", repo.loc(m, gu))


TP = "netqasm/sdk/transpile.py"
CO = "netqasm/lang/instr/core.py"
SEEDS = [
    dict(id="c08-strip-zero-rotations-after-map", file=TP, expect="C08.X", construct="",
         old="        add_no_op_at_end = False\n\n        for instr in new_commands:", new="        new_commands = [c for c in new_commands if not (isinstance(c, core.RotationInstruction) and c.angle_num == Immediate(0))]\n        add_no_op_at_end = False\n\n        for instr in new_commands:"),

    dict(id="c08-scratch-from-tracked-values", file=TP, expect="C08.U", construct="scratch-is-a-Q-register",
         old="            if reg not in self._used_registers:", new="            if reg not in self._register_values:"),
    dict(id="c08-used-registers-only-set-targets", file=TP, expect="C08.U", construct="scratch-is-a-Q-register",
         old="                if isinstance(op, Register):\n                    self._used_registers.update([op])", new="                if isinstance(op, Register) and isinstance(instr, core.SetInstruction):\n                    self._used_registers.update([op])"),

    dict(id="c08-drop-jmp", file=TP, expect="C08.X", construct="", old="                or isinstance(instr, core.BranchBinaryInstruction)\n                or isinstance(instr, core.JmpInstruction)\n            ):\n                original_line = instr.line.value\n                if original_line == len(self._subroutine.instructions):\n                    # There was a label in the original subroutine at the very end.\n                    # Since this label is now removed, we should put a \"no-op\"\n                    # instruction there so there is something to jump to.\n                    add_no_op_at_end = True\n                    instr.line",
         new="                or isinstance(instr, core.BranchBinaryInstruction)\n            ):\n                original_line = instr.line.value\n                if original_line == len(self._subroutine.instructions):\n                    # There was a label in the original subroutine at the very end.\n                    # Since this label is now removed, we should put a \"no-op\"\n                    # instruction there so there is something to jump to.\n                    add_no_op_at_end = True\n                    instr.line"),
    dict(id="c08-index-after", file=TP, expect="C08.X", construct="", old="            index_changes[i] = len(new_commands)\n\n            if isinstance(instr, core.SingleQubitInstruction) or isinstance(\n                instr, core.RotationInstruction\n            ):\n                new_commands += self._handle_single_qubit_gate(instr)\n            elif isinstance(instr, core.TwoQubitInstruction):\n                new_commands += self._handle_two_qubit_gate(instr)\n            else:\n                new_commands += [instr]\n",
         new="            if isinstance(instr, core.SingleQubitInstruction) or isinstance(\n                instr, core.RotationInstruction\n            ):\n                new_commands += self._handle_single_qubit_gate(instr)\n            elif isinstance(instr, core.TwoQubitInstruction):\n                new_commands += self._handle_two_qubit_gate(instr)\n            else:\n                new_commands += [instr]\n            index_changes[i] = len(new_commands)\n"),
    dict(id="c08-end-target", file=TP, expect="C08.X", construct="", old="                    instr.line = Immediate(len(new_commands))", new="                    instr.line = Immediate(len(new_commands) - 1)"),
    dict(id="c08-noop-always", file=TP, expect="C08.X", construct="", old="        if add_no_op_at_end:\n            new_commands += [", new="        if True:\n            new_commands += ["),
    dict(id="c08-writes-to-load", file=CO, expect="C08.W", construct="load", old="    id: int = 6\n    mnemonic: str = \"load\"\n\n    def writes_to(self) -> List[Register]:\n        return [self.reg]\n", new="    id: int = 6\n    mnemonic: str = \"load\"\n"),
    dict(id="c08-writes-to-meas", file=CO, expect="C08.W", construct="meas", old="    mnemonic: str = \"meas\"\n\n    def writes_to(self) -> List[Register]:\n        return [self.creg]", new="    mnemonic: str = \"meas\"\n\n    def writes_to(self) -> List[Register]:\n        return [self.qreg]"),
    # (an early `continue` for instructions without operands changes nothing: no instruction class of the repository has none - the differential rule sees no difference, rightly)
    dict(id="c08-orig-stale-value", file=TP, expect="C08.V", construct="other-write-invalidates", old="                    self._register_values.pop(reg, None)\n", new="                    pass\n"),
    dict(id="c08-set-not-tracked", file=TP, expect="C08.V", construct="set-updates-value", old="                    self._register_values[reg] = instr.imm", new="                    self._register_values[reg] = Immediate(0)"),
    dict(id="c08-drop-redundant-set", file=TP, expect="C08.X", construct="", old="            index_changes[i] = len(new_commands)\n", new="            index_changes[i] = len(new_commands)\n            if isinstance(instr, core.SetInstruction) and instr.imm.value == 1337:\n                continue\n"),
]
BENIGN = [
    dict(id="c08-benign-del", file=TP, old="                    self._register_values.pop(reg, None)\n", new="                    if reg in self._register_values:\n                        del self._register_values[reg]\n"),
]
