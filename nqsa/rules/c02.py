"""C02 — fixed 7-byte wire layout.

The layout of every (flavour, mnemonic) is *computed from the source's own
dataflow*: operand attribute -> struct field (serialize map of the shape) ->
byte/bit position (ctypes layout model), operand classes flattened through
their own cstruct maps.  It is compared with the frozen reference table
/verif/reference/wire_table.json (the published numbering as the pinned tree
implements it) and with the format constants of the property statement.
"""
from __future__ import annotations

import ast
import json
import os
from typing import Dict, List

from .. import astutil as A
from .. import instrs as I
from .. import wire
from ..model import AnalysisError, CArray, CScalar, CStructRef, Unknown, dotted, src
from . import c01

TECHNIQUE = "bytes produced by every class's executed serialize (checker's AST interpreter over a ctypes layout model) compared with a frozen reference wire table; constant and import rules (static analysis; abstract execution)"
ENGINES = ["model", "wire", "instrs", "cmodel", "codec"]
EXPLANATION = (
    "For every flavour and mnemonic the byte/bit position, width and signedness of every operand leaf is computed from "
    "the serialize() field map and the modelled ctypes layout of encoding.py, in `operands` order, and compared with "
    "reference/wire_table.json; plus the format constants of the statement (register byte = 2-bit bank at bits 0-1, 4-bit "
    "index at bits 2-5; immediate = 1 unsigned byte; integer/address = 4-byte signed little-endian; metadata = 2 version "
    "bytes + uint16 app id; every command struct packed and exactly 7 bytes)."
    ' C02.O: the opcode tables consulted at run time are owned per flavour instance.'
    " C02.M also: the header handed out by Subroutine.cstructs is built in that call from the subroutine's own version and app id (or is a kept header dropped by every writer of those fields)."
)
LEVEL_TEXT = (
    "Static analysis, full: the wire layout of all instruction classes of all flavours is derived from the source and "
    "compared field by field with a frozen reference table, so a consistent encoder+decoder change (swapped fields, "
    "renumbered opcode, altered bit packing) that keeps every round-trip test green is reported. Exhaustive over "
    "classes and fields; does not execute the codec."
)
LEVEL_NOTE = (
    "trusts the ctypes layout rules modelled in nqsa/wire.py (little-endian host, native-endian ctypes.Structure, "
    "LSB-first bit-fields); the reference table is the pinned tree's numbering (the repo ships no instruction table); "
    "the colliding `mov` opcode is left unpinned"
)
ASSUMPTIONS = [LEVEL_NOTE]

REF = os.path.join(os.path.dirname(os.path.dirname(os.path.dirname(os.path.abspath(__file__)))), "reference", "wire_table.json")
UNPINNED_OPCODES = {"mov"}  # collides with meas_basis, see C01 known finding


def _leaf(fl: wire.FieldLayout):
    return {"offset": fl.offset, "bit_offset": fl.bit_offset, "bits": fl.bits, "signed": fl.signed}


def operand_class_map(ctx, oc):
    """operand class -> list of (dataclass field index, field name, struct field, kind, sub class name)"""
    repo, ev = ctx.repo, ctx.ev
    sc = c01._operand_struct(repo, oc)
    if sc is None:
        raise AnalysisError(f"{oc.name}.cstruct does not build an encoding struct")
    ret = A.returns(oc.methods["cstruct"])[0].value
    names = [n for n, _, _ in wire.struct_fields(ev, sc)]
    fmap = {}
    for i, a in enumerate(ret.args):
        fmap[names[i]] = a
    fmap.update(A.kwargs_of(ret))
    out = []
    dfields = [(nm, ann) for nm, ann, val, k in repo.dataclass_fields(oc)]
    for idx, (attr, ann) in enumerate(dfields):
        for f, e in fmap.items():
            cl = c01._classify_ser(e)
            if cl and cl[0] != "opcode" and cl[1] == attr:
                sub = None
                if cl[0] == "cstruct":
                    for t in I.ann_types(ann):
                        c = repo.resolve_class(oc.module, t)
                        if c is not None and "cstruct" in c.methods:
                            sub = c
                out.append((idx, attr, f, cl[0], sub))
    return sc, out


def flatten_operand(ctx, oc, base_path, flat, prefix):
    """leaves of operand class oc located under struct path `prefix` in `flat`"""
    sc, mp = operand_class_map(ctx, oc)
    leaves = []
    for idx, attr, f, kind, sub in mp:
        path = prefix + (f,)
        if kind == "cstruct" and sub is not None:
            leaves.extend(flatten_operand(ctx, sub, base_path + (idx,), flat, path))
        else:
            fl = [x for x in flat if x.path == path]
            if len(fl) != 1:
                raise AnalysisError(f"struct path {'.'.join(path)} not found in layout")
            leaves.append((base_path + (idx,), fl[0]))
    return leaves


def compute_instruction(ctx, c):
    repo, ev = ctx.repo, ctx.ev
    so = I.shape_owner(repo, c, "serialize")
    ser = I.analyse_serialize(repo, so, so.methods["serialize"])
    if ser.struct is None:
        raise AnalysisError(f"{c.name}: serialize does not build a struct")
    flat, size = wire.layout(ev, ser.struct)
    names = [n for n, _, _ in wire.struct_fields(ev, ser.struct)]
    fmap = {}
    for k, v in ser.fields.items():
        if k.startswith("_pos"):
            k = names[int(k[4:])]
        fmap[k] = v
    ops = I.operands_attrs(repo, c)
    if ops is None:
        raise AnalysisError(f"{c.name}.operands is not a list of self attributes")
    anns = {n: (ann, k) for n, ann, k in I.operand_fields(repo, c)}
    opcode_field = [f for f, e in fmap.items() if A.is_self_attr(e, "id")]
    entry = {
        "opcode": I.field_default(repo, ev, c, "id"),
        "size": size,
        "pack": wire.struct_pack(ev, ser.struct),
        "opcode_at": [_leaf(x) for x in flat if opcode_field and x.path == (opcode_field[0],)],
        "operands": [],
    }
    for pos, attr in enumerate(ops):
        # follow property aliases to the dataclass field
        real = repo.property_alias(c, attr) or attr
        if real not in anns:
            raise AnalysisError(f"{c.name}.operands names {attr}, not a dataclass field")
        ann, k = anns[real]
        writers = [(f, c01._classify_ser(e)) for f, e in fmap.items()]
        writers = [(f, cl) for f, cl in writers if cl and cl[0] != "opcode" and cl[1] == real]
        if len(writers) != 1:
            entry["operands"].append({"pos": pos, "error": f"operand {real} written to {len(writers)} fields"})
            continue
        f, cl = writers[0]
        if cl[0] == "cstruct":
            oc = None
            for t in I.ann_types(ann):
                x = repo.resolve_class(k.module, t)
                if x is not None and "cstruct" in x.methods:
                    oc = x
            if oc is None:
                raise AnalysisError(f"{c.name}.{real}: operand class not resolved from annotation {src(ann)}")
            leaves = flatten_operand(ctx, oc, (), flat, (f,))
            entry["operands"].append({"pos": pos, "type": oc.name, "leaves": [{"role": ".".join(map(str, p)), **_leaf(fl)} for p, fl in leaves]})
        else:
            fl = [x for x in flat if x.path == (f,)]
            entry["operands"].append({"pos": pos, "type": "Immediate", "leaves": [{"role": "value", **_leaf(fl[0])}]})
    # padding = everything else must be padding
    used = set()
    for o in entry["operands"]:
        for l in o.get("leaves", []):
            for b in range(l["bits"]):
                used.add(l["offset"] * 8 + l["bit_offset"] + b)
    for l in entry["opcode_at"]:
        for b in range(l["bits"]):
            used.add(l["offset"] * 8 + b)
    entry["payload_bits"] = len(used)
    return entry


def compute_table(ctx):
    repo, ev = ctx.repo, ctx.ev
    table = {}
    for fname, (fc, core, spec) in sorted(I.flavours(repo).items()):
        t = {}
        for c in core + spec:
            mn = I.field_default(repo, ev, c, "mnemonic")
            t[mn] = compute_instruction(ctx, c)  # later entries override, as the flavour does
        table[fname] = t
    enc = repo.module(I.ENC_MOD)
    md = enc.classes.get("Metadata")
    if md is None:
        raise AnalysisError("encoding.Metadata not found")
    flat, size = wire.layout(ev, md)
    meta = {"size": size, "fields": [{"pos": i, **_leaf(f), "kind": f.kind} for i, f in enumerate(flat)]}
    return {"flavours": table, "metadata": meta}


def run(ctx):
    repo, ev = ctx.repo, ctx.ev
    # "opcodes follow each flavour's published table": the tables consulted at run time are per flavour instance
    from . import c01
    c01.check_flavour_tables(ctx, "C02.O")
    if not os.path.exists(REF):
        raise AnalysisError("reference/wire_table.json missing")
    ref = json.load(open(REF))
    # the bytes every instruction's own serialize() produces (checker's interpreter, ctypes modelled) are compared with the bytes the
    # published table prescribes for the same operand values: opcode at byte 0, every operand leaf at its published bit position,
    # padding zero (nqsa/codec.py)
    from .. import codec
    codec.emit(ctx, layout="C02.L", rng="C02.W")  # C02.W: a leaf takes exactly the values of its published width (nothing outside is written as a value inside)
    have = {}
    for fname, (fc, core, spec) in I.flavours(repo).items():
        have[fname] = {I.field_default(repo, ev, c, "mnemonic") for c in core + spec}
    n = 0
    for fname, rt in sorted(ref["flavours"].items()):
        if fname not in have:
            ctx.check("C02.L", f"{fname}:present", False, f"flavour {fname} of the reference table no longer exists")
            continue
        for mn in sorted(rt):
            n += 1
            ctx.check("C02.L", f"{fname}:{mn}:present", mn in have[fname], f"{fname} no longer has an instruction with mnemonic {mn!r} (published table entry vanished)", trivial=True)
        for mn in sorted(have[fname] - set(rt)):
            ctx.note(f"{fname}: mnemonic {mn} not in the reference table (new instruction; not a violation)")
    ctx.anchor("C02.L", "(flavour, mnemonic) entries", n, 100)
    # C02.M metadata
    enc0 = repo.module(I.ENC_MOD)
    flat0, size0 = wire.layout(ev, enc0.classes["Metadata"])
    m = {"size": size0, "fields": [{"pos": i, **_leaf(f), "kind": f.kind} for i, f in enumerate(flat0)]}
    exp = [{"pos": 0, "offset": 0, "bit_offset": 0, "bits": 16, "signed": False, "kind": "uint8[2]"},
           {"pos": 1, "offset": 2, "bit_offset": 0, "bits": 16, "signed": False, "kind": "uint16"}]
    ctx.check("C02.M", "encoding.Metadata:layout", m["size"] == 4 and m["fields"] == exp,
              f"Metadata is laid out as {m}, must be uint8[2] version at 0 and uint16 app id at 2 (4 bytes)", sample=m)
    # metadata field order as written by Subroutine.cstructs is checked in C01.F; here: which field holds the version
    enc = repo.module(I.ENC_MOD)
    md = enc.classes["Metadata"]
    names = [nm for nm, _, _ in wire.struct_fields(ev, md)]
    # the header bytes as Subroutine.__bytes__ produces them, and that they follow the subroutine's current fields (executed: nqsa/codec.py)
    codec.emit_framing(ctx, "C02.M", aspects=("header", "current"))
    # C02.R register byte
    reg = enc.classes.get("Register")
    if reg is None:
        raise AnalysisError("encoding.Register not found")
    flat, size = wire.layout(ev, reg)
    opreg = repo.get_class(I.OPERAND_MOD, "Register")
    sc, mp = operand_class_map(ctx, opreg)
    roles = {}
    for idx, attr, f, kind, sub_ in mp:
        fl = [x for x in flat if x.path == (f,)][0]
        roles[idx] = (kind, fl.offset, fl.bit_offset, fl.bits)
    ctx.check("C02.R", "encoding.Register:1-byte", size == 1, f"Register struct is {size} bytes", repo.loc(enc, reg.node))
    ctx.check("C02.R", "Register:bank-bits-0-1", roles.get(0) == ("value", 0, 0, 2), f"register bank is stored as {roles.get(0)}; must be the enum value in bits 0-1", repo.loc(enc, reg.node), sample={"bank": roles.get(0), "index": roles.get(1)})
    ctx.check("C02.R", "Register:index-bits-2-5", roles.get(1) == ("ident", 0, 2, 4), f"register index is stored as {roles.get(1)}; must be bits 2-5", repo.loc(enc, reg.node))
    # bank numbering
    rn = enc.classes.get("RegisterName")
    mem = ev.enum_members(rn) if rn else {}
    ctx.check("C02.R", "RegisterName:numbering", mem == {"R": 0, "C": 1, "Q": 2, "M": 3}, f"register bank numbering is {mem}; published: R=0 C=1 Q=2 M=3", repo.loc(enc, rn.node) if rn else "")
    # C02.I scalar kinds
    for name, exp_t in (("IMMEDIATE", ("c_uint8", 1, False)), ("INTEGER", ("c_int32", 4, True)), ("ADDRESS", ("c_int32", 4, True)), ("INSTR_ID", ("c_uint8", 1, False)), ("APP_ID", ("c_uint16", 2, False))):
        try:
            t = ev.name(I.ENC_MOD, name)
        except Unknown as e:
            raise AnalysisError(f"encoding.{name}: {e}")
        ok = isinstance(t, CScalar) and (t.name, t.size, t.signed) == exp_t
        ctx.check("C02.I", f"encoding.{name}", ok, f"encoding.{name} is {t}, must be {exp_t[0]}", sample={"const": name, "type": getattr(t, "name", str(t))})
    cb = ev.name(I.ENC_MOD, "COMMAND_BYTES")
    ctx.check("C02.K", "encoding.COMMAND_BYTES", cb == 7, f"COMMAND_BYTES is {cb}, must be 7")
    # C02.K every *Command struct: packed, 7 bytes, native/little endian, padding zero-initialised array last
    cmd = enc.classes.get("Command")
    if cmd is None:
        raise AnalysisError("encoding.Command not found")
    k = 0
    for c in repo.subclasses(cmd):
        if c.module is not enc:
            continue
        k += 1
        ctx.fn(c.qualname)
        flat, size = wire.layout(ev, c)
        pack = wire.struct_pack(ev, c)
        ext = repo.external_bases(c)
        endian_ok = not any(b.split(".")[-1] == "BigEndianStructure" for b in ext)
        ctx.check("C02.K", f"{c.name}:packed-7-bytes", pack == 1 and size == 7 and endian_ok,
                  f"{c.name}: _pack_={pack}, size={size}, bases={ext}; must be packed, 7 bytes, not big-endian", c.loc())
    ctx.anchor("C02.K", "*Command structs", k, 22)


def run_thorough(ctx):
    """analyser-model validation: wire.py sizes vs the reference sizes (guards the analyser, not the property)."""
    ev = ctx.ev
    enc = ctx.repo.module(I.ENC_MOD)
    ref = json.load(open(REF)).get("struct_sizes", {})
    for name, size in ref.items():
        c = enc.classes.get(name)
        if c is None:
            continue
        got = wire.layout(ev, c)[1]
        if got != size:
            ctx.note(f"struct {name}: modelled size {got}, reference {size}")


C = "netqasm/lang/instr/core.py"
E = "netqasm/lang/encoding.py"
B = "netqasm/lang/instr/base.py"
SEEDS = [
    dict(id="c02-renumber", file=C, expect="C02.L", construct="", old='    id: int = 4\n    mnemonic: str = "set"', new='    id: int = 44\n    mnemonic: str = "set"'),
    dict(id="c02-swap-both", expect="C02.L", construct="",
         edits=[(B, "        reg0 = Register.from_raw(c_struct.reg0)\n        reg1 = Register.from_raw(c_struct.reg1)\n        return cls(reg0=reg0, reg1=reg1)\n",
                    "        reg0 = Register.from_raw(c_struct.reg1)\n        reg1 = Register.from_raw(c_struct.reg0)\n        return cls(reg0=reg0, reg1=reg1)\n"),
                (B, "            id=self.id, reg0=self.reg0.cstruct, reg1=self.reg1.cstruct\n", "            id=self.id, reg0=self.reg1.cstruct, reg1=self.reg0.cstruct\n")]),
    dict(id="c02-struct-field-order", file=E, expect="C02.L", construct="",
         old='            ("reg", Register),\n            ("imm", INTEGER),\n        ]', new='            ("imm", INTEGER),\n            ("reg", Register),\n        ]'),
    dict(id="c02-bitpacking", file=E, expect="C02", construct="",
         old='        ("register_name", REG_TYPE, REG_NAME_BITS),\n        ("register_index", REG_TYPE, REG_INDEX_BITS),', new='        ("register_index", REG_TYPE, REG_INDEX_BITS),\n        ("register_name", REG_TYPE, REG_NAME_BITS),'),
    dict(id="c02-imm-width", file=E, expect="C02.L", construct="",
         old='            ("reg", Register),\n            ("imm0", IMMEDIATE),\n            ("imm1", IMMEDIATE),', new='            ("reg", Register),\n            ("imm0", INTEGER),\n            ("imm1", IMMEDIATE),'),
    dict(id="c02-integer-unsigned", file=E, expect="C02", construct="", old="INTEGER = ctypes.c_int32", new="INTEGER = ctypes.c_uint32"),
    dict(id="c02-appid-width", file=E, expect="C02", construct="", old="APP_ID = ctypes.c_uint16", new="APP_ID = ctypes.c_uint32"),
    dict(id="c02-bank-renumber", file=E, expect="C02.R", construct="RegisterName", old="    C = 1\n    # Qubit addresses\n    Q = 2", new="    C = 2\n    # Qubit addresses\n    Q = 1"),
    dict(id="c02-operands-order", file=B, expect="C02", construct="", old="        return [self.reg, self.entry]", new="        return [self.entry, self.reg]"),
    dict(id="c02-big-endian", file=E, expect="C02.K", construct="", old="class Command(ctypes.Structure):", new="class Command(ctypes.BigEndianStructure):"),
]
BENIGN = [
    dict(id="c02-benign-rename-struct-field", file=E, old='class MeasCommand(Command):', new='class MeasCommand2(Command):'),
]
