"""C17 — printed assembly parses back to the same instruction (claimed in part).

C17.P  each shape's _pretty_print = mnemonic then str() of the operands, in
       `operands` order, space separated
C17.O  from_operands unpacks in `operands` order and accepts a raw int wherever
       the position is an Immediate (what the parser hands over)
C17.N  every flavour mnemonic is a GenericInstr name; parser lookup
C17.Y  operand printers and operand parsers use the same symbols; register bank
       names are single characters (the parser takes register[0])
C17.X  = C03.X (a printed literal stays a literal exactly where the class wants an Immediate)
C17.T  the round trip itself, executed: str(instruction) by the class's own printer, then parse_text_subroutine with the class's
       flavour, for every registered class and enumerated operand values; same class and equal operand fields must come back
"""
from __future__ import annotations

import ast
import copy
from typing import List, Optional

from .. import astutil as A
from .. import instrs as I
from ..model import AnalysisError, Unknown, dotted, src
from . import c03

TECHNIQUE = "every instruction printed by its own __str__ and parsed by the repository's parser, operand printers and the operand parser - executed by the checker's own AST interpreter on enumerated instructions and texts; mnemonic table agreement (static analysis; abstract execution)"
ENGINES = ["model", "instrs", "circuit"]
EXPLANATION = (
    "For every instruction shape: the f-string of _pretty_print is decomposed into (mnemonic, operand references, separators) and "
    "compared with the `operands` order; from_operands' unpacking order and accepted kinds are compared with the same order; "
    "operand __str__ templates are decomposed into literal symbols and holes and the literals are compared (by evaluated value) "
    "with the Symbols constants the operand parsers split on; mnemonics must be GenericInstr names; the literal-exception table "
    "equals the Immediate positions."
    ' C17.O: what reaches the constructor in from_operands is the parsed operand itself, at most wrapped as Immediate(<it>). C17.Y: all operand parsers recognise integers through the one shared helper. C17.N: the mnemonic table consulted by the parser is owned per flavour instance.'
    ' C17.O executes every from_operands abstractly on distinguishable operand objects (raw ints and Immediates at the immediate positions): field i holds operand i unchanged.'
    " C17.T executes the round trip: for every instruction class registered in a flavour, instances with enumerated operand values (registers of every bank at indices 0, 7 and 15, immediates 0, 1, 200 and for 32-bit fields -5 and 70000, addresses 0, 3, 7 and 70000, array entries and slices with register indices, a template where admitted) are printed by the class's own __str__ and parsed back by parse_text_subroutine with that flavour, all inside the checker's interpreter; the parsed instruction must be of the same class with equal operand fields."
)
LEVEL_TEXT = (
    "Static analysis, partial: printer/parser agreement is decided per shape, per operand kind and per symbol for all classes of all "
    "flavours (the tests never parse printed text). The tokenizer and parser are executed on the printed form of every class (C17.T); their behaviour on arbitrary hand-written strings is not decided."
)
LEVEL_NOTE = "not decided: tokenizer (group_by_word) behaviour on arbitrary strings; int()/str() round trip of Python ints is trusted"
ASSUMPTIONS = [LEVEL_NOTE]
TEXT_MOD = "netqasm.lang.parsing.text"


def fstring_parts(ev, m, node) -> Optional[List]:
    """JoinedStr / Constant / concatenation -> list of ('lit', str) | ('hole', expr)"""
    if isinstance(node, ast.Constant) and isinstance(node.value, str):
        return [("lit", node.value)]
    if isinstance(node, ast.JoinedStr):
        out = []
        for v in node.values:
            if isinstance(v, ast.Constant):
                out.append(("lit", str(v.value)))
            elif isinstance(v, ast.FormattedValue):
                if v.format_spec is not None or v.conversion not in (-1, 115):
                    return None
                e = v.value
                if isinstance(e, (ast.JoinedStr, ast.BinOp)) or (isinstance(e, ast.Call) and isinstance(e.func, ast.Attribute) and e.func.attr == "join"):
                    sub = fstring_parts(ev, m, e)
                    if sub is not None:
                        out.extend(sub)
                        continue
                # evaluate symbol constants
                try:
                    val = ev.eval(e, m)
                    if isinstance(val, str):
                        out.append(("lit", val))
                        continue
                except Unknown:
                    pass
                out.append(("hole", e))
        return out
    if isinstance(node, ast.BinOp) and isinstance(node.op, ast.Add):
        l, r = fstring_parts(ev, m, node.left), fstring_parts(ev, m, node.right)
        if l is None or r is None:
            return None
        return l + r
    if isinstance(node, ast.Call) and isinstance(node.func, ast.Name) and node.func.id == "str" and len(node.args) == 1 and not node.keywords:
        return [("hole", node.args[0])]
    # <separator>.join(<sequence of string expressions>)
    if isinstance(node, ast.Call) and isinstance(node.func, ast.Attribute) and node.func.attr == "join" and len(node.args) == 1 and not node.keywords:
        sep = fstring_parts(ev, m, node.func.value)
        if sep is None:
            try:
                sv = ev.eval(node.func.value, m)
                sep = [("lit", sv)] if isinstance(sv, str) else None
            except Unknown:
                sep = None
        items = _sequence_items(ev, m, node.args[0])
        if sep is None or items is None or not all(k == "lit" for k, _ in sep):
            return None
        out = []
        for i, it in enumerate(items):
            if i:
                out.extend(sep)
            out.extend(it)
        return out
    return None


def _sequence_items(ev, m, node) -> Optional[List[List]]:
    """the string templates of the elements of a list / tuple display; `*[f(x) for x in (a, b)]` and `*(a, b)` are written out"""
    if not isinstance(node, (ast.List, ast.Tuple)):
        return None
    out = []
    for e in node.elts:
        if isinstance(e, ast.Starred):
            v = e.value
            if isinstance(v, (ast.List, ast.Tuple)):
                sub = _sequence_items(ev, m, v)
                if sub is None:
                    return None
                out.extend(sub)
                continue
            if isinstance(v, (ast.ListComp, ast.GeneratorExp)) and len(v.generators) == 1 and not v.generators[0].ifs and isinstance(v.generators[0].target, ast.Name) \
                    and isinstance(v.generators[0].iter, (ast.Tuple, ast.List)):
                var = v.generators[0].target.id
                for item in v.generators[0].iter.elts:
                    class Sub(ast.NodeTransformer):
                        def visit_Name(self, n):
                            return copy.deepcopy(item) if n.id == var else n
                    p_ = fstring_parts(ev, m, Sub().visit(copy.deepcopy(v.elt)))
                    if p_ is None:
                        return None
                    out.append(p_)
                continue
            return None
        p_ = fstring_parts(ev, m, e)
        if p_ is None:
            return None
        out.append(p_)
    return out


def merge_lits(parts):
    out = []
    for k, v in parts:
        if k == "lit" and out and out[-1][0] == "lit":
            out[-1] = ("lit", out[-1][1] + v)
        elif k == "lit" and v == "":
            continue
        else:
            out.append((k, v))
    return out


def hole_attr(e, defs=None):
    """str(self.A) / self.A -> A"""
    if isinstance(e, ast.Call) and dotted(e.func) == "str" and len(e.args) == 1:
        e = e.args[0]
    if isinstance(e, ast.Name) and defs and e.id in defs:
        return hole_attr(defs[e.id], None)
    if A.is_self_attr(e):
        return e.attr
    return None


def check_printers(ctx):
    repo, ev = ctx.repo, ctx.ev
    shapes = {}
    deferred = set()
    for c in I.all_registered(repo):
        made = next((k for k in repo.mro(c) if "_pretty_print" in k.methods or ("_pretty_print" in k.attrs and k.attrs["_pretty_print"][0] is None)), None)
        if made is not None and "_pretty_print" not in made.methods:
            # the class body binds the printer by assignment (`_pretty_print = _make_printer(...)`): there is no text of a method to read;
            # what it prints is judged by C17.T, which prints every instruction with this very attribute and parses the text back
            if made.qualname not in deferred:
                deferred.add(made.qualname)
                ctx.note(f"{made.name}._pretty_print is made by `{src(made.attrs['_pretty_print'][1])[:60]}`; its output is judged by C17.T only")
            continue
        po = I.shape_owner(repo, c, "_pretty_print")
        oo = I.shape_owner(repo, c, "operands")
        if po is None or oo is None:
            ctx.error("C17.P", f"{c.name}: _pretty_print/operands not found")
            continue
        shapes[(po.qualname, oo.qualname)] = (po, oo, c)
    ctx.anchor("C17.P", "printer shapes", len(shapes) + len(deferred), 16)
    for (pq, oq), (po, oo, c) in sorted(shapes.items()):
        fn = po.methods["_pretty_print"]
        ctx.fn(pq + "._pretty_print")
        rets = A.returns(fn)
        ops = I.operands_attrs(repo, c)
        if len(rets) != 1 or ops is None:
            ctx.note(f"{po.name}._pretty_print has an unrecognised shape; its output is judged by C17.T only")
            continue
        defs = A.single_defs(fn)
        parts = fstring_parts(ev, po.module, A.expand(rets[0].value, {k: v for k, v in defs.items() if isinstance(v, (ast.JoinedStr, ast.Constant, ast.BinOp, ast.Call, ast.List, ast.Tuple, ast.Subscript, ast.Attribute))}))
        if parts is None:
            # written some other way (join / format over a helper): what it prints is judged by C17.T, which prints every instruction
            # with this very method and parses the text back
            ctx.note(f"{po.name}._pretty_print is not an f-string; its output is judged by C17.T only")
            continue
        parts = merge_lits(parts)
        holes = [hole_attr(v, defs) for k, v in parts if k == "hole"]
        lits = [v for k, v in parts if k == "lit"]
        key = po.name
        ok_first = bool(holes) and holes[0] == "mnemonic" and parts[0][0] == "hole"
        ctx.check("C17.P", f"{key}:mnemonic-first", ok_first, f"{po.name}._pretty_print does not start with the mnemonic: {src(rets[0].value)[:80]}", po.loc(fn))
        ok_ops = holes[1:] == ops
        ctx.check("C17.P", f"{key}:operands-in-declared-order", ok_ops,
                  f"{po.name}._pretty_print prints operands {holes[1:]}, the class declares {ops} (from_operands consumes them in declared order)", po.loc(fn),
                  sample={"shape": po.name, "printed": holes[1:], "declared": ops})
        # separators: every hole separated by whitespace only; no leading junk
        sep_ok = all(v.strip(" ") == "" and len(v) >= 1 for v in lits) and len(lits) == len(holes) - 1
        # alternate hole, lit, hole...
        alt_ok = all(parts[i][0] == ("hole" if i % 2 == 0 else "lit") for i in range(len(parts)))
        ctx.check("C17.P", f"{key}:space-separated", sep_ok and alt_ok, f"{po.name}._pretty_print does not separate its fields with spaces only: {parts!r}"[:200], po.loc(fn))


def check_from_operands(ctx):
    """C17.O — every from_operands is executed abstractly (nqsa/circuit.py; nothing of the repository runs) on a list of
    distinguishable operand objects, once with raw ints at the Immediate positions (what the text parser leaves there) and
    once with Immediate objects: the instruction it constructs must hold, in the field printed at position i, exactly the
    object passed at position i (an int wrapped as Immediate(<that int>)).  How the method is written does not matter."""
    from .. import circuit as C
    repo, ev = ctx.repo, ctx.ev
    seen = {}
    for c in I.all_registered(repo):
        fo = I.shape_owner(repo, c, "from_operands")
        if fo is None:
            ctx.error("C17.O", f"{c.name}: from_operands not found")
            continue
        seen.setdefault(fo.qualname, (fo, c))
    ctx.anchor("C17.O", "from_operands implementations", len(seen), 17)
    for q, (fo, c) in sorted(seen.items()):
        fn = fo.methods["from_operands"]
        ctx.fn(q + ".from_operands")
        ops = I.operands_attrs(repo, c) or []
        anns = {n: ann for n, ann, k in I.operand_fields(repo, c)}
        reals = [repo.property_alias(c, a) or a for a in ops]
        is_imm = ["Immediate" in I.ann_types(anns.get(r)) for r in reals]

        def operands(with_ints):
            vals = []
            for i, r in enumerate(reals):
                t = I.ann_types(anns.get(r))
                if is_imm[i]:
                    vals.append(1000003 + 17 * i if with_ints else C.Imm(2000003 + 17 * i))  # large odd values: a mask, a modulus or a sign change shows
                elif "Register" in t:
                    vals.append(C.RegSym(f"operand{i}"))
                else:
                    k = repo.resolve_class(fo.module, t[0]) if t else None
                    vals.append(C.Obj(k, {"operand": i}))
            return vals

        runs = {}
        for with_ints in (True, False):
            if with_ints and not any(is_imm):
                continue
            vals = operands(with_ints)
            it = C.Interp(repo, ev, C.Scenario(), None)
            try:
                out = it.call_function(fo.module, fn, [vals], {}, self_obj=("class", fo))
                runs[with_ints] = (vals, out, None)
            except C.EvalRaise as ex_:
                runs[with_ints] = (vals, None, str(ex_))
            except AnalysisError as ex_:
                ctx.error("C17.O", f"{fo.name}.from_operands cannot be evaluated: {ex_}")
                runs = None
                break
        if runs is None:
            continue

        def same(got, passed):
            if isinstance(passed, int):
                return isinstance(got, C.Imm) and got.value == passed
            return got is passed

        changed, where = [], {}
        for with_ints, (vals, out, err) in runs.items():
            if err is not None or not isinstance(out, C.Obj):
                continue
            for i, r in enumerate(reals):
                got = out.fields.get(r)
                hit = [j for j, v_ in enumerate(vals) if same(got, v_)]
                where.setdefault(r, set()).update(hit or [None])
                if not hit:
                    changed.append(f"{r} = {got!r} (operands {vals!r})")
        obj_run = runs.get(False) or runs.get(True)
        ctx.check("C17.O", f"{fo.name}:operands-reach-the-constructor-unchanged", not changed and obj_run[2] is None,
                  f"{fo.name}.from_operands does not hand the parsed operands to the constructor as they are ({'; '.join(changed)[:200] or obj_run[2]}): "
                  "the printer and the binary decoder keep the original operands, so the printed text of such an instruction parses back to a different one", fo.loc(fn),
                  sample={"shape": fo.name, "operands": reals})
        for i, r in enumerate(reals):
            got = sorted(where.get(r, {None}), key=lambda x: -1 if x is None else x)
            ctx.check("C17.O", f"{fo.name}.{r}:position", got == [i],
                      f"{fo.name}.from_operands fills {r} from operand position {got}; it is printed (and declared) at position {i}", fo.loc(fn),
                      sample={"shape": fo.name, "attr": r, "position": i})
            if is_imm[i]:
                vals, out, err = runs[True]
                ctx.check("C17.O", f"{fo.name}.{r}:accepts-int", err is None and isinstance(out, C.Obj) and same(out.fields.get(r), vals[i]),
                          f"{fo.name}.from_operands does not accept a raw int for the Immediate {r} ({err or 'it is not wrapped as Immediate(<the int>)'}); the parser leaves literals at Immediate positions as ints",
                          fo.loc(fn), trivial=True)


def check_round_trip(ctx, rule="C17.T"):
    """"Printed assembly parses back", decided by executing the printer and the parser of the repository in the checker's interpreter.

    For every instruction class registered in a flavour, instances are built from enumerated operand values chosen by the
    declared operand types (registers of every bank at indices 0 and 15, immediates 0 / 1 / 200 and - where the wire field is
    32 bits wide - -5 and 70000, addresses 0 and 7, array entries and slices with register indices, a template where the field
    admits one).  str(instruction) is computed by the class's own __str__ / _pretty_print; the line, under a standard
    preamble, goes through parse_text_subroutine with the class's flavour; the result must be one instruction of the same class
    whose operand fields equal the original's, value by value."""
    from .. import circuit as C
    from ..model import EnumMember
    repo, ev = ctx.repo, ctx.ev
    tm = repo.module("netqasm.lang.parsing.text")
    parse = tm.functions.get("parse_text_subroutine")
    if parse is None:
        raise AnalysisError("text.parse_text_subroutine not found")
    ctx.fn("text.parse_text_subroutine")
    from .. import codec
    w = codec.World(ctx)
    plain = codec.plain

    def value_of(types, variant, pos, wide):
        return w.value_of(types, variant, pos, wide, templates=True)

    n_cls = n_inst = 0
    flav_objs = {}
    # the literal-exception table of the assembler is built by module-level loops: evaluated by the constant evaluator and handed in
    gi_ = repo.get_class("netqasm.lang.ir", "GenericInstr")
    gm_ = ev.enum_members(gi_)
    exc_globals = {"_REPLACE_CONSTANTS_EXCEPTION": [(EnumMember(gi_.qualname, a_, gm_[a_]), b_) for a_, b_ in sorted(c03.exception_table(ctx))]}
    for fname, (fc, core, spec) in sorted(I.flavours(repo).items()):
        for c in core + spec:
            ops = I.operands_attrs(repo, c)
            if ops is None:
                continue
            anns = {n_: ann for n_, ann, k_ in I.operand_fields(repo, c)}
            reals = [repo.property_alias(c, a_) or a_ for a_ in ops]
            types = [I.ann_types(anns.get(r_)) for r_ in reals]
            # 32-bit immediates: from the struct the class serialises into
            wide = set()
            so = I.shape_owner(repo, c, "serialize")
            if so is not None:
                try:
                    ser = I.analyse_serialize(repo, so, so.methods["serialize"])
                    if ser.struct is not None:
                        ft = I.struct_field_types(ev, ser.struct)
                        for fld, (t_, bits) in ft.items():
                            if getattr(t_, "size", 0) >= 4 and bits is None and fld in reals:
                                wide.add(fld)
                except (AnalysisError, Unknown):
                    pass
            n_cls += 1
            mn = I.field_default(repo, ev, c, "mnemonic")
            bad = None
            done = set()
            for variant in (0, 1, 2):
                vals = {r_: value_of(t_, variant, i_, r_ in wide) for i_, (r_, t_) in enumerate(zip(reals, types))}
                if any(v is None for v in vals.values()):
                    bad = bad or f"operand types {types} outside the enumerated kinds"
                    break
                key = repr({k_: plain(v_) for k_, v_ in vals.items()})
                if key in done:
                    continue
                done.add(key)
                n_inst += 1
                sc = C.Scenario()
                sc.plain_registers, sc.max_depth, sc.run_constructors, sc.strict_text = True, 40, True, True
                sc.globals = exc_globals
                inst = C.Obj(c, dict(vals, lineno=None))
                text = None
                try:
                    text = C.Interp(repo, ev, sc, None).method(inst, "__str__", [], {}, None)
                    if not isinstance(text, str):
                        bad = bad or f"str(instruction) is {text!r}"
                        continue
                    if fname not in flav_objs:
                        flav_objs[fname] = C.Interp(repo, ev, sc, None).construct(fc, [], {}, None)
                    out = C.Interp(repo, ev, sc, None).call_function(tm, parse, ["# NETQASM 0.0\n# APPID 0\n" + text + "\n"], {"flavour": flav_objs[fname]})
                except C.EvalRaise as ex_:
                    bad = bad or f"`{text if isinstance(text, str) else '?'}` does not parse back: {ex_}"
                    continue
                ins = out.fields.get("_instructions", out.fields.get("instructions")) if isinstance(out, C.Obj) else None
                if not isinstance(ins, list) or len(ins) != 1 or not isinstance(ins[0], C.Obj) or ins[0].cls is not c:
                    bad = bad or f"`{text}` parses back as {ins!r}"[:300]
                    continue
                got = {r_: plain(ins[0].fields.get(r_)) for r_ in reals}
                want = {r_: plain(v_) for r_, v_ in vals.items()}
                if got != want:
                    diff = next(r_ for r_ in reals if got[r_] != want[r_])
                    bad = bad or f"`{text}` parses back with {diff} = {got[diff]!r}, printed from {want[diff]!r}"
            ctx.check(rule, f"{fname}:{mn}:printed-line-parses-back", bad is None, f"{fname} {c.name}: {bad}", c.loc(), sample={"flavour": fname, "mnemonic": mn}, trivial=(n_cls % 4 != 1))
    ctx.anchor(rule, "instruction classes printed and parsed back", n_cls, 100)
    ctx.check(rule, "instances-round-tripped", n_inst >= 2 * n_cls, f"only {n_inst} instances for {n_cls} classes", "", sample={"instances": n_inst}, trivial=True)


def check_symbols(ctx):
    """C17.Y - operand text in both directions, decided by execution: the operand classes' own __str__ must give the text the
    delimiters of Symbols prescribe (`@7`, `@7[R3]`, `@0[R0:R15]`, `Q15`, `-5`, `{name}`), and the assembler's operand parser must
    turn exactly such text - also with negative integers and literal indices - back into the equal operand.  A few facts about the
    delimiters themselves are read from the tables (distinct non-alphanumeric characters, single-letter bank names)."""
    from .. import circuit as C
    from .. import codec
    repo, ev = ctx.repo, ctx.ev
    tm = repo.module(TEXT_MOD)
    sym = repo.get_class("netqasm.lang.symbols", "Symbols")

    def S(name):
        la = repo.lookup_attr(sym, name)
        if la is None:
            raise AnalysisError(f"Symbols.{name} not found")
        return ev.eval(la[2], la[0].module)

    addr_start, br, sl = S("ADDRESS_START"), S("INDEX_BRACKETS"), S("SLICE_DELIM")
    w = codec.World(ctx)
    plain = codec.plain
    tcls = w.K["Template"]
    R, A_, E, SL = w.reg, w.addr, w.entry, w.slc
    cases = [("Register", R("Q", 15), "Q15"), ("Register", R("R", 0), "R0"), ("Register", R("M", 7), "M7"), ("Register", R("C", 3), "C3"),
             ("Immediate", w.imm(5), "5"), ("Immediate", w.imm(-5), "-5"), ("Immediate", w.imm(0), "0"),
             ("Address", A_(7), f"{addr_start}7"), ("Address", A_(0), f"{addr_start}0"), ("Address", A_(-3), f"{addr_start}-3"), ("Address", A_(70000), f"{addr_start}70000"),
             ("ArrayEntry", E(7, R("R", 3)), f"{addr_start}7{br[0]}R3{br[1]}"), ("ArrayEntry", E(-1, R("Q", 15)), f"{addr_start}-1{br[0]}Q15{br[1]}"),
             ("ArraySlice", SL(0, R("R", 0), R("R", 15)), f"{addr_start}0{br[0]}R0{sl}R15{br[1]}"), ("ArraySlice", SL(12, R("C", 1), R("M", 2)), f"{addr_start}12{br[0]}C1{sl}M2{br[1]}"),
             ]
    # (a Template prints as its bare name and is written `{name}` in source: a templated instruction does not round-trip through text.
    #  Templates are outside the property's quantifier - operand valuations - so this is noted, not judged.)
    sc = w.scenario()
    po = tm.functions.get("_parse_operand")
    if po is None:
        raise AnalysisError("text._parse_operand not found")
    ctx.fn("text._parse_operand")
    printed_bad, parsed_bad = {}, {}
    try:
        for kind, op, text in cases:
            ctx.fn(f"operand.{kind}.__str__")
            try:
                got = C.Interp(repo, ev, sc, None).method(op, "__str__", [], {}, None)
            except C.EvalRaise as ex_:
                got = f"raises {ex_}"
            if got != text:
                printed_bad.setdefault(kind, f"{kind} {plain(op)} prints as {got!r}; the delimiters prescribe {text!r}")
            if kind == "Immediate":
                want = op.fields["value"]  # the parser leaves a bare integer; from_operands wraps it
            else:
                want = plain(op)
            try:
                back = C.Interp(repo, ev, sc, None).call_function(tm, po, [text], {})
                backp = back if isinstance(back, int) and not isinstance(back, bool) else plain(back)
            except C.EvalRaise as ex_:
                backp = f"raises {ex_}"
            if backp != want:
                parsed_bad.setdefault(kind, f"`{text}` parses as {backp!r}, expected {want!r}")
        # what only a hand-written program contains: literal indices and bounds
        for text, want in ((f"{addr_start}7{br[0]}2{br[1]}", ("ArrayEntry", ("address", plain(A_(7))), ("index", 2))),
                           (f"{addr_start}7{br[0]}2{sl}5{br[1]}", ("ArraySlice", ("address", plain(A_(7))), ("start", 2), ("stop", 5)))):
            try:
                back = plain(C.Interp(repo, ev, sc, None).call_function(tm, po, [text], {}))
            except C.EvalRaise as ex_:
                back = f"raises {ex_}"
            if back != want:
                parsed_bad.setdefault("literal-index", f"`{text}` parses as {back!r}, expected {want!r}")
    except AnalysisError as ex_:
        ctx.error("C17.Y", f"operand printers / parsers cannot be evaluated: {ex_}")
        printed_bad = parsed_bad = None
    if printed_bad is not None:
        for kind in ("Register", "Immediate", "Address", "ArrayEntry", "ArraySlice"):
            ctx.check("C17.Y", f"{kind}.__str__", kind not in printed_bad, f"{printed_bad.get(kind)}", repo.get_class(I.OPERAND_MOD, kind).loc(), sample={"operand": kind})
            ctx.check("C17.Y", f"parser:{kind}:printed-text-parses-back", kind not in parsed_bad, f"{parsed_bad.get(kind)}: a printed operand is not accepted back as the operand it was", repo.loc(tm, po), sample={"operand": kind})
        ctx.check("C17.Y", "parser:literal-index-and-bounds", "literal-index" not in parsed_bad, f"{parsed_bad.get('literal-index')}", repo.loc(tm, po), trivial=True)
    # symbols must be distinct single characters that cannot occur in numbers / register names
    vals = {"ADDRESS_START": addr_start, "INDEX_BRACKETS[0]": br[0], "INDEX_BRACKETS[1]": br[1], "SLICE_DELIM": sl}
    ok = len(set(vals.values())) == 4 and all(isinstance(v, str) and len(v) == 1 and not v.isalnum() and v not in " -_" for v in vals.values())
    ctx.check("C17.Y", "Symbols:operand-delimiters-distinct", ok and len(br) == 2, f"operand delimiters {vals} are not four distinct non-alphanumeric characters", sym.loc(), sample=vals)
    cs = S("COMMENT_START")
    ctx.check("C17.Y", "Symbols:COMMENT_START-not-in-operands", all(v not in cs for v in vals.values()) or len(cs) > 1 and cs not in (addr_start + br + sl), f"comment marker {cs!r} collides with operand delimiters", sym.loc(), trivial=True)
    rn = repo.get_class(I.ENC_MOD, "RegisterName")
    names = list(ev.enum_members(rn))
    ctx.check("C17.Y", "RegisterName:single-character-banks", all(len(n) == 1 and n.isalpha() for n in names) and len(set(names)) == len(names), f"register bank names {names} are not single letters; parse_register reads register[0]", rn.loc())


def check_mnemonics(ctx):
    repo, ev = ctx.repo, ctx.ev
    gi = repo.get_class("netqasm.lang.ir", "GenericInstr")
    members = ev.enum_members(gi)
    k = 0
    for fname, (fc, core, spec) in sorted(I.flavours(repo).items()):
        for c in core + spec:
            mn = I.field_default(repo, ev, c, "mnemonic")
            k += 1
            ctx.check("C17.N", f"{fname}:{mn}", isinstance(mn, str) and mn.upper() in members and mn == mn.lower() and " " not in mn,
                      f"{fname}: printed mnemonic {mn!r} ({c.name}) is not a lower-case GenericInstr name; string_to_instruction rejects it", c.loc(), sample={"flavour": fname, "mnemonic": mn} if k % 12 == 0 else None)
    tm = repo.module(TEXT_MOD)
    cs = tm.functions.get("_create_subroutine")
    ok = cs is not None and any(isinstance(n, ast.Call) and A.call_name(n) == "string_to_instruction" for n in ast.walk(cs))
    ctx.check("C17.N", "parser:_create_subroutine-uses-string_to_instruction", ok, "_create_subroutine does not look the mnemonic up with string_to_instruction", repo.loc(tm, cs) if cs else "")
    irm = repo.module("netqasm.lang.ir")
    tab = irm.assigns.get("_STRING_TO_INSTRUCTION")
    ok = isinstance(tab, ast.DictComp) and isinstance(tab.key, ast.Call) and A.call_name(tab.key) == "instruction_to_string" and A.norm(tab.generators[0].iter) == "GenericInstr"
    ctx.check("C17.N", "ir._STRING_TO_INSTRUCTION:all-members", bool(ok), "_STRING_TO_INSTRUCTION is not built from every GenericInstr member", repo.loc(irm, tab) if tab is not None else "")


def run(ctx):
    check_printers(ctx)
    check_from_operands(ctx)
    check_mnemonics(ctx)
    check_symbols(ctx)
    try:
        check_round_trip(ctx, "C17.T")
    except AnalysisError as ex_:
        ctx.error("C17.T", f"printer / parser cannot be evaluated: {ex_}")
    c03.check_exception_table(ctx, "C17.X")
    # the parser resolves a mnemonic through the flavour's own name table
    from . import c01
    c01.check_flavour_tables(ctx, "C17.N")


B = "netqasm/lang/instr/base.py"
OP = "netqasm/lang/operand.py"
SEEDS = [
    dict(id="c17-register-index-first-digit", file="netqasm/lang/parsing/text.py", expect="C17.T", construct="printed-line-parses-back", old="    value = _parse_constant(register[1:])\n", new="    value = _parse_constant(register[1:2])\n"),
    dict(id="c17-negative-constants-rejected", file="netqasm/util/string.py", expect="C17.T", construct="printed-line-parses-back", old="    if number.startswith(\"-\"):\n        number = number[1:]\n    return len(number) > 0", new="    return len(number) > 0"),
    dict(id="c17-slice-printed-stop-first", file=OP, expect="C17.T", construct="printed-line-parses-back", old="{self.start}{Symbols.SLICE_DELIM}{self.stop}", new="{self.stop}{Symbols.SLICE_DELIM}{self.start}"),
    dict(id="c17-rotation-numerator-reduced", file="netqasm/lang/instr/core.py", expect="C17.O", construct="operands-reach-the-constructor-unchanged",
         old="        return cls(reg=reg, imm0=imm0, imm1=imm1)  # type: ignore",
         new="        if isinstance(imm0, Immediate) and isinstance(imm1, Immediate):\n            imm0 = Immediate(value=imm0.value % 2 ** (imm1.value + 1))\n        return cls(reg=reg, imm0=imm0, imm1=imm1)  # type: ignore"),
    dict(id="c17-rotation-ctor-arg-masked", file="netqasm/lang/instr/core.py", expect="C17.O", construct="operands-reach-the-constructor-unchanged",
         old="        return cls(reg=reg, imm0=imm0, imm1=imm1)  # type: ignore", new="        return cls(reg=reg, imm0=imm0, imm1=Immediate(value=imm1.value & 0x7F))  # type: ignore"),
    dict(id="c17-print-swapped", file=B, expect="C17.P", construct="RegEntryInstruction", old='return f"{self.mnemonic} {str(self.reg)} {str(self.entry)}"', new='return f"{self.mnemonic} {str(self.entry)} {str(self.reg)}"'),
    dict(id="c17-print-comma", file=B, expect="C17.P", construct="RegRegInstruction", old='return f"{self.mnemonic} {str(self.reg0)} {str(self.reg1)}"', new='return f"{self.mnemonic} {str(self.reg0)}, {str(self.reg1)}"'),
    dict(id="c17-print-missing", file=B, expect="C17.P", construct="RegRegImm4Instruction", old='            f"{str(self.imm1)} {str(self.imm2)} {str(self.imm3)}"', new='            f"{str(self.imm1)} {str(self.imm2)}"'),
    dict(id="c17-fromops-swapped", file=B, expect="C17.O", construct="RegRegRegInstruction",
         old="        reg0, reg1, reg2 = operands\n        assert isinstance(reg0, Register)\n        assert isinstance(reg1, Register)\n        assert isinstance(reg2, Register)\n        return cls(reg0=reg0, reg1=reg1, reg2=reg2)",
         new="        reg0, reg2, reg1 = operands\n        assert isinstance(reg0, Register)\n        assert isinstance(reg1, Register)\n        assert isinstance(reg2, Register)\n        return cls(reg0=reg0, reg1=reg1, reg2=reg2)"),
    dict(id="c17-slice-delim", file=OP, expect="C17", construct="", old="{self.start}{Symbols.SLICE_DELIM}{self.stop}", new="{self.start}..{self.stop}"),
    dict(id="c17-entry-brackets", file=OP, expect="C17", construct="", old='index = f"{Symbols.INDEX_BRACKETS[0]}{self.index}{Symbols.INDEX_BRACKETS[1]}"\n        return f"{self.address}{index}"\n\n    @property\n    def cstruct(self):\n        self._assert_types()\n        return encoding.ArrayEntry(',
         new='index = f"({self.index})"\n        return f"{self.address}{index}"\n\n    @property\n    def cstruct(self):\n        self._assert_types()\n        return encoding.ArrayEntry('),
    dict(id="c17-register-print", file=OP, expect="C17", construct="", old='return f"{self.name.name}{self.index}"', new='return f"{self.name.name}_{self.index}"'),
    dict(id="c17-mnemonic", file="netqasm/lang/instr/core.py", expect="C17.N", construct="retreg", old='mnemonic: str = "ret_reg"', new='mnemonic: str = "retreg"'),
    dict(id="c17-parser-literal-delim", file="netqasm/lang/parsing/text.py", expect="C17", construct="",
         old="    if Symbols.SLICE_DELIM in index:\n        start, stop = index.split(Symbols.SLICE_DELIM)", new="    if \";\" in index:\n        start, stop = index.split(\";\")"),
    dict(id="c17-address-isdigit", file="netqasm/lang/parsing/text.py", expect="C17", construct="", old="    value = _parse_value(base_address.lstrip(Symbols.ADDRESS_START))\n    if not isinstance(value, int):\n        raise TypeError(f\"Address should be an int, not a {type(value)}\")\n    return value",
         new="    value = base_address[1:]\n    if not value.isdigit():\n        raise TypeError(\"Address should be an int\")\n    return int(value)"),
    dict(id="c17-exception", file="netqasm/lang/parsing/text.py", expect="C17.X", construct="set:pos1", old="    (GenericInstr.SET, 1),\n", new=""),
]
BENIGN = [
    dict(id="c17-benign-no-str", file=B, old='return f"{self.mnemonic} {str(self.reg0)} {str(self.reg1)}"', new='return f"{self.mnemonic} {self.reg0} {self.reg1}"'),
]
