"""C07 — NV gate decompositions equal the vanilla gates they replace.

T-sem on circuits *read from* sdk/transpile.py: the transpiler's own functions
are interpreted abstractly (nqsa/circuit.py) for every accepted gate and every
electron/carbon placement; the emitted NV instruction list is multiplied out
with the checker's operator semantics and compared with the vanilla operator
(x) identity on a borrowed electron.  Published matrices (to_matrix,
to_matrix_target_only, util/quantum_gates tables) are evaluated from their
source expressions and compared with the operator the mnemonic denotes.
"""
from __future__ import annotations

import ast
import math
from typing import Any, Dict, List, Optional, Tuple

import numpy as np

from .. import astutil as A
from .. import circuit as C
from .. import instrs as I
from ..model import AnalysisError, Unknown, dotted, src

TECHNIQUE = "abstract interpretation of the transpiler's gate-list builders read from the AST + checker-side operator semantics (constant-circuit evaluation; static analysis, no repo code executed)"
ENGINES = ["model", "circuit", "instrs"]
EXPLANATION = (
    "Every arm of the NV transpiler that maps a vanilla gate is interpreted symbolically from its syntax tree (list literals, "
    "helper calls inlined, register aliasing, the debug flag both ways, hardware mode both ways); the resulting (mnemonic, "
    "qubits, n, d) list is multiplied out as R_axis(n*pi/2^d) / controlled rotations on 1-3 qubits and compared up to global phase "
    "with X, Y, Z, H, K, S, T, CNOT and CPHASE for the electron-carbon, carbon-electron and carbon-carbon placements (the latter "
    "(x) identity on the electron), MOV as state transfer onto |0>; rot_x/y/z must forward numerator and denominator unchanged "
    "(object identity => all 256x256 angles) and the hardware normalisation table is enumerated for all 256 x 5 angles. All "
    "to_matrix / to_matrix_target_only bodies and the util/quantum_gates tables are evaluated from source and compared with the "
    "operator of their mnemonic."
)
LEVEL_TEXT = (
    "Static analysis, full for the listed gates: all gate arms, placements, both debug settings and the complete hardware angle "
    "table are decided exactly (up to 1e-9) from the source; the suite's own equivalence test is `assert True  # TODO`."
)
LEVEL_NOTE = "trusts the checker's operator semantics (validated against the pinned tree's X,Y,Z,H,K,CNOT,CPHASE,SWAP,MOV circuits), scipy's expm inside get_rotation_matrix (only its generator is checked); bounds <= 3 qubits"
ASSUMPTIONS = [LEVEL_NOTE]
TR = "netqasm.sdk.transpile"
VAN = "netqasm.lang.instr.vanilla"
NV = "netqasm.lang.instr.nv"
QG = "netqasm.util.quantum_gates"
GRID = [(0, 0), (1, 0), (1, 1), (3, 2), (8, 4), (16, 4), (24, 4), (5, 3), (255, 7), (31, 4)]


_PREFIX = ["C07"]


def _rid(letter: str) -> str:
    """rule id of a decomposition rule: C07.<letter>, or the id under which another property evaluates the same rule"""
    return f"{_PREFIX[0]}.{letter}" if _PREFIX[0] == "C07" else _PREFIX[0]


def overrides():
    return {
        "get_rotation_matrix": lambda axis, angle: C.rot_vec(axis, angle),
        "get_controlled_rotation_matrix": lambda axis, angle: C.crot_vec(axis, angle),
    }


def transpiler(ctx):
    return ctx.repo.get_class(TR, "NVSubroutineTranspiler")


def new_self(ctx) -> C.Obj:
    """the transpiler object with the constant-initialised attributes of its __init__ chain"""
    repo = ctx.repo
    T = transpiler(ctx)
    fields: Dict[str, Any] = {}
    for k in reversed(repo.mro(T)):
        init = k.methods.get("__init__")
        if init is None:
            continue
        for n in ast.walk(init):
            tgt = val = None
            if isinstance(n, ast.Assign) and len(n.targets) == 1 and A.is_self_attr(n.targets[0]):
                tgt, val = n.targets[0].attr, n.value
            elif isinstance(n, ast.AnnAssign) and A.is_self_attr(n.target) and n.value is not None:
                tgt, val = n.target.attr, n.value
            if tgt is None:
                continue
            if isinstance(val, ast.Constant):
                fields[tgt] = val.value
            elif isinstance(val, ast.Call) and dotted(val.func) in ("set", "dict", "list") and not val.args:
                fields[tgt] = {"set": set, "dict": dict, "list": list}[dotted(val.func)]()
            elif isinstance(val, (ast.Dict, ast.List, ast.Set)) and not getattr(val, "elts", getattr(val, "keys", [])):
                fields[tgt] = {} if isinstance(val, ast.Dict) else ([] if isinstance(val, ast.List) else set())
    fields.pop("_debug", None)
    return C.Obj(T, fields, "self")


def run_handler(ctx, handler: str, instr: C.Obj, sc: C.Scenario, selfo: C.Obj = None):
    repo, ev = ctx.repo, ctx.ev
    T = transpiler(ctx)
    it = C.Interp(repo, ev, sc, T)
    r = repo.lookup(T, handler)
    if r is None:
        raise AnalysisError(f"NVSubroutineTranspiler.{handler} not found")
    ctx.fn(f"NVSubroutineTranspiler.{handler}")
    if selfo is None:
        selfo = new_self(ctx)
    return it.call_function(r[0].module, r[1], [instr], {}, self_obj=selfo)


def vanilla_classes(ctx):
    repo = ctx.repo
    fl = I.flavours(repo)
    if "VanillaFlavour" not in fl:
        raise AnalysisError("VanillaFlavour not found")
    core = repo.module(I.CORE_MOD)
    out = {"single": [], "rot": [], "two": []}
    for c in fl["VanillaFlavour"][2]:
        mro = [k.name for k in repo.mro(c)]
        if "SingleQubitInstruction" in mro:
            out["single"].append(c)
        elif "RotationInstruction" in mro:
            out["rot"].append(c)
        elif "TwoQubitInstruction" in mro:
            out["two"].append(c)
    return out


def check_single(ctx, classes):
    repo, ev = ctx.repo, ctx.ev
    accepted = 0
    for c in classes["single"]:
        mn = C.mnemonic_of(repo, ev, c)
        for debug in (False, True):
            q = C.RegSym("q")
            try:
                gates = run_handler(ctx, "_handle_single_qubit_gate", C.Obj(c, {"reg": q, "lineno": None}), C.Scenario(debug=debug))
            except C.EvalRaise as e:
                ctx.note(f"single-qubit gate {mn} is not accepted by the NV transpiler ({e})")
                break
            if debug is False:
                accepted += 1
            if mn not in C.STATIC:
                ctx.error(_rid("G"), f"no reference operator for vanilla gate {mn}")
                break
            try:
                U = C.unitary_of(repo, ev, gates, {id(q): 0}, 1)
            except C.CircuitProblem as e:
                ctx.check(_rid("G"), f"single:{mn}", False, f"the NV expansion of `{mn}`: {e}", c.loc())
                continue
            ok = C.equal_up_to_phase(U, C.STATIC[mn])
            adj = C.equal_up_to_phase(U, C.STATIC[mn].conj().T)
            seq = [(C.mnemonic_of(repo, ev, g.cls), g.fields["imm0"].value, g.fields["imm1"].value) for g in gates if g.cls.name != "DebugInstruction"]
            if debug and not ok:
                continue  # reported for debug=False already
            ctx.check(_rid("G"), f"single:{mn}" + (":debug" if debug else ""), ok,
                      f"the NV expansion of `{mn}` is {seq}, whose product is not {mn.upper()} up to global phase" + (" (it is the adjoint gate)" if adj and not ok else ""),
                      c.loc(), sample={"gate": mn, "expansion": seq, "equal": ok}, trivial=debug)
    ctx.anchor(_rid("G"), "accepted single-qubit gate arms", accepted, 7)


def check_rotations(ctx, classes):
    repo, ev = ctx.repo, ctx.ev
    n_acc = 0
    for c in classes["rot"]:
        mn = C.mnemonic_of(repo, ev, c)
        axis = mn[-1]
        q = C.RegSym("q")
        n_imm, d_imm = C.Imm("N"), C.Imm("D")
        try:
            gates = run_handler(ctx, "_handle_single_qubit_gate", C.Obj(c, {"reg": q, "imm0": n_imm, "imm1": d_imm, "lineno": None}), C.Scenario(hardware=False))
        except C.EvalRaise as e:
            ctx.note(f"rotation {mn} not accepted ({e})")
            continue
        n_acc += 1
        g = [x for x in gates if x.cls.name != "DebugInstruction"]
        ok = len(g) == 1 and C.mnemonic_of(repo, ev, g[0].cls) == mn and g[0].fields.get("imm0") is n_imm and g[0].fields.get("imm1") is d_imm and g[0].fields.get("reg") is q
        ctx.check(_rid("R"), f"rotation:{mn}:forwarded-unchanged", ok,
                  f"`{mn} q N D` is transpiled to {[(C.mnemonic_of(repo, ev, x.cls), x.fields.get('imm0'), x.fields.get('imm1')) for x in g]}; expected the same-axis NV rotation with N and D forwarded unchanged",
                  c.loc(), sample={"rotation": mn, "forwarded": ok})
        # hardware normalisation: complete table d in 0..4, n in 0..255
        bad = None
        unrep = None
        for d in range(5):
            for n in range(256):
                qq = C.RegSym("q")
                try:
                    gs = run_handler(ctx, "_handle_single_qubit_gate", C.Obj(c, {"reg": qq, "imm0": C.Imm(n), "imm1": C.Imm(d), "lineno": None}), C.Scenario(hardware=True))
                except C.EvalRaise as e:
                    bad = bad or (n, d, f"raises {e}")
                    continue
                gs = [x for x in gs if x.cls.name != "DebugInstruction"]
                if len(gs) != 1 or C.mnemonic_of(repo, ev, gs[0].cls) != mn:
                    bad = bad or (n, d, "not a single same-axis rotation")
                    continue
                n2, d2 = gs[0].fields["imm0"].value, gs[0].fields["imm1"].value
                if not (isinstance(n2, int) and isinstance(d2, int) and 0 <= n2 <= 255 and 0 <= d2 <= 255):
                    unrep = unrep or (n, d, n2, d2)
                    continue
                if not C.equal_up_to_phase(C.rot(axis, n2 * math.pi / 2 ** d2), C.rot(axis, n * math.pi / 2 ** d)):
                    bad = bad or (n, d, f"-> ({n2},{d2}) is a different angle")
        ctx.check(_rid("R"), f"rotation:{mn}:hardware-table-same-angle", bad is None,
                  f"hardware angle normalisation of `{mn}`: first failing (n, d) = {bad}", c.loc(), sample={"rotation": mn, "table": "256 x 5 angles", "first_bad": bad})
        ctx.check(_rid("R"), f"rotation:{mn}:hardware-table-encodable", unrep is None,
                  f"hardware angle normalisation of `{mn}` maps (n, d) = {unrep[:2] if unrep else None} to numerator/denominator {unrep[2:] if unrep else None}, which does not fit the 8-bit fields: "
                  f"the rotation cannot be encoded although the angle is valid (it equals a numerator mod 32 over 2^4)", c.loc(), sample={"rotation": mn, "first_unencodable": unrep})
        # denominators > 4 are refused (raise), never silently mis-scaled
        refused = True
        for d in (5, 7, 200):
            try:
                run_handler(ctx, "_handle_single_qubit_gate", C.Obj(c, {"reg": C.RegSym("q"), "imm0": C.Imm(1), "imm1": C.Imm(d), "lineno": None}), C.Scenario(hardware=True))
                refused = False
            except C.EvalRaise:
                pass
        ctx.check(_rid("R"), f"rotation:{mn}:hardware-denominator-above-4-refused", refused, f"hardware mode accepts a denominator exponent above 4 for `{mn}` (it cannot be expressed over 2^4)", c.loc(), trivial=True)
    ctx.anchor(_rid("R"), "accepted rotation arms", n_acc, 3)


def placements(two_mn):
    # (virtual id of reg0, virtual id of reg1)
    return [(0, 1), (1, 0), (1, 2), (2, 1)]


def check_two_qubit(ctx, classes):
    repo, ev = ctx.repo, ctx.ev
    n_maps = 0
    for c in classes["two"]:
        mn = C.mnemonic_of(repo, ev, c)
        if mn == "mov":
            continue
        if mn not in C.STATIC:
            ctx.error(_rid("T"), f"no reference operator for {mn}")
            continue
        for (i0, i1) in placements(mn):
            for debug in (False, True):
                a, b = C.RegSym("a"), C.RegSym("b")
                ids = sorted({0, i0, i1})
                pos = {v: k for k, v in enumerate(ids)}
                sc = C.Scenario(reg_values={id(a): i0, id(b): i1}, debug=debug)
                kind = "electron-carbon" if i0 == 0 else ("carbon-electron" if i1 == 0 else f"carbon{i0}-carbon{i1}")
                selfo = new_self(ctx)
                try:
                    gates = run_handler(ctx, "_handle_two_qubit_gate", C.Obj(c, {"reg0": a, "reg1": b, "lineno": None}), sc, selfo)
                except C.EvalRaise as e:
                    ctx.note(f"{mn} {kind} not accepted ({e})")
                    continue
                if not debug:
                    n_maps += 1
                qmap: Dict[Any, Any] = {id(a): pos[i0], id(b): pos[i1], "__virt__": pos}
                problems: List[str] = []
                try:
                    U = C.unitary_of(repo, ev, gates, qmap, len(ids), electron_pos=pos[0], problems=problems)
                    expect = C.embed(C.STATIC[mn], [pos[i0], pos[i1]], len(ids))
                    ok = C.equal_up_to_phase(U, expect) and not problems
                except C.CircuitProblem as e:
                    ok = False
                    problems.append(str(e))
                if debug and not ok:
                    continue
                ctx.check(_rid("T"), f"two-qubit:{mn}:{kind}" + (":debug" if debug else ""), ok,
                          f"the NV expansion of `{mn}` (control id {i0}, target id {i1}; {len(gates)} instructions) is not {mn.upper()}"
                          + (" (x) identity on the electron: the borrowed electron is not returned to its prior state or the gate is wrong" if len(ids) == 3 else " up to global phase")
                          + (f"; {problems[0]}" if problems else ""),
                          c.loc(), sample={"gate": mn, "placement": kind, "instructions": len(gates), "equal": ok}, trivial=debug)
                if debug:
                    continue
                # the same transpiler object maps a second gate later in the program: in between the program may have written any
                # Q register, so the second expansion must again establish every register it relies on
                a2, b2 = C.RegSym("a2"), C.RegSym("b2")
                sc2 = C.Scenario(reg_values={id(a2): i0, id(b2): i1}, debug=False)
                sc2.fresh = sc.fresh
                try:
                    gates2 = run_handler(ctx, "_handle_two_qubit_gate", C.Obj(c, {"reg0": a2, "reg1": b2, "lineno": None}), sc2, selfo)
                    problems2: List[str] = []
                    U2 = C.unitary_of(repo, ev, gates2, {id(a2): pos[i0], id(b2): pos[i1], "__virt__": pos}, len(ids), electron_pos=pos[0], problems=problems2)
                    ok2 = C.equal_up_to_phase(U2, C.embed(C.STATIC[mn], [pos[i0], pos[i1]], len(ids))) and not problems2
                    why2 = problems2[0] if problems2 else "different operator"
                except C.CircuitProblem as e:
                    ok2, why2 = False, str(e)
                except C.EvalRaise as e:
                    ok2, why2 = False, f"raises {e}"
                ctx.check(_rid("T"), f"two-qubit:{mn}:{kind}:again-on-the-same-transpiler", ok2,
                          f"a second `{mn}` ({kind}) mapped by the same transpiler object is not self-contained: {why2}. Between two gates the program may re-point any Q register, "
                          f"so an expansion that relies on a register set up for an earlier gate acts on the wrong qubit", c.loc(), trivial=(len(ids) < 3))
    ctx.anchor(_rid("T"), "two-qubit gate placements mapped", n_maps, 8)
    # MOV
    movs = [c for c in classes["two"] if C.mnemonic_of(repo, ev, c) == "mov"]
    n_mov = 0
    for c in movs:
        for (i0, i1, label, known) in ((0, 1, "electron->carbon", True), (1, 0, "carbon->electron", True), (0, 1, "electron->carbon (register values unknown at transpile time)", False)):
            a, b = C.RegSym("src"), C.RegSym("dst")
            sc = C.Scenario(reg_values={id(a): i0, id(b): i1} if known else {})
            try:
                gates = run_handler(ctx, "_handle_two_qubit_gate", C.Obj(c, {"reg0": a, "reg1": b, "lineno": None}), sc)
            except C.EvalRaise as e:
                ctx.note(f"mov {label} not accepted ({e})")
                continue
            n_mov += 1
            pos = {0: 0, 1: 1}
            problems: List[str] = []
            U = C.unitary_of(repo, ev, gates, {id(a): pos[i0], id(b): pos[i1], "__virt__": pos}, 2, electron_pos=0, problems=problems)
            worst = 1.0 if not problems else 0.0
            for psi in (np.array([1, 0], complex), np.array([0, 1], complex), np.array([1, 1], complex) / math.sqrt(2), np.array([1, 1j], complex) / math.sqrt(2),
                        np.array([math.cos(0.3), np.exp(0.7j) * math.sin(0.3)], complex)):
                zero = np.array([1, 0], complex)
                vec = np.kron(psi, zero) if pos[i0] == 0 else np.kron(zero, psi)
                out = (U @ vec).reshape(2, 2)  # [qubit0, qubit1]
                # reduced state on the destination
                rho = out.T @ out.conj() if pos[i1] == 1 else out @ out.conj().T
                fid = float(np.real(psi.conj() @ rho @ psi))
                worst = min(worst, fid)
            ctx.check(_rid("M"), f"mov:{label}", worst > 1 - 1e-9,
                      f"`mov` {label}: the emitted circuit applied to |psi>_src |0>_dst leaves the destination with fidelity {worst:.6f} to |psi> (must be 1)", c.loc(),
                      sample={"mov": label, "min_fidelity": round(worst, 9)})
    ctx.anchor(_rid("M"), "mov directions mapped", n_mov, 3)


def eval_matrix(ctx, c, method: str, fields: Dict[str, Any]):
    repo, ev = ctx.repo, ctx.ev
    sc = C.Scenario(overrides=overrides())
    it = C.Interp(repo, ev, sc, None)
    r = repo.lookup(c, method)
    if r is None:
        return None
    if I.is_abstract_method(r[1]):
        return None
    return it.call_function(r[0].module, r[1], [], {}, self_obj=C.Obj(c, dict(fields)))


def check_published(ctx):
    repo, ev = ctx.repo, ctx.ev
    bodies = 0
    for modname in (VAN, NV):
        m = repo.module(modname)
        short = modname.split(".")[-1]
        for c in m.classes.values():
            mn = C.mnemonic_of(repo, ev, c)
            if not mn:
                continue
            for method in ("to_matrix", "to_matrix_target_only"):
                if method not in c.methods:
                    continue
                bodies += 1
                ctx.fn(f"{short}.{c.name}.{method}")
                key = f"{short}.{c.name}.{method}"
                if mn == "mov":
                    ctx.note(f"{key}: mov has no agreed operator (documented as SWAP / None); not compared")
                    continue
                bad = None
                try:
                    if mn in C.STATIC:
                        got = eval_matrix(ctx, c, method, {})
                        if method == "to_matrix":
                            exp = C.STATIC[mn]
                        else:
                            exp = {"cnot": C.PX, "cphase": C.PZ}.get(mn)
                        if exp is None:
                            ctx.error("C07.P", f"{key}: no reference for target-only matrix of {mn}")
                            continue
                        if not isinstance(got, np.ndarray) or got.shape != exp.shape or not np.allclose(got, exp, atol=1e-9):
                            bad = ("static", None)
                    elif mn.startswith("rot_") or mn.startswith("crot_"):
                        axis = mn[-1]
                        for (n, d) in GRID:
                            got = eval_matrix(ctx, c, method, {"imm0": C.Imm(n), "imm1": C.Imm(d)})
                            th = n * math.pi / 2 ** d
                            if mn.startswith("rot_") or method == "to_matrix_target_only":
                                exp = C.rot(axis, th)
                            else:
                                exp = C.crot_vec(C.AXIS[axis], th)
                            if not isinstance(got, np.ndarray) or got.shape != exp.shape or not np.allclose(got, exp, atol=1e-9):
                                bad = ("angle", (n, d))
                                break
                    else:
                        ctx.error("C07.P", f"{key}: mnemonic {mn} has no reference operator")
                        continue
                except C.EvalRaise as e:
                    bad = ("raises", str(e))
                ctx.check("C07.P", key, bad is None,
                          f"{key}: the published matrix is not the operator `{mn}` denotes" + (f" (first differing angle n, d = {bad[1]})" if bad and bad[0] == "angle" else f" ({bad})" if bad else ""),
                          c.loc(c.methods[method]), sample={"matrix": key, "mnemonic": mn, "ok": bad is None})
    ctx.anchor("C07.P", "published matrix bodies", bodies, 27)
    # util/quantum_gates.py
    m = repo.module(QG)
    sc = C.Scenario()
    it = C.Interp(repo, ev, sc, None)
    tab = m.assigns.get("STATIC_QUBIT_GATE_TO_MATRIX")
    if tab is None or not isinstance(tab, ast.Dict):
        raise AnalysisError("quantum_gates.STATIC_QUBIT_GATE_TO_MATRIX not found")
    n_t = 0
    for k, v in zip(tab.keys, tab.values):
        n_t += 1
        name = dotted(k).split(".")[-1].lower()
        try:
            got = it.eval(v, {}, m)
        except AnalysisError as e:
            ctx.error("C07.P", f"quantum_gates table entry {name}: {e}")
            continue
        exp = C.STATIC.get(name)
        ok = exp is not None and isinstance(got, np.ndarray) and got.shape == exp.shape and np.allclose(got, exp, atol=1e-9)
        ctx.check("C07.P", f"quantum_gates.STATIC_QUBIT_GATE_TO_MATRIX[{name.upper()}]", bool(ok), f"the table entry for {name.upper()} is not the operator it names", repo.loc(m, v), sample={"table": name})
    ctx.anchor("C07.P", "static gate table entries", n_t, 9)
    # rotation helper: generator sign / Pauli order
    grm = m.functions.get("get_rotation_matrix")
    if grm is None:
        raise AnalysisError("quantum_gates.get_rotation_matrix not found")
    ctx.fn("quantum_gates.get_rotation_matrix")
    expm = [c for c in A.calls_in(grm) if A.call_name(c) == "expm"]
    ok = False
    if len(expm) == 1 and len(expm[0].args) == 1:
        p_axis, p_angle = A.param_names(grm)[:2]
        ok = True
        for ax, vec in C.AXIS.items():
            for th in (0.3, 1.1, -2.0):
                try:
                    gen = it.eval(expm[0].args[0], {p_axis: np.array(vec, dtype=float), p_angle: th}, m)
                except AnalysisError:
                    ok = False
                    break
                if not (isinstance(gen, np.ndarray) and np.allclose(gen, -1j * th / 2 * C.PAULI[ax], atol=1e-12)):
                    ok = False
    ctx.check("C07.P", "quantum_gates.get_rotation_matrix:generator", ok, "get_rotation_matrix does not exponentiate -i*angle/2*(axis . (X, Y, Z))", repo.loc(m, grm))
    gcr = m.functions.get("get_controlled_rotation_matrix")
    if gcr is None:
        raise AnalysisError("quantum_gates.get_controlled_rotation_matrix not found")
    ctx.fn("quantum_gates.get_controlled_rotation_matrix")
    sc2 = C.Scenario(overrides={"get_rotation_matrix": lambda axis, angle: C.rot_vec(axis, angle)})
    it2 = C.Interp(repo, ev, sc2, None)
    ok = True
    try:
        for ax, vec in C.AXIS.items():
            for th in (0.4, math.pi / 2, -1.3):
                got = it2.call_function(m, gcr, [vec, th], {})
                if not (isinstance(got, np.ndarray) and np.allclose(got, C.crot_vec(vec, th), atol=1e-9)):
                    ok = False
    except (AnalysisError, C.EvalRaise):
        ok = False
    ctx.check("C07.P", "quantum_gates.get_controlled_rotation_matrix", ok, "get_controlled_rotation_matrix is not |0><0| (x) R(angle) + |1><1| (x) R(-angle)", repo.loc(m, gcr))
    # gate_to_matrix axis table
    gtm = m.functions.get("gate_to_matrix")
    if gtm is not None:
        for n in ast.walk(gtm):
            if isinstance(n, ast.Dict) and n.keys and all(dotted(k) and "ROT_" in dotted(k) for k in n.keys):
                for k, v in zip(n.keys, n.values):
                    ax = dotted(k)[-1].lower()
                    got = ev.try_eval(v, m)
                    ctx.check("C07.P", f"quantum_gates.gate_to_matrix:axis[{dotted(k).split('.')[-1]}]", got == C.AXIS[ax], f"gate_to_matrix uses axis {got} for {dotted(k)}", repo.loc(m, v), trivial=True)


def run(ctx):
    classes = vanilla_classes(ctx)
    check_single(ctx, classes)
    check_rotations(ctx, classes)
    check_two_qubit(ctx, classes)
    check_published(ctx)


def check_decompositions(ctx, rule: str):
    """the gate, rotation, two-qubit and MOV expansions evaluated under another property's rule id (C08: the transpiled program
    leaves the same quantum state only if every expansion implements its gate)"""
    _PREFIX[0] = rule
    try:
        classes = vanilla_classes(ctx)
        check_single(ctx, classes)
        check_rotations(ctx, classes)
        check_two_qubit(ctx, classes)
    finally:
        _PREFIX[0] = "C07"


TP = "netqasm/sdk/transpile.py"
SEEDS = [
    dict(id="c07-orig-s", file=TP, expect="C07.G", construct="single:s", old="                    imm0=Immediate(8),\n                    imm1=Immediate(4),\n                ),\n                nv.RotXInstruction(\n                    lineno=instr.lineno,\n                    reg=instr.reg,\n                    imm0=Immediate(8),\n                    imm1=Immediate(4),\n                ),\n            ]\n        elif isinstance(instr, vanilla.GateTInstruction):",
         new="                    imm0=Immediate(24),\n                    imm1=Immediate(4),\n                ),\n                nv.RotXInstruction(\n                    lineno=instr.lineno,\n                    reg=instr.reg,\n                    imm0=Immediate(8),\n                    imm1=Immediate(4),\n                ),\n            ]\n        elif isinstance(instr, vanilla.GateTInstruction):"),
    dict(id="c07-z-angle", file=TP, expect="C07.G", construct="single:z", old="        elif isinstance(instr, vanilla.GateZInstruction):\n            return [\n                nv.RotXInstruction(\n                    lineno=instr.lineno,\n                    reg=instr.reg,\n                    imm0=Immediate(24),",
         new="        elif isinstance(instr, vanilla.GateZInstruction):\n            return [\n                nv.RotXInstruction(\n                    lineno=instr.lineno,\n                    reg=instr.reg,\n                    imm0=Immediate(8),"),
    dict(id="c07-h-order", file=TP, expect="C07.G", construct="single:h", old="        elif isinstance(instr, vanilla.GateHInstruction):\n            return [\n                nv.RotYInstruction(", new="        elif isinstance(instr, vanilla.GateHInstruction):\n            return [\n                nv.RotZInstruction("),
    dict(id="c07-rot-swapped-nd", file=TP, expect="C07.R", construct="rot_y", old="                nv.RotYInstruction(\n                    lineno=instr.lineno, reg=instr.reg, imm0=imm0, imm1=imm1\n                ),", new="                nv.RotYInstruction(\n                    lineno=instr.lineno, reg=instr.reg, imm0=imm1, imm1=imm0\n                ),"),
    dict(id="c07-rot-wrong-axis", file=TP, expect="C07.R", construct="rot_z", old="                nv.RotZInstruction(\n                    lineno=instr.lineno, reg=instr.reg, imm0=imm0, imm1=imm1\n                ),", new="                nv.RotXInstruction(\n                    lineno=instr.lineno, reg=instr.reg, imm0=imm0, imm1=imm1\n                ),"),
    dict(id="c07-hw-scale", file=TP, expect="C07.R", construct="hardware-table", old="    denom_diff = 4 - instr.angle_denom.value", new="    denom_diff = 3 - instr.angle_denom.value"),
    dict(id="c07-swap-last", file=TP, expect="C07.T", construct="carbon", old="            nv.RotZInstruction(\n                lineno=lineno, reg=carbon, imm0=Immediate(16), imm1=Immediate(4)\n            ),\n        ]\n\n        if self._debug:\n            gates += [DebugInstruction(text=\"end SWAP\")]",
         new="            nv.RotZInstruction(\n                lineno=lineno, reg=carbon, imm0=Immediate(8), imm1=Immediate(4)\n            ),\n        ]\n\n        if self._debug:\n            gates += [DebugInstruction(text=\"end SWAP\")]"),
    dict(id="c07-cc-no-swap-back", file=TP, expect="C07.T", construct="cnot:carbon", old="            + self._map_cnot_electron_carbon(instr)\n            + self.swap(instr.lineno, electron, carbon)\n        )", new="            + self._map_cnot_electron_carbon(instr)\n        )"),
    dict(id="c07-cphase-ce-not-swapped", file=TP, expect="C07.T", construct="cphase:electron-carbon", old="        return [\n            nv.RotYInstruction(\n                lineno=instr.lineno, reg=carbon, imm0=Immediate(8), imm1=Immediate(4)\n            ),\n            nv.ControlledRotXInstruction(\n                lineno=instr.lineno,\n                reg0=electron,\n                reg1=carbon,\n                imm0=Immediate(8),\n                imm1=Immediate(4),\n            ),\n            nv.RotZInstruction(\n                lineno=instr.lineno, reg=electron, imm0=Immediate(24), imm1=Immediate(4)\n            ),\n            nv.RotXInstruction(\n                lineno=instr.lineno, reg=carbon, imm0=Immediate(24), imm1=Immediate(4)\n            ),\n            nv.RotYInstruction(\n                lineno=instr.lineno, reg=carbon, imm0=Immediate(24), imm1=Immediate(4)\n            ),\n        ]\n\n    def _map_cphase_carbon_carbon(",
         new="        return [\n            nv.RotYInstruction(\n                lineno=instr.lineno, reg=carbon, imm0=Immediate(8), imm1=Immediate(4)\n            ),\n            nv.ControlledRotXInstruction(\n                lineno=instr.lineno,\n                reg0=electron,\n                reg1=carbon,\n                imm0=Immediate(8),\n                imm1=Immediate(4),\n            ),\n            nv.RotZInstruction(\n                lineno=instr.lineno, reg=electron, imm0=Immediate(24), imm1=Immediate(4)\n            ),\n            nv.RotXInstruction(\n                lineno=instr.lineno, reg=carbon, imm0=Immediate(24), imm1=Immediate(4)\n            ),\n            nv.RotYInstruction(\n                lineno=instr.lineno, reg=carbon, imm0=Immediate(8), imm1=Immediate(4)\n            ),\n        ]\n\n    def _map_cphase_carbon_carbon("),
    dict(id="c07-cnot-ce-dispatch", file=TP, expect="C07.T", construct="cnot:carbon-electron", old="            elif qubit_id1 == 0:\n                return self._map_cnot_carbon_electron(instr)", new="            elif qubit_id1 == 0:\n                return self._map_cnot_electron_carbon(instr)"),
    dict(id="c07-mov-ce", file=TP, expect="C07.M", construct="carbon->electron", old="            nv.RotZInstruction(\n                lineno=instr.lineno, reg=electron, imm0=Immediate(24), imm1=Immediate(4)\n            ),\n        ]\n\n    def _handle_two_qubit_gate(", new="            nv.RotZInstruction(\n                lineno=instr.lineno, reg=carbon, imm0=Immediate(24), imm1=Immediate(4)\n            ),\n        ]\n\n    def _handle_two_qubit_gate("),
    dict(id="c07-matrix-y", file="netqasm/lang/instr/vanilla.py", expect="C07.P", construct="vanilla.GateYInstruction", old="        return np.array([[0, -1j], [1j, 0]])", new="        return np.array([[0, 1j], [-1j, 0]])"),
    dict(id="c07-orig-croty-axis", file="netqasm/lang/instr/nv.py", expect="C07.P", construct="nv.ControlledRotYInstruction.to_matrix", old="class ControlledRotYInstruction(core.ControlledRotationInstruction):\n    id: int = 31\n    mnemonic: str = \"crot_y\"\n\n    def to_matrix(self) -> np.ndarray:\n        axis = [0, 1, 0]", new="class ControlledRotYInstruction(core.ControlledRotationInstruction):\n    id: int = 31\n    mnemonic: str = \"crot_y\"\n\n    def to_matrix(self) -> np.ndarray:\n        axis = [1, 0, 0]"),
    dict(id="c07-table-s", file="netqasm/util/quantum_gates.py", expect="C07.P", construct="STATIC_QUBIT_GATE_TO_MATRIX[S]", old="S = np.array([[1, 0], [0, 1j]])", new="S = np.array([[1, 0], [0, -1j]])"),
    dict(id="c07-rot-sign", file="netqasm/util/quantum_gates.py", expect="C07.P", construct="generator", old="linalg.expm(-1j * angle / 2 *", new="linalg.expm(1j * angle / 2 *"),
    dict(id="c07-cached-electron", expect="C07.T", construct="again-on-the-same-transpiler",
         edits=[(TP, "        self._register_values: Dict[Register, Immediate] = dict()\n", "        self._register_values: Dict[Register, Immediate] = dict()\n        self._electron_register = None\n"),
                (TP, "        electron = self.get_unused_register()\n        carbon = instr.reg0\n        set_electron = core.SetInstruction(\n            lineno=instr.lineno, reg=electron, imm=Immediate(0)\n        )\n        instr.reg0 = electron\n\n        result: List[NetQASMInstruction] = [set_electron]\n        result += (\n            self.swap(instr.lineno, electron, carbon)\n            + self._map_cnot_electron_carbon(instr)",
                      "        result: List[NetQASMInstruction] = []\n        if self._electron_register is None:\n            self._electron_register = self.get_unused_register()\n            self._used_registers.add(self._electron_register)\n            result = [core.SetInstruction(lineno=instr.lineno, reg=self._electron_register, imm=Immediate(0))]\n        electron = self._electron_register\n        carbon = instr.reg0\n        instr.reg0 = electron\n\n        result += (\n            self.swap(instr.lineno, electron, carbon)\n            + self._map_cnot_electron_carbon(instr)")]),
    dict(id="c07-orig-t", file=TP, expect="C07.G", construct="single:t", old="                    imm0=Immediate(4),\n                    imm1=Immediate(4),", new="                    imm0=Immediate(28),\n                    imm1=Immediate(4),"),
    dict(id="c07-orig-hw-unencodable", file=TP, expect="C07.R", construct="hardware-table-encodable", old="    angle_num = (instr.angle_num.value * (2**denom_diff)) % 32", new="    angle_num = instr.angle_num.value * (2**denom_diff)"),
    dict(id="c07-hw-mod-16", file=TP, expect="C07.R", construct="hardware-table-same-angle", old="    angle_num = (instr.angle_num.value * (2**denom_diff)) % 32", new="    angle_num = (instr.angle_num.value * (2**denom_diff)) % 24"),
]
BENIGN = [
    dict(id="c07-benign-equivalent-z", file=TP, old="        elif isinstance(instr, vanilla.GateZInstruction):\n            return [\n                nv.RotXInstruction(\n                    lineno=instr.lineno,\n                    reg=instr.reg,\n                    imm0=Immediate(24),\n                    imm1=Immediate(4),\n                ),\n                nv.RotYInstruction(\n                    lineno=instr.lineno,\n                    reg=instr.reg,\n                    imm0=Immediate(16),\n                    imm1=Immediate(4),\n                ),\n                nv.RotXInstruction(\n                    lineno=instr.lineno,\n                    reg=instr.reg,\n                    imm0=Immediate(8),\n                    imm1=Immediate(4),\n                ),\n            ]",
         new="        elif isinstance(instr, vanilla.GateZInstruction):\n            return [\n                nv.RotZInstruction(\n                    lineno=instr.lineno,\n                    reg=instr.reg,\n                    imm0=Immediate(16),\n                    imm1=Immediate(4),\n                ),\n            ]"),
]
