"""T-dom helpers: structural dominators of a statement, raising guards,
decision of one-variable range predicates by breakpoint probing."""
from __future__ import annotations

import ast
import copy
from typing import List, Optional, Tuple

from . import astutil as A
from .model import ConstEval, Unknown, dotted, src


def path_to(fn, target) -> Optional[List[Tuple[list, int]]]:
    """list of (block, index) from the function body down to the statement containing `target`"""

    def contains(st, t):
        return any(n is t for n in ast.walk(st))

    def rec(block):
        for i, st in enumerate(block):
            if not contains(st, target):
                continue
            here = [(block, i)]
            for fld in ("body", "orelse", "finalbody"):
                sub = getattr(st, fld, None)
                if isinstance(sub, list) and sub and isinstance(sub[0], ast.stmt):
                    r = rec(sub)
                    if r is not None:
                        return here + r
            for h in getattr(st, "handlers", []) or []:
                r = rec(h.body)
                if r is not None:
                    return here + r
            return here
        return None

    return rec(fn.body)


def dominating_stmts(fn, target) -> List[ast.stmt]:
    """Statements that execute before `target` on every path reaching it:
    earlier statements of the same block and of every enclosing block.
    (Sound for structured code: an earlier sibling statement either completed
    normally or left the function.)"""
    p = path_to(fn, target)
    if p is None:
        return []
    out = []
    for block, idx in p:
        out.extend(block[:idx])
    return out


def enclosing_tests(fn, target) -> List[Tuple[ast.AST, bool]]:
    """(test, polarity) of the if/while statements enclosing target"""
    p = path_to(fn, target)
    out = []
    if p is None:
        return out
    for k, (block, idx) in enumerate(p[:-1]):
        st = block[idx]
        nxt_block = p[k + 1][0]
        if isinstance(st, (ast.If, ast.While)):
            if nxt_block is st.body:
                out.append((st.test, True))
            elif nxt_block is st.orelse:
                out.append((st.test, False))
    return out


def always_raises(body) -> bool:
    if not body:
        return False
    last = body[-1]
    if isinstance(last, ast.Raise):
        return True
    if isinstance(last, ast.If) and last.orelse:
        return always_raises(last.body) and always_raises(last.orelse)
    return False


def raising_condition(st) -> Optional[ast.AST]:
    """expression that, when true, makes the statement raise; None if st is not a guard"""
    if isinstance(st, ast.If) and always_raises(st.body):
        return st.test
    if isinstance(st, ast.Assert):
        return ast.UnaryOp(op=ast.Not(), operand=st.test)
    return None


class _Replace(ast.NodeTransformer):
    def __init__(self, needle: str, value):
        self.needle = needle
        self.value = value
        self.hits = 0

    def visit(self, node):
        if isinstance(node, ast.expr) and A.norm(node) == self.needle:
            self.hits += 1
            return ast.copy_location(ast.Constant(value=self.value), node)
        return super().visit(node)


def mentions(expr, var_expr) -> bool:
    needle = A.norm(var_expr)
    return any(isinstance(n, ast.expr) and A.norm(n) == needle for n in ast.walk(expr))


PURE_NODES = (ast.BoolOp, ast.And, ast.Or, ast.UnaryOp, ast.Not, ast.USub, ast.UAdd, ast.Compare, ast.Lt, ast.LtE, ast.Gt, ast.GtE,
              ast.Eq, ast.NotEq, ast.Constant, ast.BinOp, ast.Add, ast.Sub, ast.Mult, ast.Pow, ast.LShift, ast.FloorDiv,
              ast.Name, ast.Attribute, ast.Load, ast.Call, ast.In, ast.NotIn, ast.Tuple, ast.List, ast.Is, ast.IsNot)


def range_strength(ev: ConstEval, m, cond, var_expr, lo: int, hi: int) -> Optional[str]:
    """cond: expression that raises when true, over the single integer quantity
    var_expr.  Returns 'full' | 'lower-only' | 'upper-only' | 'none', or None
    when the predicate is outside the decidable fragment (comparisons of the
    variable against constant expressions combined with and/or/not)."""
    needle = A.norm(var_expr)
    # collect constants the variable is compared with: evaluate every sub-expression not mentioning var
    consts = set()
    for n in ast.walk(cond):
        if not isinstance(n, PURE_NODES):
            return None
        if isinstance(n, ast.Compare):
            for e in [n.left] + list(n.comparators):
                if not mentions(e, var_expr):
                    try:
                        v = ev.eval(e, m)
                    except Unknown:
                        return None
                    if v is None:
                        continue
                    if isinstance(v, (int,)) and not isinstance(v, bool):
                        consts.add(v)
                    elif isinstance(v, (list, tuple, set)):
                        consts.update(x for x in v if isinstance(x, int))
                    else:
                        return None
                elif A.norm(e) != needle:
                    return None  # arithmetic on the variable: outside the fragment
    probes = set()
    for c in consts | {lo, hi, 0}:
        probes.update((c - 1, c, c + 1))
    far = max([abs(p) for p in probes] + [1 << 70]) * 4
    probes.update((-far, far))

    def raises(v):
        r = _Replace(needle, v)
        e = r.visit(copy.deepcopy(cond))
        ast.fix_missing_locations(e)
        if r.hits == 0:
            raise Unknown("variable not in predicate")
        return bool(ev.eval(e, m))

    try:
        below = [p for p in sorted(probes) if p < lo]
        above = [p for p in sorted(probes) if p > hi]
        low_ok = all(raises(p) for p in below)
        high_ok = all(raises(p) for p in above)
    except Unknown:
        return None
    if low_ok and high_ok:
        return "full"
    if low_ok:
        return "lower-only"
    if high_ok:
        return "upper-only"
    return "none"


def combine(strengths: List[str]) -> str:
    """strength of the conjunction of several dominating guards"""
    low = any(s in ("full", "lower-only") for s in strengths)
    high = any(s in ("full", "upper-only") for s in strengths)
    if low and high:
        return "full"
    if low:
        return "lower-only"
    if high:
        return "upper-only"
    return "none"
