"""T-dom helpers: structural dominators of a statement, raising guards,
decision of one-variable range predicates by breakpoint probing."""
from __future__ import annotations

import ast
import copy
from typing import Dict, List, Optional, Tuple

from . import astutil as A
from .model import ConstEval, Unknown, dotted, src


def path_to(fn, target) -> Optional[List[Tuple[list, int]]]:
    """list of (block, index) from the function body down to the statement containing `target`"""

    def contains(st, t):
        return any(n is t for n in ast.walk(st))

    def rec(block):
        for i, st in enumerate(block):
            if not contains(st, target):
                continue
            here = [(block, i)]
            for fld in ("body", "orelse", "finalbody"):
                sub = getattr(st, fld, None)
                if isinstance(sub, list) and sub and isinstance(sub[0], ast.stmt):
                    r = rec(sub)
                    if r is not None:
                        return here + r
            for h in getattr(st, "handlers", []) or []:
                r = rec(h.body)
                if r is not None:
                    return here + r
            return here
        return None

    return rec(fn.body)


def dominating_stmts(fn, target) -> List[ast.stmt]:
    """Statements that execute before `target` on every path reaching it:
    earlier statements of the same block and of every enclosing block.
    (Sound for structured code: an earlier sibling statement either completed
    normally or left the function.)"""
    p = path_to(fn, target)
    if p is None:
        return []
    out = []
    for block, idx in p:
        out.extend(block[:idx])
    return out


def enclosing_tests(fn, target) -> List[Tuple[ast.AST, bool]]:
    """(test, polarity) of the if/while statements enclosing target"""
    p = path_to(fn, target)
    out = []
    if p is None:
        return out
    for k, (block, idx) in enumerate(p[:-1]):
        st = block[idx]
        nxt_block = p[k + 1][0]
        if isinstance(st, (ast.If, ast.While)):
            if nxt_block is st.body:
                out.append((st.test, True))
            elif nxt_block is st.orelse:
                out.append((st.test, False))
    return out


def _leaves(body) -> bool:
    """the block cannot fall through to the statement after it"""
    if not body:
        return False
    last = body[-1]
    if isinstance(last, (ast.Return, ast.Raise, ast.Continue, ast.Break)):
        return True
    if isinstance(last, ast.If) and last.orelse:
        return _leaves(last.body) and _leaves(last.orelse)
    return False


def _literal(test, pol) -> Tuple[ast.AST, bool]:
    """canonical literal: `not` and the negative comparison operators (!=, is not, not in) are folded into the polarity"""
    while True:
        if isinstance(test, ast.UnaryOp) and isinstance(test.op, ast.Not):
            test, pol = test.operand, not pol
            continue
        if isinstance(test, ast.Compare) and len(test.ops) == 1:
            flip = {ast.NotEq: ast.Eq, ast.IsNot: ast.Is, ast.NotIn: ast.In}
            for neg, posop in flip.items():
                if isinstance(test.ops[0], neg):
                    test = ast.copy_location(ast.Compare(left=test.left, ops=[posop()], comparators=test.comparators), test)
                    pol = not pol
                    break
            else:
                return test, pol
            continue
        return test, pol


def _own_breaks(loop):
    """break statements that leave `loop` itself (not a loop nested in it)"""
    out = []

    def rec(stmts):
        for s_ in stmts:
            if isinstance(s_, ast.Break):
                out.append(s_)
            elif isinstance(s_, (ast.For, ast.While, ast.AsyncFor, ast.FunctionDef, ast.AsyncFunctionDef, ast.ClassDef)):
                rec(getattr(s_, "orelse", []) if isinstance(s_, (ast.For, ast.While, ast.AsyncFor)) else [])
            else:
                for f_ in ("body", "orelse", "finalbody"):
                    rec(getattr(s_, f_, []) or [])
                for h_ in getattr(s_, "handlers", []) or []:
                    rec(h_.body)
    rec(loop.body)
    return out


def path_conditions(fn, target) -> List[Tuple[ast.AST, bool]]:
    """(test, polarity) facts that hold whenever `target` is reached, whatever style the branching is written in:
    the tests of the enclosing if/while statements, and for every earlier sibling `if c: <leaves>` (guard clause) the fact
    `not c` (likewise `if c: ... else: <leaves>` gives `c`).  `not` is folded into the polarity."""
    p = path_to(fn, target)
    raw: List[Tuple[ast.AST, bool]] = []

    class _Out(list):
        def append(self, fact):
            # a true conjunction / a false disjunction is split into its members
            t, pol = fact
            if isinstance(t, ast.BoolOp) and ((isinstance(t.op, ast.And) and pol) or (isinstance(t.op, ast.Or) and not pol)):
                for v in t.values:
                    self.append(_literal(v, pol))
            elif isinstance(t, ast.IfExp) and isinstance(t.orelse, ast.Constant) and t.orelse.value in (False, None) and pol:
                # (B if A else False) holds  ->  A and B hold
                self.append(_literal(t.test, True))
                self.append(_literal(t.body, True))
            elif isinstance(t, ast.IfExp) and isinstance(t.body, ast.Constant) and t.body.value is True and not pol:
                # (True if A else C) fails  ->  A and C fail
                self.append(_literal(t.test, False))
                self.append(_literal(t.orelse, False))
            elif isinstance(t, ast.IfExp) and isinstance(t.body, ast.Constant) and t.body.value in (False, None) and pol:
                self.append(_literal(t.test, False))
                self.append(_literal(t.orelse, True))
            else:
                list.append(self, (t, pol))

    out = _Out()
    if p is None:
        return out

    def flag(block, j, test):
        # `t = E` directly followed by `if t:` / `if not t:` tests E (nothing runs between the two statements)
        inner, neg = test, False
        while isinstance(inner, ast.UnaryOp) and isinstance(inner.op, ast.Not):
            inner, neg = inner.operand, not neg
        if isinstance(inner, ast.Name) and j > 0:
            prev = block[j - 1]
            if isinstance(prev, ast.Assign) and len(prev.targets) == 1 and isinstance(prev.targets[0], ast.Name) and prev.targets[0].id == inner.id \
                    and not any(isinstance(n, ast.Name) and n.id == inner.id for n in ast.walk(prev.value)):
                return ast.UnaryOp(op=ast.Not(), operand=prev.value) if neg else prev.value
        return test

    for k, (block, idx) in enumerate(p):
        for j_, st in enumerate(block[:idx]):
            if isinstance(st, ast.If):
                if _leaves(st.body) and not _leaves(st.orelse):
                    out.append(_literal(flag(block, j_, st.test), False))
                elif st.orelse and _leaves(st.orelse) and not _leaves(st.body):
                    out.append(_literal(flag(block, j_, st.test), True))
            elif isinstance(st, ast.Assert):
                out.append(_literal(st.test, True))
            elif isinstance(st, ast.While) and not st.orelse and not any(isinstance(n, ast.Break) for n in ast.walk(st)) \
                    and not (isinstance(st.test, ast.Constant) and st.test.value):
                # a loop without break is left only when its test fails (`while x in used: x += 1` -> afterwards x is not in used)
                out.append(_literal(st.test, False))
            elif isinstance(st, (ast.For, ast.While)) and st.orelse and _leaves(st.orelse):
                # `for ...: if c: break   else: raise`: the code after the loop runs only when the loop was left by its break, so what
                # holds at the (single) break of this loop holds there too
                brks = [n for n in _own_breaks(st)]
                if len(brks) == 1:
                    inside = {id(x) for x in ast.walk(st)}
                    for t_, pol_ in path_conditions(fn, brks[0]):
                        if id(t_) in inside or any(id(x) in inside for x in ast.walk(t_)):
                            out.append((t_, pol_))
        if k + 1 < len(p):
            st = block[idx]
            nxt = p[k + 1][0]
            if isinstance(st, (ast.If, ast.While)):
                test = flag(block, idx, st.test) if isinstance(st, ast.If) else st.test
                if nxt is st.body:
                    out.append(_literal(test, True))
                elif nxt is st.orelse:
                    out.append(_literal(test, False))
    return out


def always_raises(body) -> bool:
    if not body:
        return False
    last = body[-1]
    if isinstance(last, ast.Raise):
        return True
    if isinstance(last, ast.If) and last.orelse:
        return always_raises(last.body) and always_raises(last.orelse)
    return False


def raising_condition(st) -> Optional[ast.AST]:
    """expression that, when true, makes the statement raise; None if st is not a guard"""
    if isinstance(st, ast.If) and always_raises(st.body):
        return st.test
    if isinstance(st, ast.Assert):
        return ast.UnaryOp(op=ast.Not(), operand=st.test)
    return None


class _Replace(ast.NodeTransformer):
    def __init__(self, needle: str, value):
        self.needle = needle
        self.value = value
        self.hits = 0

    def visit(self, node):
        if isinstance(node, ast.expr) and A.norm(node) == self.needle:
            self.hits += 1
            return ast.copy_location(ast.Constant(value=self.value), node)
        return super().visit(node)


def mentions(expr, var_expr) -> bool:
    needle = A.norm(var_expr)
    return any(isinstance(n, ast.expr) and A.norm(n) == needle for n in ast.walk(expr))


PURE_NODES = (ast.BoolOp, ast.And, ast.Or, ast.UnaryOp, ast.Not, ast.USub, ast.UAdd, ast.Compare, ast.Lt, ast.LtE, ast.Gt, ast.GtE,
              ast.Eq, ast.NotEq, ast.Constant, ast.BinOp, ast.Add, ast.Sub, ast.Mult, ast.Pow, ast.LShift, ast.FloorDiv,
              ast.Name, ast.Attribute, ast.Load, ast.Call, ast.In, ast.NotIn, ast.Tuple, ast.List, ast.Is, ast.IsNot)


def range_strength(ev: ConstEval, m, cond, var_expr, lo: int, hi: int) -> Optional[str]:
    """cond: expression that raises when true, over the single integer quantity
    var_expr.  Returns 'full' | 'lower-only' | 'upper-only' | 'none', or None
    when the predicate is outside the decidable fragment (comparisons of the
    variable against constant expressions combined with and/or/not)."""
    needle = A.norm(var_expr)
    # collect constants the variable is compared with: evaluate every sub-expression not mentioning var
    consts = set()
    for n in ast.walk(cond):
        if not isinstance(n, PURE_NODES):
            return None
        if isinstance(n, ast.Compare):
            for e in [n.left] + list(n.comparators):
                if not mentions(e, var_expr):
                    try:
                        v = ev.eval(e, m)
                    except Unknown:
                        return None
                    if v is None:
                        continue
                    if isinstance(v, (int,)) and not isinstance(v, bool):
                        consts.add(v)
                    elif isinstance(v, (list, tuple, set)):
                        consts.update(x for x in v if isinstance(x, int))
                    else:
                        return None
                elif A.norm(e) != needle:
                    return None  # arithmetic on the variable: outside the fragment
    probes = set()
    for c in consts | {lo, hi, 0}:
        probes.update((c - 1, c, c + 1))
    far = max([abs(p) for p in probes] + [1 << 70]) * 4
    probes.update((-far, far))

    def raises(v):
        r = _Replace(needle, v)
        e = r.visit(copy.deepcopy(cond))
        ast.fix_missing_locations(e)
        if r.hits == 0:
            raise Unknown("variable not in predicate")
        return bool(ev.eval(e, m))

    try:
        below = [p for p in sorted(probes) if p < lo]
        above = [p for p in sorted(probes) if p > hi]
        low_ok = all(raises(p) for p in below)
        high_ok = all(raises(p) for p in above)
    except Unknown:
        return None
    if low_ok and high_ok:
        return "full"
    if low_ok:
        return "lower-only"
    if high_ok:
        return "upper-only"
    return "none"


def rejected_in_range(ev: ConstEval, m, cond, var_expr, lo: int, hi: int) -> Optional[List[int]]:
    """cond: expression that raises when true, over the single integer quantity var_expr.  Values inside lo..hi for which it
    raises (probes: both ends, their neighbours, 0, +-1 and the neighbours of every constant compared with), or None when the
    predicate is outside the decidable fragment."""
    needle = A.norm(var_expr)
    consts = set()
    for n in ast.walk(cond):
        if not isinstance(n, PURE_NODES):
            return None
        if isinstance(n, ast.Compare):
            for e in [n.left] + list(n.comparators):
                if not mentions(e, var_expr):
                    try:
                        v = ev.eval(e, m)
                    except Unknown:
                        return None
                    if isinstance(v, int) and not isinstance(v, bool):
                        consts.add(v)
                    elif isinstance(v, (list, tuple, set)):
                        consts.update(x for x in v if isinstance(x, int))
                    elif v is not None:
                        return None
                elif A.norm(e) != needle:
                    return None
    probes = set()
    for c in consts | {lo, hi, 0}:
        probes.update((c - 1, c, c + 1))
    out = []
    try:
        for p_ in sorted(probes):
            if lo <= p_ <= hi:
                r = _Replace(needle, p_)
                e = r.visit(copy.deepcopy(cond))
                ast.fix_missing_locations(e)
                if r.hits == 0:
                    return None
                if bool(ev.eval(e, m)):
                    out.append(p_)
    except Unknown:
        return None
    return out


def combine(strengths: List[str]) -> str:
    """strength of the conjunction of several dominating guards"""
    low = any(s in ("full", "lower-only") for s in strengths)
    high = any(s in ("full", "upper-only") for s in strengths)
    if low and high:
        return "full"
    if low:
        return "lower-only"
    if high:
        return "upper-only"
    return "none"


# ---------------------------------------------------------------------------------------------------------------
# evaluation of a side-effect-free predicate under an environment (checker-side semantics, nothing of the repo is run)

class Sym:
    """an opaque value of a named class (e.g. a Register operand, a command object)"""

    def __init__(self, typename, supertypes=()):
        self.typename = typename
        self.types = {typename, *supertypes, "object"}

    def __repr__(self):
        return f"<{self.typename}>"


_PY_TYPES = {"int": int, "bool": bool, "str": str, "float": float, "list": list, "tuple": tuple, "dict": dict, "set": set}


def peval(expr, env: Dict[str, object]):
    """value of `expr`; env maps normalised source text of sub-expressions (names, attributes, calls) to values.
    Raises Unknown outside the fragment: constants, names/sub-expressions bound in env, and/or/not, comparisons,
    + - * // % **, unary minus, tuples/lists, len(), isinstance(), abs(), min(), max(), conditional expressions."""
    key = A.norm(expr)
    if key in env:
        return env[key]
    if isinstance(expr, ast.Constant):
        return expr.value
    if isinstance(expr, ast.BoolOp):
        vals = None
        for v in expr.values:
            vals = peval(v, env)
            if isinstance(expr.op, ast.And) and not vals:
                return vals
            if isinstance(expr.op, ast.Or) and vals:
                return vals
        return vals
    if isinstance(expr, ast.UnaryOp):
        v = peval(expr.operand, env)
        if isinstance(expr.op, ast.Not):
            return not v
        if isinstance(v, Sym):
            raise Unknown("arithmetic on an opaque value")
        if isinstance(expr.op, ast.USub):
            return -v
        if isinstance(expr.op, ast.UAdd):
            return +v
        raise Unknown(ast.dump(expr.op))
    if isinstance(expr, ast.IfExp):
        return peval(expr.body, env) if peval(expr.test, env) else peval(expr.orelse, env)
    if isinstance(expr, (ast.Tuple, ast.List)):
        vs = [peval(e, env) for e in expr.elts]
        return tuple(vs) if isinstance(expr, ast.Tuple) else vs
    if isinstance(expr, ast.BinOp):
        a, b = peval(expr.left, env), peval(expr.right, env)
        if isinstance(a, Sym) or isinstance(b, Sym) or a is None or b is None:
            raise Unknown("arithmetic on an opaque value")
        ops = {ast.Add: lambda: a + b, ast.Sub: lambda: a - b, ast.Mult: lambda: a * b, ast.FloorDiv: lambda: a // b, ast.Div: lambda: a / b, ast.Mod: lambda: a % b,
               ast.Pow: lambda: a ** b, ast.LShift: lambda: a << b, ast.RShift: lambda: a >> b, ast.BitAnd: lambda: a & b, ast.BitOr: lambda: a | b}
        f = ops.get(type(expr.op))
        if f is None:
            raise Unknown(ast.dump(expr.op))
        try:
            return f()
        except (ZeroDivisionError, TypeError, ValueError) as e:
            raise Unknown(str(e))
    if isinstance(expr, ast.Compare):
        left = peval(expr.left, env)
        for op, c in zip(expr.ops, expr.comparators):
            right = peval(c, env)
            sym = isinstance(left, Sym) or isinstance(right, Sym)
            if isinstance(op, ast.Is):
                r = left is right
            elif isinstance(op, ast.IsNot):
                r = left is not right
            elif isinstance(op, ast.Eq):
                r = (left is right) if sym else left == right
            elif isinstance(op, ast.NotEq):
                r = (left is not right) if sym else left != right
            elif isinstance(op, (ast.In, ast.NotIn)):
                if isinstance(right, Sym):
                    raise Unknown("membership in an opaque value")
                r = any((x is left) if isinstance(left, Sym) or isinstance(x, Sym) else x == left for x in right)
                r = r if isinstance(op, ast.In) else not r
            else:
                if sym or left is None or right is None:
                    raise Unknown("ordering of an opaque value")
                r = {ast.Lt: left < right, ast.LtE: left <= right, ast.Gt: left > right, ast.GtE: left >= right}[type(op)]
            if not r:
                return False
            left = right
        return True
    if isinstance(expr, ast.Call):
        fn = A.norm(expr.func)
        if fn == "isinstance" and len(expr.args) == 2:
            v = peval(expr.args[0], env)
            tys = expr.args[1].elts if isinstance(expr.args[1], ast.Tuple) else [expr.args[1]]
            for t in tys:
                tn = A.norm(t).split(".")[-1]
                if isinstance(v, Sym):
                    if tn in v.types:
                        return True
                elif tn in _PY_TYPES:
                    if isinstance(v, _PY_TYPES[tn]):
                        return True
                elif v is None or isinstance(v, (int, str, float, list, tuple, dict, set)):
                    continue  # a repo class: builtin values are not instances of it
                else:
                    raise Unknown(f"isinstance against {tn}")
            return False
        if fn in ("len", "abs", "min", "max", "bool", "int") and not expr.keywords:
            args = [peval(a, env) for a in expr.args]
            if any(isinstance(a, Sym) for a in args):
                if fn == "bool":
                    return True
                raise Unknown(f"{fn} of an opaque value")
            try:
                return {"len": len, "abs": abs, "min": min, "max": max, "bool": bool, "int": int}[fn](*args)
            except (TypeError, ValueError) as e:
                raise Unknown(str(e))
    raise Unknown(f"`{key}` is outside the evaluable fragment")


UNKNOWN = Sym("?")


def run_block(stmts, env: Dict[str, object], on_call, depth=0):
    """Abstractly execute straight-line code with ifs under one valuation of the atoms in env.
    Assignments to plain names are evaluated with peval (values that cannot be evaluated become UNKNOWN);
    `if` tests are evaluated with peval - an unevaluable test raises Unknown (the caller decides);
    every call met in an expression statement, assignment or inside other compound statements is reported to
    on_call(call, env).  Returns False when a `return`/`raise` ended the block."""
    for st in stmts:
        if isinstance(st, (ast.Assign, ast.AnnAssign)):
            value = st.value
            if value is None:
                continue
            for c in ast.walk(value):
                if isinstance(c, ast.Call):
                    on_call(c, env)
            targets = st.targets if isinstance(st, ast.Assign) else [st.target]
            try:
                v = peval(value, env)
            except Unknown:
                v = UNKNOWN
            for t in targets:
                if isinstance(t, ast.Name):
                    env[t.id] = v
                elif isinstance(t, ast.Attribute) and A.norm(t):
                    env[A.norm(t)] = v  # `self.x = v`: later reads of self.x see it (atoms are looked up by their text)
                elif isinstance(t, ast.Tuple):
                    vs = list(v) if isinstance(v, (tuple, list)) and len(v) == len(t.elts) else [UNKNOWN] * len(t.elts)
                    for e, x in zip(t.elts, vs):
                        if isinstance(e, ast.Name):
                            env[e.id] = x
                        elif isinstance(e, ast.Attribute):
                            env[A.norm(e)] = x
        elif isinstance(st, ast.If):
            taken = bool(peval(st.test, env))
            if not run_block(st.body if taken else st.orelse, env, on_call, depth + 1):
                return False
        elif isinstance(st, (ast.Return, ast.Raise)):
            for c in ast.walk(st):
                if isinstance(c, ast.Call):
                    on_call(c, env)
            if isinstance(st, ast.Return):
                try:
                    env["__return__"] = peval(st.value, env) if st.value is not None else None
                except Unknown:
                    env["__return__"] = UNKNOWN
            else:
                env["__raise__"] = True
            return False
        elif isinstance(st, (ast.FunctionDef, ast.AsyncFunctionDef, ast.ClassDef)):
            continue
        else:
            for c in ast.walk(st):
                if isinstance(c, ast.Call):
                    on_call(c, env)
    return True


def returned_value(fn, env: Dict[str, object]):
    """value returned by fn's body under one valuation (UNKNOWN when it cannot be evaluated, None when it falls off the end);
    raises Unknown when a test on the way cannot be evaluated"""
    env = dict(env)
    run_block(A.strip_docstring(fn.body), env, lambda c, e: None)
    if env.get("__raise__"):
        return Sym("<raises>")
    return env.get("__return__")
