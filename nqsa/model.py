"""RepoModel: parsed view of /repo/netqasm used by every rule.

Never imports netqasm.  Everything is recovered from the syntax tree:
import tables, classes with C3 MRO, dataclass fields with defaults through the
MRO, @property alias chains, method lookup, and a constant evaluator
(ConstEval) that understands the handful of module-level constructs the repo
uses (ctypes types, Enum classes, namedtuple, arithmetic, len(bytes(T()))).
"""
from __future__ import annotations

import ast
import os
import pickle
from dataclasses import dataclass, field
from typing import Any, Dict, List, Optional, Tuple

REPO_ROOT = os.environ.get("NQSA_REPO", "/repo")
PKG = "netqasm"


class AnalysisError(Exception):
    """The analysis cannot see its subject (anchor vanished, idiom unknown)."""


class Unknown(Exception):
    """ConstEval could not evaluate an expression."""


# ---------------------------------------------------------------------------
# ctypes model values produced by ConstEval
# ---------------------------------------------------------------------------


@dataclass(frozen=True)
class CScalar:
    name: str
    size: int
    signed: bool

    @property
    def lo(self):
        return -(1 << (8 * self.size - 1)) if self.signed else 0

    @property
    def hi(self):
        return (1 << (8 * self.size - 1)) - 1 if self.signed else (1 << (8 * self.size)) - 1


CTYPES_SCALARS = {
    "c_uint8": CScalar("c_uint8", 1, False),
    "c_ubyte": CScalar("c_uint8", 1, False),
    "c_int8": CScalar("c_int8", 1, True),
    "c_uint16": CScalar("c_uint16", 2, False),
    "c_int16": CScalar("c_int16", 2, True),
    "c_uint32": CScalar("c_uint32", 4, False),
    "c_int32": CScalar("c_int32", 4, True),
    "c_uint64": CScalar("c_uint64", 8, False),
    "c_int64": CScalar("c_int64", 8, True),
    "c_uint": CScalar("c_uint32", 4, False),
    "c_int": CScalar("c_int32", 4, True),
}


@dataclass(frozen=True)
class CArray:
    elem: Any
    n: int


@dataclass(frozen=True)
class CStructRef:
    """Reference to a ctypes.Structure class of the repo."""

    qualname: str  # module:Class


@dataclass(frozen=True)
class EnumMember:
    enum: str  # module:Class
    name: str
    value: Any


@dataclass(frozen=True)
class ClassRef:
    qualname: str


@dataclass(frozen=True)
class NamedTupleType:
    name: str
    fields: Tuple[str, ...]


# ---------------------------------------------------------------------------


@dataclass(eq=False)
class ModuleInfo:
    name: str
    path: str
    tree: ast.Module
    source: str
    imports: Dict[str, Tuple[str, Optional[str]]] = field(default_factory=dict)
    # local name -> (module dotted, object name or None for module import)
    assigns: Dict[str, ast.AST] = field(default_factory=dict)  # module-level NAME = expr (last one)
    classes: Dict[str, "ClassInfo"] = field(default_factory=dict)
    functions: Dict[str, ast.FunctionDef] = field(default_factory=dict)

    @property
    def relpath(self):
        return os.path.relpath(self.path, REPO_ROOT)


@dataclass(eq=False)
class ClassInfo:
    name: str
    module: ModuleInfo
    node: ast.ClassDef
    methods: Dict[str, ast.FunctionDef] = field(default_factory=dict)
    setters: Dict[str, ast.FunctionDef] = field(default_factory=dict)
    attrs: Dict[str, Tuple[Optional[ast.AST], Optional[ast.AST]]] = field(default_factory=dict)
    # class-level name -> (annotation, value)
    attr_order: List[str] = field(default_factory=list)
    bases: List[Any] = field(default_factory=list)  # ClassInfo or str (external)

    @property
    def qualname(self):
        return f"{self.module.name}:{self.name}"

    def loc(self, node=None):
        n = node if node is not None else self.node
        return f"{self.module.relpath}:{getattr(n, 'lineno', 0)}"

    def is_property(self, name):
        f = self.methods.get(name)
        return f is not None and any(_deco_name(d) == "property" for d in f.decorator_list)


def _deco_name(d):
    if isinstance(d, ast.Call):
        d = d.func
    if isinstance(d, ast.Name):
        return d.id
    if isinstance(d, ast.Attribute):
        return d.attr
    return None


def dotted(node) -> Optional[str]:
    """a.b.c expression -> 'a.b.c' (None if not a pure dotted name)."""
    parts = []
    while isinstance(node, ast.Attribute):
        parts.append(node.attr)
        node = node.value
    if isinstance(node, ast.Name):
        parts.append(node.id)
        return ".".join(reversed(parts))
    return None


def src(node) -> str:
    try:
        return ast.unparse(node)
    except Exception:  # pragma: no cover
        return "<?>"


_TREE_CACHE: Dict[Any, bytes] = {}


class Repo:
    def __init__(self, root: str = None, with_examples=True):
        self.root = root or REPO_ROOT
        self.modules: Dict[str, ModuleInfo] = {}
        self.parse_errors: List[str] = []
        self._mro_cache: Dict[str, List[ClassInfo]] = {}
        self._load()

    # -- loading ----------------------------------------------------------
    def _load(self):
        base = os.path.join(self.root, PKG)
        if not os.path.isdir(base):
            raise AnalysisError(f"package directory {base} not found")
        # private function / method names defined more than once anywhere in the package: a method helper that some class
        # may override is not inlined into callers reached through `self` (nqsa/normalise.py)
        import re as _re
        defs_seen: Dict[str, int] = {}
        texts = []
        for dirpath, dirnames, filenames in os.walk(base):
            for fn in filenames:
                if fn.endswith(".py"):
                    try:
                        with open(os.path.join(dirpath, fn), "r", encoding="utf-8") as fh:
                            txt = fh.read()
                    except (UnicodeDecodeError, OSError):
                        continue
                    texts.append(txt)
                    for nm in _re.findall(r"^\s*(?:(?:async\s+)?def|class)\s+(_[A-Za-z0-9_]*)\s*[(:]", txt, flags=_re.M):
                        defs_seen[nm] = defs_seen.get(nm, 0) + 1
        # a private name is "shared" when it is defined more than once or mentioned in more than one file
        files_mentioning: Dict[str, int] = {}
        for t_ in texts:
            for nm in set(_re.findall(r"\b_[A-Za-z0-9_]*\b", t_)):
                files_mentioning[nm] = files_mentioning.get(nm, 0) + 1
        multi = tuple(sorted(k for k, v in defs_seen.items() if v > 1 or files_mentioning.get(k, 0) > 1))
        for dirpath, dirnames, filenames in os.walk(base):
            dirnames[:] = sorted(d for d in dirnames if d != "__pycache__")
            for fn in sorted(filenames):
                if not fn.endswith(".py"):
                    continue
                path = os.path.join(dirpath, fn)
                rel = os.path.relpath(path, self.root)[:-3]
                parts = rel.split(os.sep)
                if parts[-1] == "__init__":
                    parts = parts[:-1]
                name = ".".join(parts)
                try:
                    with open(path, "r", encoding="utf-8") as fh:
                        source = fh.read()
                except (UnicodeDecodeError, OSError) as e:
                    self.parse_errors.append(f"{path}: {e}")
                    continue
                # parsed + normalised trees are cached per process by content (several properties are evaluated on one tree)
                key = (name, hash(source), bool(os.environ.get("NQSA_NO_NORMALISE")), hash(multi))
                blob = _TREE_CACHE.get(key)
                if blob is not None:
                    tree = pickle.loads(blob)
                else:
                    try:
                        tree = ast.parse(source, filename=path)
                    except SyntaxError as e:
                        self.parse_errors.append(f"{path}: {e}")
                        continue
                    if not os.environ.get("NQSA_NO_NORMALISE") and not name.startswith(PKG + ".examples"):
                        from . import normalise
                        try:
                            tree = normalise.normalise_module(name, tree, frozenset(multi))
                        except RecursionError as e:  # pragma: no cover - defensive
                            self.parse_errors.append(f"{path}: normalisation failed: {e}")
                    try:
                        _TREE_CACHE[key] = pickle.dumps(tree)
                    except Exception:  # pragma: no cover - a tree that cannot be pickled is simply not cached
                        pass
                m = ModuleInfo(name=name, path=path, tree=tree, source=source)
                m.is_pkg = fn == "__init__.py"
                self.modules[name] = m
        for m in self.modules.values():
            self._index_module(m)
        for m in self.modules.values():
            for c in m.classes.values():
                c.bases = [self._resolve_base(m, b) for b in c.node.bases]
        # A private base class / mixin that the reference tree does not know (methods moved out of a class into `_SomethingMixin`
        # by a refactoring) is read as part of the classes that inherit from it: its methods, setters and class-level attributes are
        # also listed on them, unless overridden.  The rules then find a moved method where it was.
        if not os.environ.get("NQSA_NO_NORMALISE"):
            try:
                from . import normalise as _norm
                known_all = _norm.known_names()
            except Exception:  # pragma: no cover - without the reference nothing is merged
                known_all = {}
            if known_all:
                for m in self.modules.values():
                    known = set(known_all.get(m.name, []))
                    for c in m.classes.values():
                        if not c.name.startswith("_") or c.name in known:
                            for k in self.mro(c)[1:]:
                                if k.module is m and k.name.startswith("_") and not k.name.startswith("__") and k.name not in known:
                                    for n_, f_ in k.methods.items():
                                        c.methods.setdefault(n_, f_)
                                    for n_, f_ in k.setters.items():
                                        c.setters.setdefault(n_, f_)
                                    for n_, v_ in k.attrs.items():
                                        if n_ not in c.attrs:
                                            c.attrs[n_] = v_
                                            c.attr_order.append(n_)

    def _index_module(self, m: ModuleInfo):
        pkg_parts = m.name.split(".")
        if not getattr(m, "is_pkg", False):
            pkg_parts = pkg_parts[:-1]

        def handle_import(node):
            if isinstance(node, ast.Import):
                for a in node.names:
                    if a.asname:
                        m.imports[a.asname] = (a.name, None)
                    else:
                        top = a.name.split(".")[0]
                        m.imports[top] = (top, None)
            elif isinstance(node, ast.ImportFrom):
                if node.level:
                    baseparts = pkg_parts[: len(pkg_parts) - (node.level - 1)]
                    modname = ".".join(baseparts + (node.module.split(".") if node.module else []))
                else:
                    modname = node.module or ""
                for a in node.names:
                    local = a.asname or a.name
                    m.imports[local] = (modname, a.name)

        def walk_toplevel(stmts):
            for node in stmts:
                if isinstance(node, (ast.Import, ast.ImportFrom)):
                    handle_import(node)
                elif isinstance(node, ast.If):
                    # TYPE_CHECKING blocks and the like
                    walk_toplevel(node.body)
                    walk_toplevel(node.orelse)
                elif isinstance(node, ast.Try):
                    walk_toplevel(node.body)
                    for h in node.handlers:
                        walk_toplevel(h.body)
                elif isinstance(node, ast.Assign):
                    for t in node.targets:
                        if isinstance(t, ast.Name):
                            m.assigns[t.id] = node.value
                elif isinstance(node, ast.AnnAssign):
                    if isinstance(node.target, ast.Name) and node.value is not None:
                        m.assigns[node.target.id] = node.value
                elif isinstance(node, ast.ClassDef):
                    m.classes[node.name] = self._index_class(m, node)
                elif isinstance(node, (ast.FunctionDef, ast.AsyncFunctionDef)):
                    m.functions[node.name] = node

        walk_toplevel(m.tree.body)

    def _index_class(self, m, node: ast.ClassDef) -> ClassInfo:
        c = ClassInfo(name=node.name, module=m, node=node)
        for st in node.body:
            if isinstance(st, (ast.FunctionDef, ast.AsyncFunctionDef)):
                decos = [_deco_name(d) for d in st.decorator_list]
                if "setter" in decos:
                    c.setters[st.name] = st
                else:
                    c.methods[st.name] = st
            elif isinstance(st, ast.Assign):
                for t in st.targets:
                    if isinstance(t, ast.Name):
                        c.attrs[t.id] = (None, st.value)
                        if t.id not in c.attr_order:
                            c.attr_order.append(t.id)
            elif isinstance(st, ast.AnnAssign) and isinstance(st.target, ast.Name):
                c.attrs[st.target.id] = (st.annotation, st.value)
                if st.target.id not in c.attr_order:
                    c.attr_order.append(st.target.id)
        return c

    # -- name resolution --------------------------------------------------
    def module(self, name) -> ModuleInfo:
        if name not in self.modules:
            raise AnalysisError(f"module {name} not found in repo")
        return self.modules[name]

    def resolve(self, m: ModuleInfo, name: str, _depth=0):
        """Resolve a dotted name used in module m.

        Returns ('class', ClassInfo) | ('func', ModuleInfo, FunctionDef) |
        ('module', ModuleInfo) | ('const', ModuleInfo, expr) |
        ('external', dotted) | None
        """
        if _depth > 12:
            return None
        parts = name.split(".")
        head, rest = parts[0], parts[1:]
        cur = None
        if head in m.classes:
            cur = ("class", m.classes[head])
        elif head in m.functions:
            cur = ("func", m, m.functions[head])
        elif head in m.assigns:
            cur = ("const", m, m.assigns[head])
        elif head in m.imports:
            modname, obj = m.imports[head]
            if obj is None:
                cur = self._as_module(modname)
            else:
                sub = f"{modname}.{obj}" if modname else obj
                if sub in self.modules:
                    cur = ("module", self.modules[sub])
                elif modname in self.modules:
                    cur = self.resolve(self.modules[modname], obj, _depth + 1)
                    if cur is None:
                        cur = ("external", f"{modname}.{obj}")
                else:
                    cur = ("external", f"{modname}.{obj}")
        else:
            return None
        for i, p in enumerate(rest):
            if cur is None:
                return None
            kind = cur[0]
            if kind == "module":
                mod = cur[1]
                sub = f"{mod.name}.{p}"
                if p in mod.classes or p in mod.functions or p in mod.assigns or p in mod.imports:
                    cur = self.resolve(mod, p, _depth + 1)
                elif sub in self.modules:
                    cur = ("module", self.modules[sub])
                else:
                    return None
            elif kind == "external":
                cur = ("external", cur[1] + "." + p)
            elif kind == "class":
                # attribute of a class: return marker
                return ("classattr", cur[1], ".".join(rest[i:]))
            elif kind == "const":
                return ("constattr", cur[1], cur[2], ".".join(rest[i:]))
            else:
                return None
        return cur

    def _as_module(self, modname):
        if modname in self.modules:
            return ("module", self.modules[modname])
        return ("external", modname)

    def _resolve_base(self, m, expr):
        d = dotted(expr)
        if d is None:
            return src(expr)
        r = self.resolve(m, d)
        if r and r[0] == "class":
            return r[1]
        if r and r[0] == "external":
            return r[1]
        return d

    def resolve_class(self, m: ModuleInfo, expr_or_name) -> Optional[ClassInfo]:
        d = expr_or_name if isinstance(expr_or_name, str) else dotted(expr_or_name)
        if d is None:
            return None
        r = self.resolve(m, d)
        if r and r[0] == "class":
            return r[1]
        return None

    def get_class(self, modname, clsname) -> ClassInfo:
        m = self.module(modname)
        if clsname not in m.classes:
            raise AnalysisError(f"class {clsname} not found in {modname}")
        return m.classes[clsname]

    def get_function(self, modname, fname) -> ast.FunctionDef:
        m = self.module(modname)
        if fname not in m.functions:
            raise AnalysisError(f"function {fname} not found in {modname}")
        return m.functions[fname]

    def get_method(self, modname, clsname, mname) -> ast.FunctionDef:
        c = self.get_class(modname, clsname)
        r = self.lookup(c, mname)
        if r is None:
            raise AnalysisError(f"method {clsname}.{mname} not found in {modname}")
        return r[1]

    def all_classes(self):
        for m in self.modules.values():
            for c in m.classes.values():
                yield c

    # -- class hierarchy --------------------------------------------------
    def mro(self, c: ClassInfo) -> List[ClassInfo]:
        key = c.qualname
        if key in self._mro_cache:
            return self._mro_cache[key]
        seqs = []
        for b in c.bases:
            if isinstance(b, ClassInfo):
                seqs.append(list(self.mro(b)))
        seqs.append([b for b in c.bases if isinstance(b, ClassInfo)])
        res = [c]
        seqs = [s for s in seqs if s]
        while seqs:
            for s in seqs:
                cand = s[0]
                if not any(cand in t[1:] for t in seqs):
                    break
            else:
                raise AnalysisError(f"inconsistent MRO for {c.qualname}")
            res.append(cand)
            seqs = [[x for x in s if x is not cand] for s in seqs]
            seqs = [s for s in seqs if s]
        self._mro_cache[key] = res
        return res

    def external_bases(self, c: ClassInfo) -> List[str]:
        out = []
        for k in self.mro(c):
            for b in k.bases:
                if not isinstance(b, ClassInfo):
                    out.append(b)
        return out

    def is_subclass(self, c: ClassInfo, other: ClassInfo) -> bool:
        return other in self.mro(c)

    def subclasses(self, base: ClassInfo, strict=True):
        for c in self.all_classes():
            if base in self.mro(c) and (c is not base or not strict):
                yield c

    def lookup(self, c: ClassInfo, name) -> Optional[Tuple[ClassInfo, ast.FunctionDef]]:
        for k in self.mro(c):
            if name in k.methods:
                return k, k.methods[name]
        return None

    def lookup_attr(self, c: ClassInfo, name):
        """class-level attribute through the MRO -> (ClassInfo, annotation, value)"""
        for k in self.mro(c):
            if name in k.attrs:
                ann, val = k.attrs[name]
                return k, ann, val
        return None

    def is_dataclass(self, c: ClassInfo) -> bool:
        return any(_deco_name(d) == "dataclass" for d in c.node.decorator_list)

    def is_namedtuple(self, c: ClassInfo) -> bool:
        """`class X(NamedTuple)` (typing): instances are tuples of the annotated names of the class body, in order"""
        return any((dotted(b) or "").split(".")[-1] == "NamedTuple" for b in c.node.bases)

    def namedtuple_fields(self, c: ClassInfo) -> List[Tuple[str, Optional[ast.AST], ClassInfo]]:
        return [(n, c.attrs[n][1], c) for n in c.attr_order if c.attrs[n][0] is not None and dotted(c.attrs[n][0]) not in ("ClassVar", "typing.ClassVar")]

    def dataclass_fields(self, c: ClassInfo) -> List[Tuple[str, Optional[ast.AST], Optional[ast.AST], ClassInfo]]:
        """Ordered (name, annotation, default, defining class) as dataclasses computes them."""
        fields: Dict[str, Tuple] = {}
        for k in reversed(self.mro(c)):
            if not self.is_dataclass(k):
                continue
            for name in k.attr_order:
                ann, val = k.attrs[name]
                if ann is None:
                    continue
                if dotted(ann) in ("ClassVar", "typing.ClassVar"):
                    continue
                if name in fields:
                    # keeps original position, new default
                    fields[name] = (name, ann, val, k)
                else:
                    fields[name] = (name, ann, val, k)
        return list(fields.values())

    def property_alias(self, c: ClassInfo, name, _depth=0) -> Optional[str]:
        """`@property def name(self): return self.X` -> X resolved transitively
        to a non-property attribute; None if `name` is not such an alias."""
        if _depth > 8:
            return None
        r = self.lookup(c, name)
        if r is None:
            return None
        k, f = r
        if not any(_deco_name(d) == "property" for d in f.decorator_list):
            return None
        body = [s for s in f.body if not (isinstance(s, ast.Expr) and isinstance(s.value, ast.Constant))]
        if len(body) == 1 and isinstance(body[0], ast.Return):
            v = body[0].value
            if isinstance(v, ast.Attribute) and isinstance(v.value, ast.Name) and v.value.id == "self":
                deeper = self.property_alias(c, v.attr, _depth + 1)
                return deeper or v.attr
        return None

    def loc(self, m: ModuleInfo, node) -> str:
        return f"{m.relpath}:{getattr(node, 'lineno', 0)}"

    # -- functions enumeration -------------------------------------------
    def iter_functions(self, prefix=None):
        """Yield (ModuleInfo, qualname, FunctionDef, ClassInfo|None) for all
        module functions and methods (setters included as name.setter)."""
        for m in self.modules.values():
            if prefix and not m.name.startswith(prefix):
                continue
            for fn in m.functions.values():
                yield m, fn.name, fn, None
            for c in m.classes.values():
                for fn in c.methods.values():
                    yield m, f"{c.name}.{fn.name}", fn, c
                for fn in c.setters.values():
                    yield m, f"{c.name}.{fn.name}.setter", fn, c


# ---------------------------------------------------------------------------
# Constant evaluator
# ---------------------------------------------------------------------------


class ConstEval:
    def __init__(self, repo: Repo):
        self.repo = repo
        self._enum_cache: Dict[str, Dict[str, Any]] = {}
        self._stack = set()

    # public -------------------------------------------------------------
    def name(self, modname: str, name: str):
        m = self.repo.module(modname)
        return self.eval(ast.parse(name, mode="eval").body, m)

    def eval(self, node, m: ModuleInfo, env: Dict[str, Any] = None):
        env = env or {}
        meth = getattr(self, "_e_" + type(node).__name__, None)
        if meth is None:
            raise Unknown(f"unsupported expression {type(node).__name__}: {src(node)}")
        return meth(node, m, env)

    def try_eval(self, node, m, env=None, default=None):
        try:
            return self.eval(node, m, env)
        except Unknown:
            return default

    # enum ---------------------------------------------------------------
    def is_enum(self, c: ClassInfo) -> bool:
        ext = self.repo.external_bases(c)
        return any(b.split(".")[-1] in ("Enum", "IntEnum", "Flag", "IntFlag") for b in ext)

    def enum_members(self, c: ClassInfo) -> Dict[str, Any]:
        key = c.qualname
        if key in self._enum_cache:
            return self._enum_cache[key]
        members: Dict[str, Any] = {}
        last = 0
        for name in c.attr_order:
            ann, val = c.attrs[name]
            if name.startswith("_") or val is None:
                continue
            if isinstance(val, ast.Call) and dotted(val.func) in ("auto", "enum.auto"):
                v = (last + 1) if isinstance(last, int) else 1
            else:
                v = self.eval(val, c.module)
                if isinstance(v, EnumMember):
                    v = v  # enum valued by another enum member object
            members[name] = v
            if isinstance(v, int):
                last = v
        self._enum_cache[key] = members
        return members

    # struct -------------------------------------------------------------
    def is_struct(self, c: ClassInfo) -> bool:
        ext = self.repo.external_bases(c)
        return any(b.split(".")[-1] in ("Structure", "LittleEndianStructure", "BigEndianStructure") for b in ext)

    # node handlers ------------------------------------------------------
    def _e_Constant(self, node, m, env):
        return node.value

    def _e_Tuple(self, node, m, env):
        return tuple(self.eval(e, m, env) for e in node.elts)

    def _e_List(self, node, m, env):
        return [self.eval(e, m, env) for e in node.elts]

    def _e_Set(self, node, m, env):
        return set(self.eval(e, m, env) for e in node.elts)

    def _e_Dict(self, node, m, env):
        return {self.eval(k, m, env): self.eval(v, m, env) for k, v in zip(node.keys, node.values)}

    def _comp_envs(self, generators, m, env):
        """environments produced by the generators of a comprehension (finite, evaluable iterables only)"""
        envs = [dict(env)]
        for g in generators:
            nxt = []
            for e in envs:
                it = self.eval(g.iter, m, e)
                if isinstance(it, dict):
                    it = list(it)
                if not isinstance(it, (list, tuple, set, range)):
                    raise Unknown(f"comprehension over {type(it).__name__}")
                for item in it:
                    e2 = dict(e)
                    self._bind_target(g.target, item, e2)
                    if all(self.eval(c, m, e2) for c in g.ifs):
                        nxt.append(e2)
            envs = nxt
        return envs

    def _bind_target(self, target, value, env):
        if isinstance(target, ast.Name):
            env[target.id] = value
        elif isinstance(target, (ast.Tuple, ast.List)):
            vals = list(value)
            if len(vals) != len(target.elts):
                raise Unknown("unpacking mismatch in comprehension")
            for t, v in zip(target.elts, vals):
                self._bind_target(t, v, env)
        else:
            raise Unknown("comprehension target")

    def _e_ListComp(self, node, m, env):
        return [self.eval(node.elt, m, e) for e in self._comp_envs(node.generators, m, env)]

    def _e_GeneratorExp(self, node, m, env):
        return [self.eval(node.elt, m, e) for e in self._comp_envs(node.generators, m, env)]

    def _e_SetComp(self, node, m, env):
        return {self.eval(node.elt, m, e) for e in self._comp_envs(node.generators, m, env)}

    def _e_DictComp(self, node, m, env):
        return {self.eval(node.key, m, e): self.eval(node.value, m, e) for e in self._comp_envs(node.generators, m, env)}

    def _e_UnaryOp(self, node, m, env):
        v = self.eval(node.operand, m, env)
        if isinstance(node.op, ast.USub):
            return -v
        if isinstance(node.op, ast.UAdd):
            return +v
        if isinstance(node.op, ast.Not):
            return not v
        if isinstance(node.op, ast.Invert):
            return ~v
        raise Unknown(src(node))

    def _e_BinOp(self, node, m, env):
        a = self.eval(node.left, m, env)
        b = self.eval(node.right, m, env)
        op = node.op
        if isinstance(op, ast.Mult):
            if isinstance(a, (CScalar, CArray, CStructRef)) and isinstance(b, int):
                return CArray(a, b)
            if isinstance(b, (CScalar, CArray, CStructRef)) and isinstance(a, int):
                return CArray(b, a)
        num = (int, float, complex)
        try:
            if isinstance(op, ast.Add):
                if isinstance(a, num) and isinstance(b, num) or type(a) == type(b) and isinstance(a, (str, list, tuple)):
                    return a + b
            elif isinstance(op, ast.Sub) and isinstance(a, num) and isinstance(b, num):
                return a - b
            elif isinstance(op, ast.Mult) and (isinstance(a, num) and isinstance(b, num) or isinstance(a, (list, tuple, str)) and isinstance(b, int)):
                return a * b
            elif isinstance(op, ast.Div) and isinstance(a, num) and isinstance(b, num):
                return a / b
            elif isinstance(op, ast.FloorDiv) and isinstance(a, num) and isinstance(b, num):
                return a // b
            elif isinstance(op, ast.Mod) and isinstance(a, num) and isinstance(b, num):
                return a % b
            elif isinstance(op, ast.Pow) and isinstance(a, num) and isinstance(b, num):
                return a**b
            elif isinstance(op, ast.LShift):
                return a << b
            elif isinstance(op, ast.RShift):
                return a >> b
            elif isinstance(op, ast.BitOr):
                return a | b
            elif isinstance(op, ast.BitAnd):
                return a & b
        except Exception as e:
            raise Unknown(f"{src(node)}: {e}")
        raise Unknown(src(node))

    def _e_Compare(self, node, m, env):
        left = self.eval(node.left, m, env)
        for op, comp in zip(node.ops, node.comparators):
            right = self.eval(comp, m, env)
            try:
                if isinstance(op, ast.Eq):
                    ok = left == right
                elif isinstance(op, ast.NotEq):
                    ok = left != right
                elif isinstance(op, ast.Lt):
                    ok = left < right
                elif isinstance(op, ast.LtE):
                    ok = left <= right
                elif isinstance(op, ast.Gt):
                    ok = left > right
                elif isinstance(op, ast.GtE):
                    ok = left >= right
                elif isinstance(op, ast.In):
                    ok = left in right
                elif isinstance(op, ast.NotIn):
                    ok = left not in right
                elif isinstance(op, ast.Is):
                    ok = left is right
                elif isinstance(op, ast.IsNot):
                    ok = left is not right
                else:
                    raise Unknown(src(node))
            except TypeError as e:
                raise Unknown(f"{src(node)}: {e}")
            if not ok:
                return False
            left = right
        return True

    def _e_BoolOp(self, node, m, env):
        vals = [self.eval(v, m, env) for v in node.values]
        if isinstance(node.op, ast.And):
            r = True
            for v in vals:
                r = r and v
            return r
        r = False
        for v in vals:
            r = r or v
        return r

    def _e_Name(self, node, m, env):
        if node.id in env:
            return env[node.id]
        if node.id in ("True", "False", "None"):
            return {"True": True, "False": False, "None": None}[node.id]
        return self._resolve_value(m, node.id, node)

    def _resolve_value(self, m, name, node=None):
        r = self.repo.resolve(m, name)
        return self._value_of(r, name)

    def _value_of(self, r, name):
        if r is None:
            raise Unknown(f"unresolved name {name}")
        kind = r[0]
        if kind == "const":
            _, mod, expr = r
            key = (mod.name, id(expr))
            if key in self._stack:
                raise Unknown(f"cyclic constant {name}")
            self._stack.add(key)
            try:
                return self.eval(expr, mod)
            finally:
                self._stack.discard(key)
        if kind == "class":
            c = r[1]
            if self.is_struct(c):
                return CStructRef(c.qualname)
            return ClassRef(c.qualname)
        if kind == "external":
            d = r[1]
            last = d.split(".")[-1]
            if d.startswith("ctypes.") and last in CTYPES_SCALARS:
                return CTYPES_SCALARS[last]
            if d in ("numpy.pi", "math.pi"):
                import math

                return math.pi
            raise Unknown(f"external name {d}")
        if kind == "classattr":
            _, c, attr = r
            return self._class_attr(c, attr)
        if kind == "constattr":
            _, mod, expr, attr = r
            base = self.eval(expr, mod)
            return self._attr_of_value(base, attr)
        raise Unknown(f"cannot take value of {name} ({kind})")

    def _class_attr(self, c: ClassInfo, attr: str):
        parts = attr.split(".")
        if self.is_enum(c):
            mem = self.enum_members(c)
            if parts[0] in mem:
                v: Any = EnumMember(c.qualname, parts[0], mem[parts[0]])
                for p in parts[1:]:
                    v = self._attr_of_value(v, p)
                return v
            raise Unknown(f"{c.name} has no member {parts[0]}")
        la = self.repo.lookup_attr(c, parts[0])
        if la is None or la[2] is None:
            raise Unknown(f"{c.name}.{parts[0]} not a class constant")
        v = self.eval(la[2], la[0].module)
        for p in parts[1:]:
            v = self._attr_of_value(v, p)
        return v

    def _attr_of_value(self, v, attr):
        for p in attr.split("."):
            if isinstance(v, EnumMember):
                if p == "value":
                    v = v.value
                elif p == "name":
                    v = v.name
                else:
                    raise Unknown(f"enum member attr {p}")
            elif isinstance(v, NamedTupleType) and p == "_fields":
                v = v.fields
            elif isinstance(v, ClassRef):
                mod, cn = v.qualname.split(":")
                v = self._class_attr(self.repo.get_class(mod, cn), p)
            elif isinstance(v, CStructRef):
                mod, cn = v.qualname.split(":")
                v = self._class_attr(self.repo.get_class(mod, cn), p)
            else:
                raise Unknown(f"attribute {p} of {v!r}")
        return v

    def _e_Attribute(self, node, m, env):
        d = dotted(node)
        if d is not None and d.split(".")[0] not in env:
            r = self.repo.resolve(m, d)
            if r is not None:
                return self._value_of(r, d)
            # maybe attribute of a value (e.g. X.value where X const enum member)
        base = self.eval(node.value, m, env)
        return self._attr_of_value(base, node.attr)

    def _e_Subscript(self, node, m, env):
        base = self.eval(node.value, m, env)
        sl = node.slice
        if isinstance(sl, ast.Slice):
            lo = self.eval(sl.lower, m, env) if sl.lower else None
            hi = self.eval(sl.upper, m, env) if sl.upper else None
            st = self.eval(sl.step, m, env) if sl.step else None
            try:
                return base[lo:hi:st]
            except Exception as e:
                raise Unknown(str(e))
        idx = self.eval(sl, m, env)
        try:
            return base[idx]
        except Exception as e:
            raise Unknown(f"{src(node)}: {e}")

    def _e_IfExp(self, node, m, env):
        return self.eval(node.body, m, env) if self.eval(node.test, m, env) else self.eval(node.orelse, m, env)

    def _e_JoinedStr(self, node, m, env):
        out = ""
        for v in node.values:
            if isinstance(v, ast.Constant):
                out += str(v.value)
            elif isinstance(v, ast.FormattedValue):
                out += str(self.eval(v.value, m, env))
        return out

    def _e_Call(self, node, m, env):
        fname = dotted(node.func)
        # len(...)
        if fname == "len" and len(node.args) == 1:
            a = node.args[0]
            # len(bytes(T()))
            if isinstance(a, ast.Call) and dotted(a.func) == "bytes" and len(a.args) == 1 and isinstance(a.args[0], ast.Call) and not a.args[0].args:
                t = self.eval(a.args[0].func, m, env)
                from . import wire

                return wire.sizeof(self, t)
            v = self.eval(a, m, env)
            try:
                return len(v)
            except Exception as e:
                raise Unknown(str(e))
        if fname in ("sizeof", "ctypes.sizeof") and len(node.args) == 1 and not node.keywords:
            from . import wire

            return wire.sizeof(self, self.eval(node.args[0], m, env))
        if fname in ("int", "float", "str", "tuple", "list", "abs", "min", "max", "sum", "sorted", "set", "range") and not node.keywords:
            args = [self.eval(a, m, env) for a in node.args]
            try:
                r = {"int": int, "float": float, "str": str, "tuple": tuple, "list": list, "abs": abs,
                     "min": min, "max": max, "sum": sum, "sorted": sorted, "set": set, "range": range}[fname](*args)
                return list(r) if fname == "range" else r
            except Exception as e:
                raise Unknown(str(e))
        if fname is not None and fname.split(".")[-1] == "namedtuple" and len(node.args) >= 2:
            tname = self.eval(node.args[0], m, env)
            flds = self.eval(node.args[1], m, env)
            if isinstance(flds, str):
                flds = flds.replace(",", " ").split()
            return NamedTupleType(tname, tuple(flds))
        # Cls.__subclasses__(): the classes of the repository that name Cls as a direct base, defined in the same module before this
        # statement (the order in which the interpreter created them)
        if isinstance(node.func, ast.Attribute) and node.func.attr == "__subclasses__" and not node.args and not node.keywords:
            base = self.repo.resolve_class(m, node.func.value)
            if base is not None:
                subs = [c for c in m.classes.values() if base in getattr(c, "bases", []) and c.node.lineno < node.lineno]
                return [ClassRef(c.qualname) for c in sorted(subs, key=lambda c: c.node.lineno)]
        # Enum call: Cls(value) -> member by value
        if fname is not None:
            r = self.repo.resolve(m, fname)
            if r and r[0] == "class" and self.is_enum(r[1]) and len(node.args) == 1:
                v = self.eval(node.args[0], m, env)
                for k, mv in self.enum_members(r[1]).items():
                    if mv == v:
                        return EnumMember(r[1].qualname, k, mv)
                raise Unknown(f"no member of {r[1].name} with value {v!r}")
            if r and r[0] == "func" and r[2].name == "add_padding":
                from . import wire

                return wire.eval_add_padding(self, r[1], r[2], node, m, env)
            if r and r[0] == "external" and r[1] in ("numpy.sqrt", "math.sqrt") and len(node.args) == 1:
                import math

                return math.sqrt(self.eval(node.args[0], m, env))
            # a function of the repository that only returns an expression of its parameters: evaluated with the arguments bound
            if r and r[0] == "func" and not node.keywords and not any(isinstance(a, ast.Starred) for a in node.args):
                fn = r[2]
                body = [s_ for s_ in fn.body if not (isinstance(s_, ast.Expr) and isinstance(s_.value, ast.Constant) and isinstance(s_.value.value, str))]
                ps = [a.arg for a in fn.args.args]
                if len(body) == 1 and isinstance(body[0], ast.Return) and body[0].value is not None and len(ps) == len(node.args) and not fn.args.vararg and not fn.args.kwarg \
                        and not fn.decorator_list and getattr(self, "_call_depth", 0) < 6:
                    self._call_depth = getattr(self, "_call_depth", 0) + 1
                    try:
                        return self.eval(body[0].value, r[1], {p_: self.eval(a_, m, env) for p_, a_ in zip(ps, node.args)})
                    finally:
                        self._call_depth -= 1
        # Cls.method() for a classmethod / staticmethod of the repository that only returns an expression (e.g. `return len(bytes(cls()))`)
        if isinstance(node.func, ast.Attribute) and not node.keywords and not any(isinstance(a, ast.Starred) for a in node.args):
            c = self.repo.resolve_class(m, node.func.value)
            if c is not None:
                rr = self.repo.lookup(c, node.func.attr)
                if rr is not None:
                    fn = rr[1]
                    decs = {(dotted(d) or "").split(".")[-1] for d in fn.decorator_list}
                    body = [s_ for s_ in fn.body if not (isinstance(s_, ast.Expr) and isinstance(s_.value, ast.Constant) and isinstance(s_.value.value, str))]
                    ps = [a.arg for a in fn.args.args]
                    if decs in ({"classmethod"}, {"staticmethod"}) and len(body) == 1 and isinstance(body[0], ast.Return) and body[0].value is not None and getattr(self, "_call_depth", 0) < 6:
                        bound = {}
                        if "classmethod" in decs:
                            bound[ps[0]] = self.eval(node.func.value, m, env)
                            ps = ps[1:]
                        if len(ps) == len(node.args):
                            bound.update({p_: self.eval(a_, m, env) for p_, a_ in zip(ps, node.args)})
                            self._call_depth = getattr(self, "_call_depth", 0) + 1
                            try:
                                return self.eval(body[0].value, rr[0].module, bound)
                            finally:
                                self._call_depth -= 1
        raise Unknown(f"call {src(node)}")


def eval_module_table(ev: ConstEval, m: ModuleInfo, name: str):
    """Value of a module-level list built by `name = [...]` followed by
    module-level (nested) for-loops that `name.append(expr)` / `name += [...]`."""
    value = None
    started = False

    def run_block(stmts, env):
        nonlocal value
        for st in stmts:
            if isinstance(st, ast.For):
                it = ev.eval(st.iter, m, env)
                for item in it:
                    env2 = dict(env)
                    bind(st.target, item, env2)
                    run_block(st.body, env2)
            elif isinstance(st, ast.Expr) and isinstance(st.value, ast.Call) and isinstance(st.value.func, ast.Attribute) \
                    and isinstance(st.value.func.value, ast.Name) and st.value.func.value.id == name:
                meth = st.value.func.attr
                args = [ev.eval(a, m, env) for a in st.value.args]
                if meth == "append":
                    value.append(args[0])
                elif meth == "extend":
                    value.extend(args[0])
                else:
                    raise Unknown(f"{name}.{meth} at module level")
            elif isinstance(st, ast.AugAssign) and isinstance(st.target, ast.Name) and st.target.id == name and isinstance(st.op, ast.Add):
                value.extend(ev.eval(st.value, m, env))
            elif any(isinstance(n, ast.Name) and n.id == name and isinstance(n.ctx, (ast.Store, ast.Del)) for n in ast.walk(st)):
                raise Unknown(f"unsupported module-level mutation of {name}: {src(st)[:60]}")
            elif any(isinstance(n, ast.Name) and n.id == name for n in ast.walk(st)) and isinstance(st, (ast.For, ast.While, ast.If, ast.Expr)):
                # mentions inside functions are uses, not mutations; only flag direct statements
                if not isinstance(st, (ast.FunctionDef, ast.ClassDef)):
                    raise Unknown(f"unsupported module-level use of {name}: {src(st)[:60]}")

    def bind(target, item, env):
        if isinstance(target, ast.Name):
            env[target.id] = item
        elif isinstance(target, (ast.Tuple, ast.List)):
            for t, v in zip(target.elts, item):
                bind(t, v, env)

    for st in m.tree.body:
        if not started:
            tgt = None
            if isinstance(st, ast.Assign) and len(st.targets) == 1 and isinstance(st.targets[0], ast.Name) and st.targets[0].id == name:
                tgt = st.value
            elif isinstance(st, ast.AnnAssign) and isinstance(st.target, ast.Name) and st.target.id == name and st.value is not None:
                tgt = st.value
            if tgt is not None:
                value = ev.eval(tgt, m)
                if not isinstance(value, list):
                    raise Unknown(f"{name} is not a list")
                value = list(value)
                started = True
            continue
        if isinstance(st, (ast.FunctionDef, ast.AsyncFunctionDef, ast.ClassDef)):
            continue
        if isinstance(st, (ast.Assign, ast.AnnAssign)):
            tg = st.targets if isinstance(st, ast.Assign) else [st.target]
            if any(isinstance(t, ast.Name) and t.id == name for t in tg):
                raise Unknown(f"{name} re-assigned at module level")
            continue
        run_block([st], {})
    if not started:
        raise Unknown(f"module-level table {name} not found")
    return value
