"""Checker-side model of ctypes.Structure objects for the interpreter (nqsa/circuit.py).

A structure object of a repository class is an `Obj` whose fields hold what ctypes would hold: a scalar field stores the
value wrapped to the field's width and signedness (ctypes truncates silently - that is exactly what the range rules are
about), a bit-field likewise for its bit count, a nested structure field stores a structure object, an array field a list.
`encode` produces the bytes ctypes would produce (layout from nqsa/wire.py: packing, LSB-first bit-fields, little endian),
`decode` is its inverse.  Nothing of ctypes is imported or run.
"""
from __future__ import annotations

from typing import Any, List

from . import wire
from .model import AnalysisError, CArray, CScalar, CStructRef, ClassInfo, ConstEval


class CTypeError(Exception):
    """what ctypes raises as TypeError"""


def wrap(value, bits: int, signed: bool):
    if isinstance(value, bool):
        value = int(value)
    if not isinstance(value, int):
        idx = getattr(value, "__index__", None)
        if idx is None:
            raise CTypeError(f"an integer is required (got type {type(value).__name__})")
        value = idx()
    value &= (1 << bits) - 1
    if signed and bits and value >= 1 << (bits - 1):
        value -= 1 << bits
    return value


def default_of(ev: ConstEval, t, make_obj):
    if isinstance(t, CScalar):
        return 0
    if isinstance(t, CArray):
        return [default_of(ev, t.elem, make_obj) for _ in range(t.n)]
    if isinstance(t, CStructRef):
        return new_struct(ev, wire.struct_class(ev, t), make_obj)
    raise AnalysisError(f"ctypes model: field type {t!r}")


def new_struct(ev: ConstEval, c: ClassInfo, make_obj):
    o = make_obj(c)
    for name, t, bits in wire.struct_fields(ev, c):
        o.fields[name] = default_of(ev, t, make_obj)
    return o


def store(ev: ConstEval, o, name: str, value, is_obj) -> bool:
    """o.<name> = value as ctypes does it; False when `name` is not a field of the structure"""
    for fname, t, bits in wire.struct_fields(ev, o.cls):
        if fname != name:
            continue
        if isinstance(t, CScalar):
            o.fields[name] = wrap(value, bits if bits is not None else 8 * t.size, t.signed)
        elif isinstance(t, CStructRef):
            if not (is_obj(value) and value.cls is not None and wire.struct_class(ev, t) in ev.repo.mro(value.cls)):
                raise CTypeError(f"expected {t.qualname.split(':')[-1]} instance, got {type(value).__name__}")
            o.fields[name] = value
        elif isinstance(t, CArray):
            vals = list(value)
            if len(vals) > t.n:
                raise CTypeError("too many initializers")
            cur = default_of(ev, t, lambda c_: None) if isinstance(t.elem, CScalar) else o.fields.get(name)
            for i_, v_ in enumerate(vals):
                cur[i_] = wrap(v_, 8 * t.elem.size, t.elem.signed) if isinstance(t.elem, CScalar) else v_
            o.fields[name] = cur
        else:
            raise AnalysisError(f"ctypes model: field type {t!r}")
        return True
    return False


def init(ev: ConstEval, o, args: List[Any], kwargs, is_obj):
    """Structure.__init__(*args, **kwargs): positional values fill the fields in order, keywords by name"""
    names = [f[0] for f in wire.struct_fields(ev, o.cls)]
    if len(args) > len(names):
        raise CTypeError("too many initializers")
    for n_, v_ in zip(names, args):
        store(ev, o, n_, v_, is_obj)
    for k_, v_ in kwargs.items():
        if not store(ev, o, k_, v_, is_obj):
            o.fields[k_] = v_  # ctypes sets unknown keywords as plain attributes


def _get(o, path):
    v = o
    for p in path:
        v = v.fields[p]
    return v


def encode(ev: ConstEval, o) -> bytes:
    flat, size = wire.layout(ev, o.cls)
    word = 0
    for fl in flat:
        v = _get(o, fl.path)
        if isinstance(fl.ctype, CArray):
            el = fl.ctype.elem
            if not isinstance(el, CScalar):
                raise AnalysisError("ctypes model: array of structures inside a fixed structure")
            for i_, x_ in enumerate(v):
                word |= (wrap(x_, 8 * el.size, False)) << (8 * (fl.offset + i_ * el.size))
            continue
        word |= wrap(v, fl.bits, False) << (8 * fl.offset + fl.bit_offset)
    return word.to_bytes(size, "little")


def decode(ev: ConstEval, c: ClassInfo, raw, make_obj):
    flat, size = wire.layout(ev, c)
    raw = bytes(raw)
    if len(raw) < size:
        raise ValueError(f"Buffer size too small ({len(raw)} instead of at least {size} bytes)")
    word = int.from_bytes(raw[:size], "little")
    o = new_struct(ev, c, make_obj)
    for fl in flat:
        holder = _get(o, fl.path[:-1])
        if isinstance(fl.ctype, CArray):
            el = fl.ctype.elem
            holder.fields[fl.path[-1]] = [wrap(word >> (8 * (fl.offset + i_ * el.size)), 8 * el.size, el.signed) for i_ in range(fl.ctype.n)]
            continue
        holder.fields[fl.path[-1]] = wrap(word >> (8 * fl.offset + fl.bit_offset), fl.bits, fl.signed)
    return o


def sizeof(ev: ConstEval, c: ClassInfo) -> int:
    return wire.layout(ev, c)[1]
