"""H-hierarchy: no type test that an earlier type test has already decided.

`if isinstance(x, A): ... elif isinstance(x, B): ...` with B a subclass of A never reaches its second arm for any B
(every B is an A): the arm written for the special case is dead and the special case is treated like the general one.
In this repository the special cases are exactly the ones that matter - RegFuture and Future are `int` subclasses (a
future *is* its eventual value), so a test for `int` placed before the test for `RegFuture` swallows every register
future.  The rule is a contradiction check in the sense of Engler et al.: the code states two beliefs (this arm handles
B; B cannot arrive here) that cannot both hold.

For every `isinstance(x, B)` test (any branching style: elif chains, guard clauses, conditional expressions inside the
analysed statement forms) the facts that hold where the test is evaluated are taken from `guards.path_conditions`; if one of
them says `isinstance(x, A)` is false for an ancestor A of B (by the class hierarchy of the repository, builtin bases
included by name), the test can never succeed.  Classes the hierarchy cannot resolve yield no obligation.
"""
from __future__ import annotations

import ast
from typing import Dict, List, Optional, Set

from . import astutil as A
from . import guards as G
from .model import dotted, src


def _ancestors(repo, mod, name_expr, cache: Dict[str, Optional[Set[str]]]) -> Optional[Set[str]]:
    """names of the class an isinstance test names and of all its ancestors (builtin / external bases by their last name)"""
    d = dotted(name_expr)
    if d is None:
        return None
    c = repo.resolve_class(mod, name_expr)
    if c is None:
        last = d.split(".")[-1]
        return {last} if last in ("int", "str", "float", "bool", "list", "tuple", "dict", "bytes", "object") else None
    if c.qualname in cache:
        return cache[c.qualname]
    cache[c.qualname] = None  # cycle guard
    out = {c.name}
    for b in c.node.bases:
        sub = _ancestors(repo, c.module, b, cache)
        if sub is None:
            bd = dotted(b)
            if bd:
                out.add(bd.split(".")[-1])
        else:
            out |= sub
    if "bool" in out:
        out.add("int")
    cache[c.qualname] = out
    return out


def _isinstance_parts(t):
    """(subject text, [class expressions]) of an isinstance call"""
    if isinstance(t, ast.Call) and dotted(t.func) == "isinstance" and len(t.args) == 2:
        cls = t.args[1].elts if isinstance(t.args[1], ast.Tuple) else [t.args[1]]
        return A.norm(t.args[0]), list(cls)
    return None, []


def check(ctx, rule: str, modules: List[str]):
    repo = ctx.repo
    cache: Dict[str, Optional[Set[str]]] = {}
    n = 0
    for mn in modules:
        mod = repo.modules.get(mn)
        if mod is None:
            ctx.error(rule, f"module {mn} not found")
            continue
        for _m, qn, fn, cls in repo.iter_functions(mn):
            if _m is not mod:
                continue
            for node in A.body_nodes(fn):
                if not isinstance(node, ast.If):
                    continue
                # the isinstance calls of this test (a disjunction tests each of its members)
                tests = [x for x in ast.walk(node.test) if isinstance(x, ast.Call) and dotted(x.func) == "isinstance" and len(x.args) == 2]
                if not tests:
                    continue
                known_false = []
                for t, pol in G.path_conditions(fn, node):
                    subj, classes = _isinstance_parts(t)
                    if subj is not None and not pol:
                        for c_ in classes:
                            anc = _ancestors(repo, mod, c_, cache)
                            if anc is not None:
                                known_false.append((subj, dotted(c_).split(".")[-1], src(t)))
                if not known_false:
                    continue
                for t in tests:
                    subj, classes = _isinstance_parts(t)
                    for c_ in classes:
                        anc = _ancestors(repo, mod, c_, cache)
                        if anc is None:
                            continue
                        n += 1
                        own = dotted(c_).split(".")[-1]
                        hit = [kf for kf in known_false if kf[0] == subj and kf[1] in anc and kf[1] != own]
                        ctx.fn(f"{mn.split('.')[-1]}.{qn}")
                        ctx.check(rule, f"{mn.split('.')[-1]}.{qn}:isinstance({subj},{own}):not-already-decided", not hit,
                                  f"{qn} tests `isinstance({subj}, {own})` where `{hit[0][2] if hit else ''}` is already known to be false, but every {own} is a {hit[0][1] if hit else ''} "
                                  f"({own} -> {sorted(anc - {own})}): this arm can never be taken, so a {own} is handled by the arm written for {hit[0][1] if hit else ''}",
                                  repo.loc(mod, t), trivial=True)
    ctx.check(rule, "type-tests-examined", True, sample={"isinstance tests reached under an earlier negative type fact": n}, trivial=True)
