"""Seeded-mutation self-test of the rules (thorough tier).

Each rules module may define SEEDS: a list of dicts
  {id, file, old, new, expect (rule prefix) [, construct (substring)] [, count]}
describing one textual edit of a scratch copy of /repo/netqasm that breaks the
property while the tree still parses.  The rule must report an unlisted
violation whose rule id starts with `expect`.  BENIGN: edits that keep the
property; the verdict must not change.  A seed whose anchor text is absent
(the tree was changed) is skipped and counted, not failed.  A self-test
failure is an ANALYSIS-ERROR (the analyser is broken), never a violation.
"""
from __future__ import annotations

import ast
import importlib
import os
import shutil
import tempfile
from concurrent.futures import ProcessPoolExecutor

from . import report
from .model import REPO_ROOT


def _rename_locals(tree, suffix="_v"):
    """Behaviour-preserving: rename every purely local variable of every outermost function (params, globals, names
    rebound in nested scopes and comprehension targets are left alone)."""
    fdefs = (ast.FunctionDef, ast.AsyncFunctionDef)

    def outer_functions(node, inside=False):
        for ch in ast.iter_child_nodes(node):
            if isinstance(ch, fdefs):
                if not inside:
                    yield ch
                continue
            yield from outer_functions(ch, inside)

    for fn in outer_functions(tree):
        own, banned = set(), set()

        def scan(node, depth):
            for ch in ast.iter_child_nodes(node):
                if isinstance(ch, fdefs + (ast.Lambda,)):
                    a = ch.args
                    for x in a.posonlyargs + a.args + a.kwonlyargs + [a.vararg, a.kwarg]:
                        if x is not None:
                            banned.add(x.arg)
                    if isinstance(ch, fdefs):
                        banned.add(ch.name)
                    scan(ch, depth + 1)
                elif isinstance(ch, ast.ClassDef):
                    banned.add(ch.name)
                    for n in ast.walk(ch):
                        if isinstance(n, ast.Name):
                            banned.add(n.id)
                elif isinstance(ch, (ast.ListComp, ast.SetComp, ast.DictComp, ast.GeneratorExp)):
                    for g in ch.generators:
                        for n in ast.walk(g.target):
                            if isinstance(n, ast.Name):
                                banned.add(n.id)
                    scan(ch, depth)
                elif isinstance(ch, (ast.Global, ast.Nonlocal)):
                    banned.update(ch.names)
                elif isinstance(ch, (ast.Import, ast.ImportFrom)):
                    for al in ch.names:
                        banned.add((al.asname or al.name).split(".")[0])
                elif isinstance(ch, ast.ExceptHandler):
                    if ch.name:
                        banned.add(ch.name)
                    scan(ch, depth)
                else:
                    if isinstance(ch, ast.Name) and isinstance(ch.ctx, (ast.Store, ast.Del)):
                        (own if depth == 0 else banned).add(ch.id)
                    scan(ch, depth)

        a = fn.args
        for x in a.posonlyargs + a.args + a.kwonlyargs + [a.vararg, a.kwarg]:
            if x is not None:
                banned.add(x.arg)
        scan(fn, 0)
        ren = own - banned
        for n in ast.walk(fn):
            if isinstance(n, ast.Name) and n.id in ren:
                n.id = n.id + suffix
    return tree


def _reorder_methods(tree):
    """Behaviour-preserving: the methods of every class are put in alphabetical order (a property's getter stays before
    its setter; classes whose body mixes statements and methods after the first method are left alone)."""
    fdefs = (ast.FunctionDef, ast.AsyncFunctionDef)
    for c in ast.walk(tree):
        if not isinstance(c, ast.ClassDef):
            continue
        first = next((i for i, st in enumerate(c.body) if isinstance(st, fdefs)), None)
        if first is None or not all(isinstance(st, fdefs) for st in c.body[first:]):
            continue
        head, fns = c.body[:first], c.body[first:]
        order = {}
        for i, f in enumerate(fns):
            order.setdefault(f.name, i)
        fns_sorted = sorted(fns, key=lambda f: (f.name, fns.index(f)))
        c.body = head + fns_sorted
    return tree


def _transform(kind, text):
    if kind == "reorder-methods":
        return ast.unparse(_reorder_methods(ast.parse(text))) + "\n"
    if kind == "unparse":
        return ast.unparse(ast.parse(text)) + "\n"
    if kind == "shift":
        return "# shifted\n#\n\n" + text.replace("\n    def ", "\n\n    # moved\n    def ")
    if kind == "rename-locals":
        return ast.unparse(_rename_locals(ast.parse(text))) + "\n"
    raise ValueError(kind)


GLOBAL_BENIGN = [
    {"id": "global-reformat(ast.unparse of every module)", "transform": "unparse", "expect": None},
    {"id": "global-shift(comment lines added before every module and method)", "transform": "shift", "expect": None},
    {"id": "global-rename-locals(every purely local variable renamed)", "transform": "rename-locals", "expect": None},
    {"id": "global-reorder-methods(methods of every class in alphabetical order)", "transform": "reorder-methods", "expect": None},
]


# properties whose rules are confirmed independent of the names of local variables (all of them)
RENAME_ROBUST = {"C%02d" % i for i in range(1, 21)}


def _filed(prop, own_only=False):
    """independently written changes filed under /verif/seeded (must fire for their target property) and behaviour-preserving
    refactorings filed under /verif/benign (every property must stay silent)"""
    import json
    out = []
    base = os.path.dirname(os.path.dirname(os.path.abspath(__file__)))
    for kind in ("seeded", "benign"):
        d = os.path.join(base, kind)
        if not os.path.isdir(d):
            continue
        for name in sorted(os.listdir(d)):
            mp, pp = os.path.join(d, name, "meta.json"), os.path.join(d, name, "patch.diff")
            if not (os.path.exists(mp) and os.path.exists(pp)):
                continue
            try:
                meta = json.load(open(mp))
            except ValueError:
                continue
            if kind == "seeded" and meta.get("property") == prop and meta.get("confirmed") and meta.get("detected_by_target_property", True):
                # regression guard: every filed change its target property detected at the last re-evaluation must stay detected;
                # the ones not detected yet are listed by tools/reeval_seeds.py as open work
                out.append({"id": f"filed-change:{name}", "patch": pp, "expect": prop})
            elif kind == "benign" and meta.get("suite_green") and meta.get("silent") and (not own_only or f"-{prop}-" in name):
                # regression guard: refactorings on which every property was silent at their last re-evaluation (tools/reeval_benign.py)
                # must stay silent; the ones still raising an alarm are listed by that tool as open work, not replayed here
                out.append({"id": f"filed-refactoring:{name}", "patch": pp, "expect": None})
    return out


def _one_patch(prop, seed, src_root):
    import subprocess
    from .cli import evaluate
    tmp = tempfile.mkdtemp(prefix="nqsa-st-")
    try:
        shutil.copytree(os.path.join(src_root, "netqasm"), os.path.join(tmp, "netqasm"), ignore=shutil.ignore_patterns("__pycache__", "*.pyc"))
        r = subprocess.run(["git", "apply", "--exclude=demo.py", seed["patch"]], cwd=tmp, capture_output=True, text=True)
        if r.returncode != 0:
            return (seed["id"], "skipped", "patch no longer applies to this tree")
        ctx = evaluate(prop, "quick", root=tmp)
        violations, known = report.classify(ctx)
        if seed["expect"] is None:
            if ctx.errors:
                return (seed["id"], "failed", "behaviour-preserving refactoring -> analysis error: " + "; ".join(ctx.errors)[:300])
            if violations:
                return (seed["id"], "failed", "behaviour-preserving refactoring -> violation: " + "; ".join(f"{v.rule} {v.construct}" for v in violations)[:300])
            return (seed["id"], "ok", "silent")
        if violations:
            return (seed["id"], "ok", f"{violations[0].rule} {violations[0].construct}")
        return (seed["id"], "failed", "filed breaking change is no longer reported" + (" (analysis error: " + ctx.errors[0][:200] + ")" if ctx.errors else ""))
    finally:
        shutil.rmtree(tmp, ignore_errors=True)


def _one(args):
    prop, seed, src_root = args
    from .cli import evaluate

    if seed.get("patch"):
        return _one_patch(prop, seed, src_root)

    if seed.get("transform"):
        tmp = tempfile.mkdtemp(prefix="nqsa-st-")
        try:
            shutil.copytree(os.path.join(src_root, "netqasm"), os.path.join(tmp, "netqasm"),
                            ignore=shutil.ignore_patterns("__pycache__", "*.pyc"))
            for dp, dn, fns in os.walk(os.path.join(tmp, "netqasm")):
                for fn in fns:
                    if fn.endswith(".py"):
                        path = os.path.join(dp, fn)
                        with open(path) as fh:
                            text = fh.read()
                        with open(path, "w") as fh:
                            fh.write(_transform(seed["transform"], text))
            ctx = evaluate(prop, "quick", root=tmp)
            violations, known = report.classify(ctx)
            if ctx.errors:
                return (seed["id"], "failed", "benign transformation -> analysis error: " + "; ".join(ctx.errors)[:400])
            if violations:
                return (seed["id"], "failed", "benign transformation -> violation: " + "; ".join(f"{v.rule} {v.construct}" for v in violations)[:400])
            return (seed["id"], "ok", "silent on benign transformation")
        finally:
            shutil.rmtree(tmp, ignore_errors=True)
    edits = seed.get("edits") or [(seed["file"], seed["old"], seed["new"])]
    texts = {}
    for e in edits:
        rel, old, new = e[:3]
        want = e[3] if len(e) > 3 else seed.get("count", 1)
        path = os.path.join(src_root, rel)
        if rel not in texts:
            try:
                with open(path) as fh:
                    texts[rel] = fh.read()
            except OSError:
                return (seed["id"], "skipped", "file absent")
        text = texts[rel]
        cnt = text.count(old)
        if cnt == 0 or (want != "all" and cnt != want):
            return (seed["id"], "skipped", f"anchor occurs {cnt}x in {rel}")
        texts[rel] = text.replace(old, new)
    for rel, new_text in texts.items():
        try:
            ast.parse(new_text)
        except SyntaxError as e:
            return (seed["id"], "failed", f"mutant does not parse: {e}")
    tmp = tempfile.mkdtemp(prefix="nqsa-st-")
    try:
        shutil.copytree(os.path.join(src_root, "netqasm"), os.path.join(tmp, "netqasm"),
                        ignore=shutil.ignore_patterns("__pycache__", "*.pyc"))
        for rel, new_text in texts.items():
            with open(os.path.join(tmp, rel), "w") as fh:
                fh.write(new_text)
        ctx = evaluate(prop, "quick", root=tmp)
        violations, known = report.classify(ctx)
        if seed.get("expect") is None:
            # benign edit: same verdict as baseline (no unlisted violation, no error)
            if ctx.errors:
                return (seed["id"], "failed", "benign edit -> analysis error: " + "; ".join(ctx.errors)[:300])
            if violations:
                return (seed["id"], "failed", "benign edit -> violation: " + "; ".join(f"{v.rule} {v.construct}" for v in violations)[:300])
            return (seed["id"], "ok", "silent on benign edit")
        hits = [v for v in violations if v.rule.startswith(seed["expect"]) and seed.get("construct", "") in v.construct]
        if hits:
            return (seed["id"], "ok", f"{hits[0].rule} {hits[0].construct}")
        if ctx.errors:
            return (seed["id"], "failed", "analysis error instead of violation: " + "; ".join(ctx.errors)[:300])
        return (seed["id"], "failed", "not detected; violations=" + "; ".join(f"{v.rule} {v.construct}" for v in violations)[:300])
    finally:
        shutil.rmtree(tmp, ignore_errors=True)


def run_seeds(prop, seeds, src_root=None, workers=None):
    src_root = src_root or REPO_ROOT
    workers = workers or min(16, max(1, len(seeds)))
    if not seeds:
        return []
    with ProcessPoolExecutor(max_workers=workers) as ex:
        return list(ex.map(_one, [(prop, s, src_root) for s in seeds]))


def run_for(prop, ctx=None, own_only=False):
    """own_only (the thorough tier of one check): of the filed refactorings only those written against this property are replayed;
    `./selftest` replays every filed refactoring against every property"""
    mod = importlib.import_module(f"nqsa.rules.{prop.lower()}")
    seeds = list(getattr(mod, "SEEDS", [])) + [dict(s, expect=None) for s in getattr(mod, "BENIGN", [])] + \
        [g for g in GLOBAL_BENIGN if g["transform"] != "rename-locals" or prop in RENAME_ROBUST] + ([] if os.environ.get("NQSA_NO_FILED") else _filed(prop, own_only))
    res = run_seeds(prop, seeds)
    summary = {"seeds": len(seeds), "ok": 0, "skipped": 0, "failed": 0, "results": []}
    for sid, status, msg in res:
        summary[status] += 1
        summary["results"].append({"seed": sid, "status": status, "detail": msg})
        if status == "failed" and ctx is not None:
            ctx.error("selftest", f"seed {sid}: {msg}")
    return summary


def main(argv):
    import sys
    os.environ["NQSA_SELFTEST"] = "1"  # (the long runs of C14.X use the shortest length that still exceeds the register file)

    props = argv or ["C%02d" % i for i in range(1, 21)]
    bad = 0
    for p in props:
        s = run_for(p.upper())
        print(f"{p}: seeds={s['seeds']} ok={s['ok']} skipped={s['skipped']} failed={s['failed']}")
        for r in s["results"]:
            if r["status"] != "ok" or os.environ.get("NQSA_VERBOSE"):
                print(f"   {r['status']:8s} {r['seed']}: {r['detail']}")
        bad += s["failed"]
    return 1 if bad else 0
