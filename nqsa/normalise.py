"""Normalisation front-end: the rules see one canonical form of the source whatever equivalent style it is written in.

Applied to every parsed module before it is indexed (model.Repo).  Each pass is a behaviour-preserving rewrite of the
syntax tree held by the checker (the repository is never touched); positions are kept so that reports still point at
the original lines.  The passes undo the common styles of refactoring so that a rule written against one shape accepts
the equivalent shapes:

  N1  isinstance(x, (A, B))                 ->  isinstance(x, A) or isinstance(x, B)
  N2  if x is not None: A else: B           ->  if x is None: B else: A        (both branches present)
      if not c: A else: B                   ->  if c: B else: A
  N3  if c: A(terminates) else: B           ->  if c: A ; B                    (guard-clause form, repeated)
      if c: A else: B(terminates)           ->  if not c: B ; A
      elif chains are kept as nested ifs by the parser; flattening applies at every level
  N4  calls to private helpers that are not part of the repository's known interface (reference/known_names.json) are
      inlined: expression helpers (`return <expr>`) anywhere, statement helpers where the call is a whole statement /
      the right-hand side of an assignment / a returned value / a `yield from`, with guard-clause returns
  N5  x = [f(a) for a in it]  where f is such a helper  ->  x = [] ; for a in it: x.append(f(a))   (so that N4 applies)
  N6  single-use pure locals introduced only to name a value (t = <attribute chain | len(..) | constant expression>)
      are substituted back into their single use, when nothing between definition and use can change the value

A pass never changes what the code does; where a construct is outside what a pass understands it is left as it is.
"""
from __future__ import annotations

import ast
import copy
import json
import os
from typing import Dict, List, Optional, Set, Tuple

FDEFS = (ast.FunctionDef, ast.AsyncFunctionDef)
KNOWN_FILE = os.path.join(os.path.dirname(os.path.dirname(os.path.abspath(__file__))), "reference", "known_names.json")
_known_cache: Optional[Dict[str, List[str]]] = None


def dotted_name(e):
    parts = []
    while isinstance(e, ast.Attribute):
        parts.append(e.attr)
        e = e.value
    if isinstance(e, ast.Name):
        parts.append(e.id)
        return ".".join(reversed(parts))
    return None


def known_names() -> Dict[str, List[str]]:
    global _known_cache
    if _known_cache is None:
        try:
            with open(KNOWN_FILE) as fh:
                _known_cache = json.load(fh)
        except (OSError, ValueError):
            _known_cache = {}
    return _known_cache


# ---------------------------------------------------------------------------------------------------------------------
# N1 / N2

class _Isinstance(ast.NodeTransformer):
    def __init__(self, module_tuples: Optional[Dict[str, ast.Tuple]] = None):
        self.module_tuples = module_tuples or {}

    def visit_Call(self, node):
        self.generic_visit(node)
        if isinstance(node.func, ast.Name) and node.func.id == "isinstance" and len(node.args) == 2 and isinstance(node.args[1], ast.Name) and node.args[1].id in self.module_tuples:
            node.args[1] = copy.deepcopy(self.module_tuples[node.args[1].id])  # a module-level tuple of classes, written out
        if isinstance(node.func, ast.Name) and node.func.id == "isinstance" and len(node.args) == 2 and isinstance(node.args[1], ast.Tuple) and len(node.args[1].elts) >= 2 and not node.keywords:
            x = node.args[0]
            if isinstance(x, (ast.Name, ast.Attribute, ast.Subscript)):  # re-evaluating x is free of effects
                vals = [ast.copy_location(ast.Call(func=ast.Name(id="isinstance", ctx=ast.Load()), args=[copy.deepcopy(x), t], keywords=[]), node) for t in node.args[1].elts]
                return ast.copy_location(ast.BoolOp(op=ast.Or(), values=vals), node)
        return node


def _terminates(stmts) -> bool:
    if not stmts:
        return False
    last = stmts[-1]
    if isinstance(last, (ast.Return, ast.Raise, ast.Continue, ast.Break)):
        return True
    if isinstance(last, ast.If) and last.orelse:
        return _terminates(last.body) and _terminates(last.orelse)
    return False


def _negate(test):
    if isinstance(test, ast.UnaryOp) and isinstance(test.op, ast.Not):
        return test.operand
    if isinstance(test, ast.Compare) and len(test.ops) == 1:
        flip = {ast.Is: ast.IsNot, ast.IsNot: ast.Is, ast.Eq: ast.NotEq, ast.NotEq: ast.Eq, ast.In: ast.NotIn, ast.NotIn: ast.In}
        for a, b in flip.items():
            if isinstance(test.ops[0], a):
                return ast.copy_location(ast.Compare(left=test.left, ops=[b()], comparators=test.comparators), test)
    return ast.copy_location(ast.UnaryOp(op=ast.Not(), operand=test), test)


def _swap_negative_ifs(node):
    """N2 on every If / IfExp below node"""
    for n in ast.walk(node):
        if isinstance(n, ast.If) and n.orelse and not (len(n.orelse) == 1 and isinstance(n.orelse[0], ast.If) and _is_elif(n, n.orelse[0])):
            t = n.test
            neg = (isinstance(t, ast.Compare) and len(t.ops) == 1 and isinstance(t.ops[0], ast.IsNot) and isinstance(t.comparators[0], ast.Constant) and t.comparators[0].value is None) or \
                  (isinstance(t, ast.UnaryOp) and isinstance(t.op, ast.Not)) or \
                  (isinstance(t, ast.Compare) and len(t.ops) == 1 and isinstance(t.ops[0], ast.NotIn))  # `x not in T` with both branches: the positive membership first
            if neg:
                n.test = _negate(t)
                n.body, n.orelse = n.orelse, n.body
        elif isinstance(n, ast.IfExp):
            t = n.test
            neg = (isinstance(t, ast.Compare) and len(t.ops) == 1 and isinstance(t.ops[0], ast.IsNot) and isinstance(t.comparators[0], ast.Constant) and t.comparators[0].value is None) or \
                  (isinstance(t, ast.UnaryOp) and isinstance(t.op, ast.Not))
            if neg:
                n.test = _negate(t)
                n.body, n.orelse = n.orelse, n.body


def _is_elif(parent: ast.If, child: ast.If) -> bool:
    # an `elif` has the column of its parent `if`
    return getattr(child, "col_offset", -1) == getattr(parent, "col_offset", -2)


# ---------------------------------------------------------------------------------------------------------------------
# N3 guard-clause form

def _flatten_block(stmts: List[ast.stmt], in_loop: bool = False, in_function: bool = False) -> List[ast.stmt]:
    # in a loop body `...; if c: rest` (last statement, no else) is the same as `...; if not c: continue; rest`;
    # at the end of a function body it is the same as `...; if not c: return; rest`
    if (in_loop or in_function) and len(stmts) > 1 and isinstance(stmts[-1], ast.If) and not stmts[-1].orelse and not _terminates(stmts[-1].body):
        last = stmts[-1]
        leave = ast.Continue() if in_loop else ast.Return(value=None)
        guard = ast.copy_location(ast.If(test=_negate(last.test), body=[ast.copy_location(leave, last)], orelse=[]), last)
        stmts = list(stmts[:-1]) + [guard] + list(last.body)
    out: List[ast.stmt] = []
    for st in stmts:
        for field in ("body", "orelse", "finalbody"):
            sub = getattr(st, field, None)
            if isinstance(sub, list) and sub and isinstance(sub[0], ast.stmt):
                setattr(st, field, _flatten_block(sub, in_loop=(field == "body" and isinstance(st, (ast.For, ast.AsyncFor, ast.While))),
                                                  in_function=(field == "body" and isinstance(st, FDEFS) and not any(isinstance(n, (ast.Yield, ast.YieldFrom)) for n in _walk_own(st)))))
        if isinstance(st, ast.Try):
            for h in st.handlers:
                h.body = _flatten_block(h.body)
        if isinstance(st, ast.If) and st.orelse:
            if _terminates(st.body):
                rest = st.orelse
                st.orelse = []
                out.append(st)
                out.extend(_flatten_block(rest))
                continue
            if _terminates(st.orelse):
                body = st.body
                st.test = _negate(st.test)
                st.body, st.orelse = st.orelse, []
                out.append(st)
                out.extend(_flatten_block(body))
                continue
        out.append(st)
    return out


# ---------------------------------------------------------------------------------------------------------------------
# N4 helper inlining

class _Subst(ast.NodeTransformer):
    def __init__(self, mapping: Dict[str, ast.AST]):
        self.mapping = mapping

    def visit_Name(self, node):
        if node.id in self.mapping and isinstance(node.ctx, ast.Load):
            return copy.deepcopy(self.mapping[node.id])
        return node


def _strip_doc(body):
    if body and isinstance(body[0], ast.Expr) and isinstance(body[0].value, ast.Constant) and isinstance(body[0].value.value, str):
        return body[1:]
    return body


def _simple_arg(a) -> bool:
    if isinstance(a, (ast.Name, ast.Constant)):
        return True
    if isinstance(a, ast.Attribute):
        return _simple_arg(a.value)
    if isinstance(a, ast.Subscript):
        return _simple_arg(a.value) and _simple_arg(a.slice)
    if isinstance(a, ast.UnaryOp):
        return _simple_arg(a.operand)
    if isinstance(a, (ast.Tuple, ast.List)):
        return all(_simple_arg(e) for e in a.elts)
    return False


class Helper:
    def __init__(self, fn, kind, owner=None):
        self.fn, self.kind, self.owner = fn, kind, owner  # kind: "function" | "method" | "static" | "class"
        a = fn.args
        self.ok = not (a.kwarg or a.posonlyargs)
        self.vararg = a.vararg.arg if a.vararg else None
        self.params = [p.arg for p in a.args]
        if kind in ("method", "class") and self.params:
            self.self_name = self.params[0]
            self.params = self.params[1:]
        else:
            self.self_name = None
        pos = a.args[1:] if self.self_name else a.args
        self.defaults = dict(zip([p.arg for p in pos][len(pos) - len(a.defaults):], a.defaults)) if a.defaults else {}
        for p, d in zip(a.kwonlyargs, a.kw_defaults):
            self.params.append(p.arg)
            if d is not None:
                self.defaults[p.arg] = d
        self.is_gen = any(isinstance(n, (ast.Yield, ast.YieldFrom)) for n in _walk_own(fn))
        self.is_ctx = False

    # the helper's own body is rewritten by the passes that run before inlining (guard-clause flattening replaces fn.body and moves
    # statements out of `else` branches): always read it from the function as it is now
    @property
    def body(self):
        return _strip_doc(self.fn.body)

    @property
    def expr(self):
        b = self.body
        return b[0].value if len(b) == 1 and isinstance(b[0], ast.Return) and b[0].value is not None else None

    @property
    def locals(self):
        return _own_locals(self.fn)

    def bind(self, call: ast.Call, receiver: Optional[ast.AST]) -> Optional[Dict[str, ast.AST]]:
        if not self.ok or any(k.arg is None for k in call.keywords):
            return None
        npos = len(self.params) - len(self.fn.args.kwonlyargs)
        if len(call.args) == 1 and isinstance(call.args[0], ast.Starred) and not call.keywords and self.vararg is None and npos == len(self.params) >= 1 \
                and _plain_chain(call.args[0].value):
            # f(*seq) with seq a name / attribute / subscript chain: parameter k reads seq[k]
            seq = call.args[0].value
            call = ast.Call(func=call.func, args=[ast.Subscript(value=copy.deepcopy(seq), slice=ast.Constant(value=k_), ctx=ast.Load()) for k_ in range(npos)], keywords=[])
        if any(isinstance(a, ast.Starred) for a in call.args):
            return None
        m: Dict[str, ast.AST] = {}
        if len(call.args) > npos and self.vararg is None:
            return None
        for p, a in zip(self.params[:npos], call.args):
            m[p] = a
        if self.vararg is not None:
            m[self.vararg] = ast.Tuple(elts=list(call.args[npos:]), ctx=ast.Load())
        for k in call.keywords:
            if k.arg not in self.params or k.arg in m:
                return None
            m[k.arg] = k.value
        for p in self.params:
            if p not in m:
                if p in self.defaults:
                    m[p] = self.defaults[p]
                else:
                    return None
        if self.self_name is not None:
            if receiver is None:
                return None
            m[self.self_name] = receiver
        return m


def _walk_own(fn):
    """nodes of fn excluding nested function/class bodies"""
    stack = list(ast.iter_child_nodes(fn))
    while stack:
        n = stack.pop()
        yield n
        if not isinstance(n, FDEFS + (ast.ClassDef, ast.Lambda)):
            stack.extend(ast.iter_child_nodes(n))


def _own_locals(fn) -> Set[str]:
    out = set()
    for n in _walk_own(fn):
        if isinstance(n, ast.Name) and isinstance(n.ctx, (ast.Store, ast.Del)):
            out.add(n.id)
    return out


def _returns_ok(stmts) -> bool:
    """returns only in tail position of the block structure (guard clauses allowed after N3: `if c: ...return` then rest)"""
    for i, st in enumerate(stmts):
        if isinstance(st, ast.Return):
            if i != len(stmts) - 1:
                return False
        elif isinstance(st, ast.If):
            has_ret = any(isinstance(n, ast.Return) for s in st.body + st.orelse for n in [s] + list(_walk_own(s)))
            if has_ret:
                # each branch containing a return must end by terminating, and contain returns only in tail position
                for br in (st.body, st.orelse):
                    if any(isinstance(n, ast.Return) for s in br for n in [s] + list(_walk_own(s))):
                        if not _returns_ok(br) or not _terminates(br):
                            return False
        elif isinstance(st, (ast.For, ast.While)) and any(isinstance(n, ast.Return) for n in _walk_own(st)):
            # a search loop: `for ...: if c: return E` followed by statements that do not return a value themselves
            if st.orelse or not _search_loop_ok(st.body):
                return False
            rest = stmts[i + 1:]
            if not _terminates(rest) or not _returns_ok(rest):
                return False
            return True
        elif any(isinstance(n, ast.Return) for n in _walk_own(st)) and not isinstance(st, FDEFS + (ast.ClassDef,)):
            return False  # return inside try / with
    return True


def _search_loop_ok(body) -> bool:
    """returns of the loop body are the last statement of an `if` at the top level of the body (no nested loops with returns)"""
    for st in body:
        if isinstance(st, ast.Return):
            return False
        if isinstance(st, ast.If):
            for br in (st.body, st.orelse):
                for k, s_ in enumerate(br):
                    if isinstance(s_, ast.Return) and k != len(br) - 1:
                        return False
                    if not isinstance(s_, ast.Return) and any(isinstance(n, ast.Return) for n in _walk_own(s_)):
                        return False
        elif any(isinstance(n, ast.Return) for n in _walk_own(st)):
            return False
    return True


def _assignify(stmts, make_result, fallthrough_none: bool) -> Optional[List[ast.stmt]]:
    """rewrite a helper body whose returns are in tail/guard position into statements that deliver the value through
    make_result(value_expr) instead of returning; code after a terminating `if` moves into its else branch"""
    out: List[ast.stmt] = []
    for i, st in enumerate(stmts):
        rest = stmts[i + 1:]
        if isinstance(st, ast.Return):
            out.extend(make_result(st.value if st.value is not None else ast.Constant(value=None)))
            return out
        if isinstance(st, (ast.For, ast.While)) and any(isinstance(n, ast.Return) for n in _walk_own(st)):
            # search loop: the returns become `deliver; break`, the code after the loop becomes its else branch
            loop = copy.deepcopy(st)

            def conv(block):
                new_block = []
                for s_ in block:
                    if isinstance(s_, ast.Return):
                        new_block.extend(make_result(s_.value if s_.value is not None else ast.Constant(value=None)))
                        new_block.append(ast.copy_location(ast.Break(), s_))
                    elif isinstance(s_, ast.If):
                        s_.body = conv(s_.body)
                        s_.orelse = conv(s_.orelse)
                        new_block.append(s_)
                    else:
                        new_block.append(s_)
                return new_block

            loop.body = conv(loop.body)
            tail = _assignify([copy.deepcopy(x) for x in rest], make_result, fallthrough_none)
            if tail is None:
                return None
            loop.orelse = tail
            out.append(loop)
            return out
        if isinstance(st, ast.If) and any(isinstance(n, ast.Return) for s in st.body + st.orelse for n in [s] + list(_walk_own(s))):
            body_ret = any(isinstance(n, ast.Return) for s in st.body for n in [s] + list(_walk_own(s)))
            else_ret = any(isinstance(n, ast.Return) for s in st.orelse for n in [s] + list(_walk_own(s)))
            new = ast.copy_location(ast.If(test=st.test, body=[], orelse=[]), st)
            if body_ret and _terminates(st.body) and not (else_ret and _terminates(st.orelse)):
                b = _assignify(st.body, make_result, fallthrough_none)
                e = _assignify(list(st.orelse) + list(rest), make_result, fallthrough_none)
                if b is None or e is None:
                    return None
                new.body, new.orelse = b or [ast.Pass()], e
                out.append(new)
                return out
            if else_ret and _terminates(st.orelse) and not (body_ret and _terminates(st.body)):
                b = _assignify(list(st.body) + list(rest), make_result, fallthrough_none)
                e = _assignify(st.orelse, make_result, fallthrough_none)
                if b is None or e is None:
                    return None
                new.body, new.orelse = b or [ast.Pass()], e or []
                out.append(new)
                return out
            if body_ret and else_ret and _terminates(st.body) and _terminates(st.orelse):
                b = _assignify(st.body, make_result, fallthrough_none)
                e = _assignify(st.orelse, make_result, fallthrough_none)
                if b is None or e is None:
                    return None
                new.body, new.orelse = b or [ast.Pass()], e or []
                out.append(new)
                return out
            return None
        out.append(st)
    if fallthrough_none and not _terminates(out):
        out.extend(make_result(ast.Constant(value=None)))
    return out


class Inliner:
    def __init__(self, module_name: str, tree: ast.Module, multiply_defined: frozenset = frozenset()):
        self.module_name = module_name
        self.tree = tree
        self.multiply_defined = multiply_defined
        # class -> names of its base classes defined in this module (helpers of a base class are found through `self`)
        self.bases: Dict[str, List[str]] = {}
        for st in tree.body:
            if isinstance(st, ast.ClassDef):
                self.bases[st.name] = [b.id for b in st.bases if isinstance(b, ast.Name)]
        known = set(known_names().get(module_name, []))
        self.helpers: Dict[Tuple[Optional[str], str], Helper] = {}
        self.counter = 0
        if not known_names():
            return  # without the reference of known names nothing is inlined
        for st in tree.body:
            if isinstance(st, FDEFS) and st.name.startswith("_") and not st.name.startswith("__") and st.name not in known:
                decs_ = {d.id if isinstance(d, ast.Name) else getattr(d, "attr", "") for d in st.decorator_list}
                if decs_ - {"contextmanager"}:
                    continue
                self.helpers[(None, st.name)] = Helper(st, "function")
                if decs_:
                    self.helpers[(None, st.name)].is_ctx = True
            elif isinstance(st, ast.ClassDef):
                known_methods = {k_.split(".")[-1] for k_ in known if "." in k_}
                for f in st.body:
                    # (a method the reference tree knows under another class of this module has only moved - to a mixin, a base class: it is no new helper)
                    if isinstance(f, FDEFS) and f.name.startswith("_") and not f.name.startswith("__") and f"{st.name}.{f.name}" not in known and f.name not in known_methods:
                        decs = {d.id if isinstance(d, ast.Name) else getattr(d, "attr", "") for d in f.decorator_list}
                        if decs == {"contextmanager"}:
                            h_ = Helper(f, "method", st.name)
                            h_.is_ctx = True  # used only by `with`: N25
                            self.helpers[(st.name, f.name)] = h_
                            continue
                        if decs - {"staticmethod", "classmethod"}:
                            continue
                        kind = "static" if "staticmethod" in decs else "class" if "classmethod" in decs else "method"
                        self.helpers[(st.name, f.name)] = Helper(f, kind, st.name)
        # no recursion among helpers
        for key, h in list(self.helpers.items()):
            if any(isinstance(n, ast.Call) and self._resolve(n, key[0]) is h for n in _walk_own(h.fn)):
                del self.helpers[key]
        # helpers the text mentions by name somewhere outside their own body (the others are reached, if at all, by a computed name -
        # `getattr(self, "_map_" + kind)` - and are never dropped as dead code)
        names_ = {h.fn.name for h in self.helpers.values()}
        self.mentioned: Set[str] = set()
        if names_:
            own_ = {id(x) for h in self.helpers.values() for x in ast.walk(h.fn)}
            for n in ast.walk(tree):
                nm_ = n.id if isinstance(n, ast.Name) else n.attr if isinstance(n, ast.Attribute) else n.value if isinstance(n, ast.Constant) and isinstance(n.value, str) else None
                if nm_ in names_ and id(n) not in own_:
                    self.mentioned.add(nm_)
                elif nm_ in names_:
                    # mentioned inside a helper's body: counts unless it is that helper's own body
                    for h in self.helpers.values():
                        if h.fn.name != nm_ and any(x is n for x in ast.walk(h.fn)):
                            self.mentioned.add(nm_)

    def _resolve(self, call: ast.Call, cls: Optional[str]) -> Optional[Helper]:
        f = call.func
        if isinstance(f, ast.Name):
            return self.helpers.get((None, f.id))
        if isinstance(f, ast.Attribute) and isinstance(f.value, ast.Name):
            if f.value.id in ("self", "cls") and cls is not None:
                h = self.helpers.get((cls, f.attr))
                if h is None and f.attr not in self.multiply_defined:
                    # a helper inherited from a base class of this module; nothing anywhere in the package redefines the name
                    seen, todo = set(), list(self.bases.get(cls, []))
                    while todo and h is None:
                        b = todo.pop(0)
                        if b in seen:
                            continue
                        seen.add(b)
                        h = self.helpers.get((b, f.attr))
                        todo.extend(self.bases.get(b, []))
                return h
            h = self.helpers.get((f.value.id, f.attr))
            if h is not None and h.kind in ("static", "class"):
                return h
        if isinstance(f, ast.Attribute) and isinstance(f.value, ast.Attribute) and f.value.attr == "__class__" and cls is not None:
            return self.helpers.get((cls, f.attr))
        return None

    def _receiver(self, call: ast.Call, h: Helper) -> Optional[ast.AST]:
        if h.kind == "method":
            return call.func.value if isinstance(call.func, ast.Attribute) else None
        if h.kind == "class":
            return call.func.value if isinstance(call.func, ast.Attribute) else None
        return None

    # -- expression helpers ------------------------------------------------------------------------------------------
    def inline_expressions(self, node, cls: Optional[str]):
        outer = self

        class T(ast.NodeTransformer):
            def visit_Call(self, call):
                self.generic_visit(call)
                h = outer._resolve(call, cls)
                if h is None or h.expr is None or h.is_gen:
                    return call
                m = h.bind(call, outer._receiver(call, h))
                if m is None:
                    return call
                # a parameter used several times must be bound to an argument that is free to re-evaluate
                uses = {}
                for n in ast.walk(h.expr):
                    if isinstance(n, ast.Name) and n.id in m:
                        uses[n.id] = uses.get(n.id, 0) + 1
                if any(c > 1 and not _simple_arg(m[p]) for p, c in uses.items()):
                    return call
                if h.locals:
                    return call
                new = _Subst(m).visit(copy.deepcopy(h.expr))
                return ast.copy_location(new, call)

            def visit_FunctionDef(self, f):
                outer.inline_expressions(f, cls)  # closures see the same helpers
                return f

            visit_AsyncFunctionDef = visit_FunctionDef

        for field, value in ast.iter_fields(node):
            if isinstance(value, list):
                setattr(node, field, [T().visit(v) if isinstance(v, ast.AST) else v for v in value])
            elif isinstance(value, ast.AST):
                setattr(node, field, T().visit(value))

    # -- statement helpers -------------------------------------------------------------------------------------------
    def _instantiate(self, h: Helper, m: Dict[str, ast.AST], at: ast.AST):
        """(prologue, body, rename) : parameter bindings that need a temporary, the helper body with fresh local names"""
        self.counter += 1
        tag = f"__{h.fn.name.strip('_')}{self.counter}"
        ren: Dict[str, ast.AST] = {}
        prologue: List[ast.stmt] = []
        assigned_params = {p for p in m if p in h.locals}
        for p, a in m.items():
            if _simple_arg(a) and p not in assigned_params:
                ren[p] = a
            else:
                tmp = f"{p}{tag}"
                prologue.append(ast.copy_location(ast.Assign(targets=[ast.Name(id=tmp, ctx=ast.Store())], value=copy.deepcopy(a), lineno=at.lineno), at))
                ren[p] = ast.Name(id=tmp, ctx=ast.Load())
        local_ren = {l: f"{l}{tag}" for l in h.locals if l not in m}
        body = copy.deepcopy(h.body)

        class R(ast.NodeTransformer):
            def visit_Name(self, n):
                if n.id in local_ren:
                    return ast.copy_location(ast.Name(id=local_ren[n.id], ctx=n.ctx), n)
                if n.id in ren:
                    if isinstance(n.ctx, ast.Load):
                        return copy.deepcopy(ren[n.id])
                    if isinstance(ren[n.id], ast.Name):
                        return ast.copy_location(ast.Name(id=ren[n.id].id, ctx=n.ctx), n)
                return n

            def visit_FunctionDef(self, f):
                return f

            visit_AsyncFunctionDef = visit_FunctionDef

        body = [R().visit(s) for s in body]
        for s in prologue + body:
            for n in ast.walk(s):
                if hasattr(n, "lineno"):
                    n.lineno = getattr(at, "lineno", n.lineno)
                    n.end_lineno = getattr(at, "end_lineno", getattr(n, "end_lineno", None))
        return prologue, body

    def inline_statements(self, stmts: List[ast.stmt], cls: Optional[str], depth=0) -> List[ast.stmt]:
        out: List[ast.stmt] = []
        for st in stmts:
            if isinstance(st, FDEFS):
                st.body = self.inline_statements(st.body, cls, depth)
                out.append(st)
                continue
            if isinstance(st, ast.ClassDef):
                st.body = self.inline_statements(st.body, st.name, depth)
                out.append(st)
                continue
            for field in ("body", "orelse", "finalbody"):
                sub = getattr(st, field, None)
                if isinstance(sub, list) and sub and isinstance(sub[0], ast.stmt):
                    setattr(st, field, self.inline_statements(sub, cls, depth))
            if isinstance(st, ast.Try):
                for hd in st.handlers:
                    hd.body = self.inline_statements(hd.body, cls, depth)
            rep = self._inline_one(st, cls) if depth < 4 else None
            if rep is None:
                out.append(st)
            else:
                out.extend(self.inline_statements(rep, cls, depth + 1))
        return out

    def _hoist_nested(self, st: ast.stmt, cls: Optional[str]) -> Optional[List[ast.stmt]]:
        """`x = A - helper(args)` -> `t = helper(args); x = A - t` when the helper call is the only call of the statement
        (so nothing that could interfere is evaluated before it)"""
        is_if = isinstance(st, ast.If)
        is_for = isinstance(st, ast.For)
        if not is_if and not is_for and (not isinstance(st, (ast.Assign, ast.AnnAssign, ast.AugAssign, ast.Return, ast.Expr)) or getattr(st, "value", None) is None):
            return None
        top = st.test if is_if else st.iter if is_for else st.value
        calls = [n for n in ast.walk(top) if isinstance(n, ast.Call)]
        cands = [c for c in calls if (c is not top or is_if or is_for) and (h := self._resolve(c, cls)) is not None and not (h.expr is not None and not h.locals) and not h.is_gen and not h.is_ctx]
        if len(cands) != 1:
            return None
        c = cands[0]
        inner = {id(n) for n in ast.walk(c)}
        # other calls are allowed only as enclosing calls of c whose earlier-evaluated parts contain no call (so c runs first anyway)
        def contains(n, target):
            return any(x is target for x in ast.walk(n))
        for x in calls:
            if id(x) in inner:
                continue
            if not contains(x, c):
                return None
            parts = [x.func] + list(x.args) + [k.value for k in x.keywords]
            for part in parts:
                if contains(part, c):
                    break
                if any(isinstance(y, ast.Call) for y in ast.walk(part)):
                    return None
        if any(isinstance(n, (ast.Lambda, ast.ListComp, ast.SetComp, ast.DictComp, ast.GeneratorExp, ast.IfExp, ast.BoolOp)) and any(y is c for y in ast.walk(n)) for n in ast.walk(top)):
            return None  # conditionally or repeatedly evaluated position
        self.counter += 1
        tmp = f"value__{self.counter}"

        class R(ast.NodeTransformer):
            def visit_Call(self, node):
                if node is c:
                    return ast.copy_location(ast.Name(id=tmp, ctx=ast.Load()), node)
                return self.generic_visit(node)

        pre = ast.copy_location(ast.Assign(targets=[ast.Name(id=tmp, ctx=ast.Store())], value=c, lineno=st.lineno), st)
        if is_if:
            st.test = R().visit(top)
        elif is_for:
            st.iter = R().visit(top)
        else:
            st.value = R().visit(top)
        return [pre, st]

    def _inline_with(self, st: ast.With, cls: Optional[str]) -> Optional[List[ast.stmt]]:
        """N25  with self._helper(args) [as v]: B   ->   PRE ; [v = <yielded>] ; B ; POST
        for a private @contextmanager helper whose body is PRE ; yield [value] ; POST at its top level (no try around the yield: when B
        raises, POST does not run - in both forms).  B may end in one `return E` (-> t = E ; POST ; return t) and must not leave
        in any other way.  `with a, helper(): B` is read as `with a: with helper(): B`."""
        idx = [k for k, it in enumerate(st.items) if isinstance(it.context_expr, ast.Call) and (h := self._resolve(it.context_expr, cls)) is not None and h.is_ctx]
        if not idx:
            return None
        if len(st.items) > 1:
            k = idx[-1]
            inner = ast.copy_location(ast.With(items=st.items[k:], body=st.body), st)
            if k == 0:
                inner = ast.copy_location(ast.With(items=st.items[1:], body=st.body), st)
                one = ast.copy_location(ast.With(items=st.items[:1], body=[inner]), st)
                return [one]
            st2 = ast.copy_location(ast.With(items=st.items[:k], body=[inner]), st)
            return [st2]
        it = st.items[0]
        h = self._resolve(it.context_expr, cls)
        m = h.bind(it.context_expr, self._receiver(it.context_expr, h))
        if m is None:
            return None
        hb = h.body
        ys = [k for k, s_ in enumerate(hb) if isinstance(s_, ast.Expr) and isinstance(s_.value, ast.Yield)]
        n_y = sum(1 for n in _walk_own(h.fn) if isinstance(n, (ast.Yield, ast.YieldFrom)))
        if len(ys) != 1 or n_y != 1 or any(isinstance(n, (ast.Return, ast.Global, ast.Nonlocal)) or isinstance(n, FDEFS) for n in _walk_own(h.fn)):
            return None
        leaves = [n for s_ in st.body for n in [s_] + list(_walk_own(s_)) if isinstance(n, (ast.Return, ast.Break, ast.Continue))]
        tail_ret = st.body[-1] if st.body and isinstance(st.body[-1], ast.Return) else None
        if [n for n in leaves if n is not tail_ret]:
            return None
        prologue, body = self._instantiate(h, m, st)
        k = ys[0]
        pre, post = body[:k], body[k + 1:]
        yv = body[k].value.value
        bind_ = []
        if it.optional_vars is not None:
            if yv is None:
                yv = ast.Constant(value=None)
            bind_ = [ast.copy_location(ast.Assign(targets=[it.optional_vars], value=yv, lineno=st.lineno), st)]
        if tail_ret is None:
            return prologue + pre + bind_ + st.body + post
        self.counter += 1
        tmp = f"value__{self.counter}"
        keep = ast.copy_location(ast.Assign(targets=[ast.Name(id=tmp, ctx=ast.Store())], value=tail_ret.value if tail_ret.value is not None else ast.Constant(value=None), lineno=st.lineno), st)
        return prologue + pre + bind_ + st.body[:-1] + [keep] + post + [ast.copy_location(ast.Return(value=ast.Name(id=tmp, ctx=ast.Load())), tail_ret)]

    def _inline_for_generator(self, st: ast.For, cls: Optional[str]) -> Optional[List[ast.stmt]]:
        """N38  for T in self._gen(args): BODY   ->   the body of the private generator helper with every `yield V` read as `T = V ; BODY`
        The helper yields at statement level only (`yield V` as a statement, no `yield from`, no value taken from the yield), does not
        `return` and finishes by running off its end; BODY does not leave the loop (`break`, `return`) and has no `else`; a `continue` in
        BODY (outside loops of its own) is allowed when every yield is the last statement of a loop body of the helper - `continue` then
        goes on with that loop, which is what resuming the generator would do."""
        if st.orelse or not isinstance(st.iter, ast.Call):
            return None
        h = self._resolve(st.iter, cls)
        if h is None or not h.is_gen or h.is_ctx:
            return None
        m = h.bind(st.iter, self._receiver(st.iter, h))
        if m is None:
            return None
        own = list(_walk_own(h.fn))
        if any(isinstance(n, (ast.YieldFrom, ast.Return, ast.Global, ast.Nonlocal)) or isinstance(n, FDEFS) for n in own):
            return None
        yields = [n for n in own if isinstance(n, ast.Yield)]
        ystmts = [n for n in own if isinstance(n, ast.Expr) and isinstance(n.value, ast.Yield)]
        if not yields or len(yields) != len(ystmts):
            return None

        def leaves(stmts, in_loop):
            """(has break/return, has continue at the level of the body)"""
            brk = cont = False
            for s_ in stmts:
                if isinstance(s_, ast.Return) or (isinstance(s_, ast.Break) and not in_loop):
                    brk = True
                if isinstance(s_, ast.Continue) and not in_loop:
                    cont = True
                if isinstance(s_, FDEFS + (ast.ClassDef,)):
                    continue
                for field in ("body", "orelse", "finalbody"):
                    sub = getattr(s_, field, None)
                    if isinstance(sub, list) and sub and isinstance(sub[0], ast.stmt):
                        b_, c_ = leaves(sub, in_loop or (isinstance(s_, (ast.For, ast.While, ast.AsyncFor)) and field == "body"))
                        brk, cont = brk or b_, cont or c_
                if isinstance(s_, ast.Try):
                    for hd in s_.handlers:
                        b_, c_ = leaves(hd.body, in_loop)
                        brk, cont = brk or b_, cont or c_
            return brk, cont

        brk, cont = leaves(st.body, False)
        if brk:
            return None
        prologue, body = self._instantiate(h, m, st)
        # the names BODY uses must not collide with the helper's (renamed) locals: _instantiate gave those a tag of their own
        ok = [True]

        def place(stmts, loop_tail):
            out = []
            for k, s_ in enumerate(stmts):
                last = k == len(stmts) - 1
                if isinstance(s_, ast.Expr) and isinstance(s_.value, ast.Yield):
                    if cont and not (loop_tail and last):
                        ok[0] = False
                    v_ = s_.value.value if s_.value.value is not None else ast.Constant(value=None)
                    out.append(ast.copy_location(ast.Assign(targets=[copy.deepcopy(st.target)], value=v_, lineno=st.lineno), st))
                    out.extend(copy.deepcopy(b_) for b_ in st.body)
                    continue
                for field in ("body", "orelse", "finalbody"):
                    sub = getattr(s_, field, None)
                    if isinstance(sub, list) and sub and isinstance(sub[0], ast.stmt):
                        is_loop_body = isinstance(s_, (ast.For, ast.While, ast.AsyncFor)) and field == "body"
                        # a yield inside an `if` that ends a loop body is followed by nothing else of that round either
                        setattr(s_, field, place(sub, is_loop_body or (loop_tail and last and isinstance(s_, ast.If))))
                if isinstance(s_, ast.Try):
                    ok[0] = False
                out.append(s_)
            return out

        new_body = place(body, False)
        if not ok[0]:
            return None
        return prologue + new_body

    def _inline_one(self, st: ast.stmt, cls: Optional[str]) -> Optional[List[ast.stmt]]:
        if isinstance(st, ast.With):
            return self._inline_with(st, cls)
        if isinstance(st, ast.For):
            rep_ = self._inline_for_generator(st, cls)
            if rep_ is not None:
                return rep_
        hoisted = self._hoist_nested(st, cls)
        if hoisted is not None:
            return hoisted
        call = None
        mode = None
        if isinstance(st, ast.Expr) and isinstance(st.value, ast.Call):
            call, mode = st.value, "stmt"
        elif isinstance(st, ast.Expr) and isinstance(st.value, ast.YieldFrom) and isinstance(st.value.value, ast.Call):
            call, mode = st.value.value, "yieldfrom"
        elif isinstance(st, (ast.Assign, ast.AnnAssign)) and isinstance(st.value, ast.Call):
            call, mode = st.value, "assign"
        elif isinstance(st, ast.AugAssign) and isinstance(st.value, ast.Call):
            call, mode = st.value, "augassign"
        elif isinstance(st, ast.Return) and isinstance(st.value, ast.Call):
            call, mode = st.value, "return"
        if call is None:
            return None
        h = self._resolve(call, cls)
        if h is None or h.is_ctx or h.expr is not None and not h.locals:
            return None  # expression helpers are handled by inline_expressions
        if h.is_gen != (mode == "yieldfrom"):
            return None
        m = h.bind(call, self._receiver(call, h))
        if m is None:
            return None
        if any(isinstance(n, (ast.Global, ast.Nonlocal)) or isinstance(n, FDEFS) for n in _walk_own(h.fn)):
            return None
        if not _returns_ok(h.body):
            return None
        prologue, body = self._instantiate(h, m, st)
        if mode == "return":
            # the helper's own returns become the caller's returns; falling off the end returns None
            if not _terminates(body):
                body = body + [ast.copy_location(ast.Return(value=ast.Constant(value=None)), st)]
            return prologue + body
        if mode == "yieldfrom":
            if any(isinstance(n, ast.Return) for s in body for n in [s] + list(_walk_own(s))):
                res = _assignify(body, lambda v: [], False)
                if res is None:
                    return None
                body = res
            return prologue + (body or [ast.copy_location(ast.Pass(), st)])
        if mode == "stmt":
            res = _assignify(body, lambda v: [], False)
        elif mode == "assign":
            def mk(v, st=st):
                if isinstance(st, ast.Assign):
                    return [ast.copy_location(ast.Assign(targets=copy.deepcopy(st.targets), value=v, lineno=st.lineno), st)]
                return [ast.copy_location(ast.AnnAssign(target=copy.deepcopy(st.target), annotation=st.annotation, value=v, simple=st.simple), st)]
            res = _assignify(body, mk, True)
        else:
            res = _assignify(body, lambda v, st=st: [ast.copy_location(ast.AugAssign(target=copy.deepcopy(st.target), op=st.op, value=v), st)], True)
        if res is None:
            return None
        return prologue + (res or [ast.copy_location(ast.Pass(), st)])


# ---------------------------------------------------------------------------------------------------------------------
# N5 comprehension over a helper call -> loop

def _comprehension_to_loop(stmts: List[ast.stmt], inl: Inliner, cls: Optional[str]) -> List[ast.stmt]:
    out: List[ast.stmt] = []
    for st in stmts:
        if isinstance(st, ast.ClassDef):
            st.body = _comprehension_to_loop(st.body, inl, st.name)
            out.append(st)
            continue
        for field in ("body", "orelse", "finalbody"):
            sub = getattr(st, field, None)
            if isinstance(sub, list) and sub and isinstance(sub[0], ast.stmt):
                setattr(st, field, _comprehension_to_loop(sub, inl, cls))
        if isinstance(st, ast.Try):
            for hd in st.handlers:
                hd.body = _comprehension_to_loop(hd.body, inl, cls)
        if isinstance(st, ast.Return) and isinstance(st.value, ast.ListComp) and len(st.value.generators) == 1 and isinstance(st.value.elt, ast.Call) \
                and (h0 := inl._resolve(st.value.elt, cls)) is not None and (h0.expr is None or h0.locals):
            inl.counter += 1
            name = f"result__{inl.counter}"
            assign = ast.copy_location(ast.Assign(targets=[ast.Name(id=name, ctx=ast.Store())], value=st.value, lineno=st.lineno), st)
            ret = ast.copy_location(ast.Return(value=ast.Name(id=name, ctx=ast.Load())), st)
            out.extend(_comprehension_to_loop([assign], inl, cls))
            out.append(ret)
            continue
        v = getattr(st, "value", None) if isinstance(st, (ast.Assign, ast.AnnAssign)) else None
        tgt = None
        if isinstance(st, ast.Assign) and len(st.targets) == 1 and isinstance(st.targets[0], ast.Name):
            tgt = st.targets[0].id
        elif isinstance(st, ast.AnnAssign) and isinstance(st.target, ast.Name):
            tgt = st.target.id
        if tgt and isinstance(v, ast.ListComp) and len(v.generators) == 1 and not v.generators[0].is_async and isinstance(v.elt, ast.Call) \
                and (h := inl._resolve(v.elt, cls)) is not None and (h.expr is None or h.locals) and not any(isinstance(n, ast.Name) and n.id == tgt for n in ast.walk(v)):
            g = v.generators[0]
            init = ast.copy_location(ast.Assign(targets=[ast.Name(id=tgt, ctx=ast.Store())], value=ast.List(elts=[], ctx=ast.Load()), lineno=st.lineno), st)
            inl.counter += 1
            tmp = f"elem__{inl.counter}"
            call_assign = ast.copy_location(ast.Assign(targets=[ast.Name(id=tmp, ctx=ast.Store())], value=v.elt, lineno=st.lineno), st)
            app = ast.copy_location(ast.Expr(value=ast.Call(func=ast.Attribute(value=ast.Name(id=tgt, ctx=ast.Load()), attr="append", ctx=ast.Load()), args=[ast.Name(id=tmp, ctx=ast.Load())], keywords=[])), st)
            body: List[ast.stmt] = [call_assign, app]
            for cond in reversed(g.ifs):
                body = [ast.copy_location(ast.If(test=cond, body=body, orelse=[]), st)]
            loop = ast.copy_location(ast.For(target=g.target, iter=g.iter, body=body, orelse=[], lineno=st.lineno), st)
            _set_store(loop.target)
            out.extend([init, loop])
            continue
        out.append(st)
    return out


def _set_store(t):
    for n in ast.walk(t):
        if isinstance(n, (ast.Name, ast.Tuple, ast.List, ast.Starred, ast.Attribute, ast.Subscript)) and hasattr(n, "ctx"):
            n.ctx = ast.Store()


# ---------------------------------------------------------------------------------------------------------------------

# ---------------------------------------------------------------------------------------------------------------------
# N6 tuple-assignment splitting and elimination of pure aliases (only on code produced by inlining: names carrying the
# inliner's tag), so that `n, d = (n__h1, d__h1)` reads as if n and d had been computed in place

def _split_tuple_assigns(stmts: List[ast.stmt]) -> List[ast.stmt]:
    out: List[ast.stmt] = []
    for st in stmts:
        for field in ("body", "orelse", "finalbody"):
            sub = getattr(st, field, None)
            if isinstance(sub, list) and sub and isinstance(sub[0], ast.stmt) and not isinstance(st, ast.ClassDef):
                setattr(st, field, _split_tuple_assigns(sub))
            elif isinstance(st, ast.ClassDef) and field == "body":
                st.body = _split_tuple_assigns(st.body)
        if isinstance(st, ast.Try):
            for hd in st.handlers:
                hd.body = _split_tuple_assigns(hd.body)
        if isinstance(st, ast.Assign) and len(st.targets) == 1 and isinstance(st.targets[0], ast.Tuple) and isinstance(st.value, ast.Tuple) \
                and len(st.targets[0].elts) == len(st.value.elts) and all(isinstance(t, ast.Name) for t in st.targets[0].elts):
            tnames = {t.id for t in st.targets[0].elts}
            if not any(isinstance(n, ast.Name) and n.id in tnames for v in st.value.elts for n in ast.walk(v)):
                for t, v in zip(st.targets[0].elts, st.value.elts):
                    out.append(ast.copy_location(ast.Assign(targets=[t], value=v, lineno=st.lineno), st))
                continue
        # o.x, o.y = (E1, E2)  ->  o.x = E1 ; o.y = E2   when no value after the first reads anything an earlier target could be
        # (later values are built from constants, names that are not targets and displays only)
        if isinstance(st, ast.Assign) and len(st.targets) == 1 and isinstance(st.targets[0], ast.Tuple) and isinstance(st.value, ast.Tuple) \
                and len(st.targets[0].elts) == len(st.value.elts) and all(isinstance(t, ast.Name) or _plain_chain(t) for t in st.targets[0].elts) \
                and any(isinstance(t, ast.Attribute) for t in st.targets[0].elts):
            tnames = {t.id for t in st.targets[0].elts if isinstance(t, ast.Name)}
            later_ok = all(all(isinstance(n, (ast.Constant, ast.Name, ast.List, ast.Tuple, ast.Dict, ast.Set, ast.Load)) and not (isinstance(n, ast.Name) and n.id in tnames) for n in ast.walk(v))
                           for v in st.value.elts[1:])
            first_ok = not any(isinstance(n, ast.Name) and n.id in tnames for n in ast.walk(st.value.elts[0]))
            if later_ok and first_ok:
                for t, v in zip(st.targets[0].elts, st.value.elts):
                    out.append(ast.copy_location(ast.Assign(targets=[t], value=v, lineno=st.lineno), st))
                continue
        # a, b = Module.CONSTANT   ->   a = Module.CONSTANT[0]; b = Module.CONSTANT[1]   (a constant named in capitals, not rebound here)
        if isinstance(st, ast.Assign) and len(st.targets) == 1 and isinstance(st.targets[0], ast.Tuple) and all(isinstance(t, ast.Name) for t in st.targets[0].elts) \
                and isinstance(st.value, ast.Attribute) and st.value.attr.isupper() and _plain_chain(st.value):
            for k_, t in enumerate(st.targets[0].elts):
                out.append(ast.copy_location(ast.Assign(targets=[t], value=ast.Subscript(value=copy.deepcopy(st.value), slice=ast.Constant(value=k_), ctx=ast.Load()), lineno=st.lineno), st))
            continue
        out.append(st)
    return out


def _eliminate_aliases(fn):
    """x = y__tag (x, y__tag each bound exactly once in fn, y__tag produced by the inliner) -> y__tag is renamed x and the copy dropped"""
    binds: Dict[str, int] = {}
    for n in _walk_own(fn):
        if isinstance(n, ast.Name) and isinstance(n.ctx, (ast.Store, ast.Del)):
            binds[n.id] = binds.get(n.id, 0) + 1
        elif isinstance(n, ast.arg):
            binds[n.arg] = binds.get(n.arg, 0) + 1
    ren: Dict[str, str] = {}

    def mentions(node, name) -> bool:
        return any(isinstance(x, ast.Name) and x.id == name for x in ast.walk(node))

    def scan(stmts):
        keep = []
        for st in stmts:
            for field in ("body", "orelse", "finalbody"):
                sub = getattr(st, field, None)
                if isinstance(sub, list) and sub and isinstance(sub[0], ast.stmt) and not isinstance(st, FDEFS + (ast.ClassDef,)):
                    setattr(st, field, scan(sub) or [ast.copy_location(ast.Pass(), st)])
            if isinstance(st, ast.Assign) and len(st.targets) == 1 and isinstance(st.targets[0], ast.Name) and isinstance(st.value, ast.Name) \
                    and "__" in st.value.id and binds.get(st.value.id) == 1 and st.value.id not in ren:
                tagged, target = st.value.id, st.targets[0].id
                # the tagged name is defined earlier in this block; the target name must not occur between that definition and the copy
                idx = next((k for k in range(len(keep) - 1, -1, -1) if isinstance(keep[k], (ast.Assign, ast.AnnAssign)) and any(
                    isinstance(t, ast.Name) and t.id == tagged for t in (keep[k].targets if isinstance(keep[k], ast.Assign) else [keep[k].target]))), None)
                if idx is not None and not any(mentions(x, target) for x in keep[idx:]):
                    ren[tagged] = target
                    continue
            keep.append(st)
        return keep

    fn.body = scan(fn.body) or [ast.Pass()]
    # the copy may sit in an inner block of the definition's block (`t__tag = E` ... `if c: x = t__tag; break`): when both names are
    # bound exactly once and x is not mentioned between the definition and the copy (in execution order of the text), x names t__tag
    order: List[ast.AST] = []

    def dfs(node):
        for ch in ast.iter_child_nodes(node):
            if isinstance(ch, FDEFS + (ast.ClassDef, ast.Lambda)):
                continue
            if isinstance(ch, ast.Assign):
                dfs_node(ch.value)
                for t_ in ch.targets:
                    dfs_node(t_)
                continue
            dfs_node(ch)

    def dfs_node(ch):
        if isinstance(ch, ast.Name):
            order.append(ch)
        dfs(ch)

    dfs(fn)
    pos = {id(n): k for k, n in enumerate(order)}
    for st in [n for n in _walk_own(fn) if isinstance(n, ast.Assign)]:
        if len(st.targets) == 1 and isinstance(st.targets[0], ast.Name) and isinstance(st.value, ast.Name) and "__" in st.value.id \
                and binds.get(st.value.id) == 1 and binds.get(st.targets[0].id) == 1 and st.value.id not in ren:
            tagged, target = st.value.id, st.targets[0].id
            defs_ = [n for n in order if n.id == tagged and isinstance(n.ctx, ast.Store)]
            if len(defs_) == 1 and id(st.value) in pos:
                lo, hi = pos[id(defs_[0])], pos[id(st.value)]
                if lo < hi and not any(n.id == target for n in order[lo:hi]):
                    ren[tagged] = target
                    st.value = ast.copy_location(ast.Name(id=target, ctx=ast.Load()), st.value)  # becomes `x = x`, removed below
    # x = y__tag at the top level of the function, every mention of y__tag before it and no mention of x before it (whatever the
    # number of bindings): from there on only x is used, so y__tag was x all along
    for k, st in enumerate(fn.body):
        if isinstance(st, ast.Assign) and len(st.targets) == 1 and isinstance(st.targets[0], ast.Name) and isinstance(st.value, ast.Name) and "__" in st.value.id \
                and st.value.id not in ren and st.targets[0].id not in ren.values():
            tagged, target = st.value.id, st.targets[0].id
            if tagged == target or target in {a.arg for a in ast.walk(fn.args) if isinstance(a, ast.arg)}:
                continue
            if not binds.get(tagged):
                continue  # a name of the enclosing function (this is a closure): it is not this function's to rename
            before, after = fn.body[:k], fn.body[k + 1:]
            if any(mentions(x, tagged) for x in after) or any(mentions(x, target) for x in before):
                continue
            if any(isinstance(n, FDEFS + (ast.Lambda, ast.ClassDef)) and (mentions(n, tagged) or mentions(n, target)) for x in fn.body for n in ast.walk(x)):
                continue
            ren[tagged] = target
            st.value = ast.copy_location(ast.Name(id=target, ctx=ast.Load()), st.value)
    if ren:
        for n in _walk_own(fn):
            if isinstance(n, ast.Name) and n.id in ren:
                n.id = ren[n.id]

        def drop_self_copies(stmts):
            out = []
            for st in stmts:
                for field in ("body", "orelse", "finalbody"):
                    sub = getattr(st, field, None)
                    if isinstance(sub, list) and sub and isinstance(sub[0], ast.stmt) and not isinstance(st, FDEFS + (ast.ClassDef,)):
                        setattr(st, field, drop_self_copies(sub) or ([ast.copy_location(ast.Pass(), st)] if field == "body" else []))
                if isinstance(st, ast.Assign) and len(st.targets) == 1 and isinstance(st.targets[0], ast.Name) and isinstance(st.value, ast.Name) and st.value.id == st.targets[0].id:
                    continue
                out.append(st)
            return out

        fn.body = drop_self_copies(fn.body) or [ast.Pass()]


# ---------------------------------------------------------------------------------------------------------------------
# N7 accumulate-by-append loops -> comprehensions;  N8 folding of locals that only name a stable value

def _pure_expr(e) -> bool:
    """arithmetic / comparison / slicing / tuples over names and constants: no calls, no attribute reads"""
    if isinstance(e, (ast.Constant, ast.Name)):
        return True
    if isinstance(e, ast.UnaryOp):
        return _pure_expr(e.operand)
    if isinstance(e, ast.BinOp):
        return _pure_expr(e.left) and _pure_expr(e.right)
    if isinstance(e, ast.Compare):
        return _pure_expr(e.left) and all(_pure_expr(c) for c in e.comparators)
    if isinstance(e, ast.Tuple):
        return all(_pure_expr(x) for x in e.elts)
    if isinstance(e, ast.Subscript):
        return _pure_expr(e.value) and _pure_expr(e.slice)
    if isinstance(e, ast.Slice):
        return all(x is None or _pure_expr(x) for x in (e.lower, e.upper, e.step))
    if isinstance(e, ast.Attribute) and e.attr.isupper():
        return True  # module constant such as encoding.COMMAND_BYTES
    return False


def _fold_loop_temps(loop: ast.For):
    """inside `for ...: t1 = <pure>; t2 = <pure over t1>; L.append(E)` substitute the temporaries into E (they live only in
    this loop body and name pure values of this iteration)"""
    body = loop.body
    if len(body) < 2 or not all(isinstance(s, ast.Assign) and len(s.targets) == 1 and isinstance(s.targets[0], ast.Name) and _pure_expr(s.value) for s in body[:-1]):
        return
    last = body[-1]
    names = [s.targets[0].id for s in body[:-1]]
    if len(set(names)) != len(names):
        return
    target_names = {n.id for n in ast.walk(loop.target) if isinstance(n, ast.Name)}
    if set(names) & target_names:
        return
    folds: Dict[str, ast.AST] = {}

    class R(ast.NodeTransformer):
        def visit_Name(self, n):
            if n.id in folds and isinstance(n.ctx, ast.Load):
                return ast.copy_location(copy.deepcopy(folds[n.id]), n)
            return n

    for s in body[:-1]:
        folds[s.targets[0].id] = R().visit(copy.deepcopy(s.value))
    loop.body = [R().visit(last)]


def _loops_to_comprehensions(stmts: List[ast.stmt]) -> List[ast.stmt]:
    """L = [] ... for T in IT: [if C:] L.append(E)   ->   L = [E for T in IT if C]
    (L not read or written between its initialisation and the loop, nor inside the loop other than by the append)"""
    for st in stmts:
        for field in ("body", "orelse", "finalbody"):
            sub = getattr(st, field, None)
            if isinstance(sub, list) and sub and isinstance(sub[0], ast.stmt):
                setattr(st, field, _loops_to_comprehensions(sub))
        if isinstance(st, ast.Try):
            for hd in st.handlers:
                hd.body = _loops_to_comprehensions(hd.body)
    out = list(stmts)
    i = 0
    while i < len(out):
        st = out[i]
        name = None
        if isinstance(st, ast.Assign) and len(st.targets) == 1 and isinstance(st.targets[0], ast.Name) and isinstance(st.value, ast.List) and not st.value.elts:
            name = st.targets[0].id
        elif isinstance(st, ast.AnnAssign) and isinstance(st.target, ast.Name) and isinstance(st.value, ast.List) and not st.value.elts:
            name = st.target.id
        if name is not None:
            j = i + 1
            while j < len(out) and not any(isinstance(n, ast.Name) and n.id == name for n in ast.walk(out[j])):
                j += 1
            if j < len(out) and isinstance(out[j], ast.For) and not out[j].orelse:
                loop = out[j]
                # temporaries of the loop body must not be used after the loop
                temps = {s.targets[0].id for s in loop.body[:-1] if isinstance(s, ast.Assign) and len(s.targets) == 1 and isinstance(s.targets[0], ast.Name)}
                if temps and not any(isinstance(n, ast.Name) and n.id in temps for later in out[j + 1:] for n in ast.walk(later)):
                    _fold_loop_temps(loop)
                body = loop.body
                conds = []
                while len(body) == 1 and isinstance(body[0], ast.If) and not body[0].orelse:
                    conds.append(body[0].test)
                    body = body[0].body
                if len(body) == 1 and isinstance(body[0], ast.Expr) and isinstance(body[0].value, ast.Call) and isinstance(body[0].value.func, ast.Attribute) \
                        and body[0].value.func.attr == "append" and isinstance(body[0].value.func.value, ast.Name) and body[0].value.func.value.id == name \
                        and len(body[0].value.args) == 1 and not body[0].value.keywords:
                    elt = body[0].value.args[0]
                    others = [n for part in [elt, loop.iter, loop.target] + conds for n in ast.walk(part) if isinstance(n, ast.Name) and n.id == name]
                    if not others:
                        tgt = copy.deepcopy(loop.target)
                        comp = ast.ListComp(elt=elt, generators=[ast.comprehension(target=tgt, iter=loop.iter, ifs=conds, is_async=0)])
                        new = ast.copy_location(ast.Assign(targets=[ast.Name(id=name, ctx=ast.Store())], value=ast.copy_location(comp, loop), lineno=st.lineno), st) \
                            if isinstance(st, ast.Assign) else ast.copy_location(ast.AnnAssign(target=st.target, annotation=st.annotation, value=ast.copy_location(comp, loop), simple=st.simple), st)
                        # the comprehension is evaluated where the loop stood (the statements in between do not mention L)
                        out = out[:i] + out[i + 1:j] + [new] + out[j + 1:]
                        continue
        i += 1
    return out


class _SpliceStarredTuples(ast.NodeTransformer):
    """f(*(a, b)) -> f(a, b)   (left behind when a *args helper is inlined)"""

    def visit_Call(self, node):
        self.generic_visit(node)
        new_args = []
        for a in node.args:
            if isinstance(a, ast.Starred) and isinstance(a.value, (ast.Tuple, ast.List)):
                new_args.extend(a.value.elts)
            else:
                new_args.append(a)
        node.args = new_args
        return node


class _GetattrLiteral(ast.NodeTransformer):
    """getattr(x, 'name') -> x.name   (two-argument form with a literal identifier)"""

    def visit_Call(self, node):
        self.generic_visit(node)
        if isinstance(node.func, ast.Name) and node.func.id == "getattr" and len(node.args) == 2 and not node.keywords \
                and isinstance(node.args[1], ast.Constant) and isinstance(node.args[1].value, str) and node.args[1].value.isidentifier():
            return ast.copy_location(ast.Attribute(value=node.args[0], attr=node.args[1].value, ctx=ast.Load()), node)
        return node


def _dict_loops_to_comprehensions(stmts: List[ast.stmt]) -> List[ast.stmt]:
    """D = {} ; for T in IT: [if C:] D[K] = V   ->   D = {K: V for T in IT if C}   (adjacent statements)"""
    for st in stmts:
        for field in ("body", "orelse", "finalbody"):
            sub = getattr(st, field, None)
            if isinstance(sub, list) and sub and isinstance(sub[0], ast.stmt):
                setattr(st, field, _dict_loops_to_comprehensions(sub))
        if isinstance(st, ast.Try):
            for hd in st.handlers:
                hd.body = _dict_loops_to_comprehensions(hd.body)
    out: List[ast.stmt] = []
    i = 0
    while i < len(stmts):
        st = stmts[i]
        nxt = stmts[i + 1] if i + 1 < len(stmts) else None
        if isinstance(st, ast.Assign) and len(st.targets) == 1 and isinstance(st.targets[0], ast.Name) and isinstance(st.value, ast.Dict) and not st.value.keys \
                and isinstance(nxt, ast.For) and not nxt.orelse:
            name = st.targets[0].id
            body, conds = nxt.body, []
            while len(body) == 1 and isinstance(body[0], ast.If) and not body[0].orelse:
                conds.append(body[0].test)
                body = body[0].body
            if len(body) == 1 and isinstance(body[0], ast.Assign) and len(body[0].targets) == 1 and isinstance(body[0].targets[0], ast.Subscript) \
                    and isinstance(body[0].targets[0].value, ast.Name) and body[0].targets[0].value.id == name:
                k, v = body[0].targets[0].slice, body[0].value
                if not any(isinstance(n, ast.Name) and n.id == name for part in [k, v, nxt.iter] + conds for n in ast.walk(part)):
                    comp = ast.DictComp(key=k, value=v, generators=[ast.comprehension(target=copy.deepcopy(nxt.target), iter=nxt.iter, ifs=conds, is_async=0)])
                    out.append(ast.copy_location(ast.Assign(targets=st.targets, value=ast.copy_location(comp, nxt), lineno=st.lineno), st))
                    i += 2
                    continue
        out.append(st)
        i += 1
    return out


def _fold_tagged_temps(fn):
    """t__tag = E ; <next statement using t__tag exactly once>  ->  the use reads E  (temporaries produced by the inliner only:
    definition and use are adjacent, so nothing can happen in between)"""
    uses: Dict[str, int] = {}
    binds: Dict[str, int] = {}
    for n in _walk_own(fn):
        if isinstance(n, ast.Name) and "__" in n.id:
            if isinstance(n.ctx, ast.Load):
                uses[n.id] = uses.get(n.id, 0) + 1
            else:
                binds[n.id] = binds.get(n.id, 0) + 1

    def scan(stmts):
        out: List[ast.stmt] = []
        i = 0
        while i < len(stmts):
            st = stmts[i]
            for field in ("body", "orelse", "finalbody"):
                sub = getattr(st, field, None)
                if isinstance(sub, list) and sub and isinstance(sub[0], ast.stmt) and not isinstance(st, FDEFS + (ast.ClassDef,)):
                    setattr(st, field, scan(sub))
            if isinstance(st, ast.Try):
                for hd in st.handlers:
                    hd.body = scan(hd.body)
            nxt = stmts[i + 1] if i + 1 < len(stmts) else None
            # if A: t__tag = B  else: t__tag = C   ->   t__tag = B if A else C   (same evaluation order, same value)
            if isinstance(st, ast.If) and len(st.body) == 1 and len(st.orelse) == 1 and all(
                    isinstance(b, ast.Assign) and len(b.targets) == 1 and isinstance(b.targets[0], ast.Name) and "__" in b.targets[0].id for b in (st.body[0], st.orelse[0])) \
                    and st.body[0].targets[0].id == st.orelse[0].targets[0].id and binds.get(st.body[0].targets[0].id) == 2 \
                    and isinstance(nxt, ast.If) and uses.get(st.body[0].targets[0].id) == 1 \
                    and any(isinstance(n_, ast.Name) and n_.id == st.body[0].targets[0].id for n_ in ast.walk(nxt.test)):
                t_ = st.body[0].targets[0].id
                st = ast.copy_location(ast.Assign(targets=[ast.Name(id=t_, ctx=ast.Store())], value=ast.IfExp(test=st.test, body=st.body[0].value, orelse=st.orelse[0].value), lineno=st.lineno), st)
                ast.fix_missing_locations(st)
                binds[t_] = 1
            if nxt is not None and isinstance(st, ast.Assign) and len(st.targets) == 1 and isinstance(st.targets[0], ast.Name) and "__" in st.targets[0].id:
                t = st.targets[0].id
                where = nxt.test if isinstance(nxt, ast.If) else nxt if isinstance(nxt, (ast.Assign, ast.AnnAssign, ast.AugAssign, ast.Expr, ast.Return)) else None
                if binds.get(t) == 1 and uses.get(t) == 1 and where is not None \
                        and sum(1 for n in ast.walk(where) if isinstance(n, ast.Name) and n.id == t and isinstance(n.ctx, ast.Load)) == 1:
                    val = st.value

                    class R(ast.NodeTransformer):
                        def visit_Name(self, n):
                            if n.id == t and isinstance(n.ctx, ast.Load):
                                return ast.copy_location(val, n)
                            return n

                    if isinstance(nxt, ast.If):
                        nxt.test = R().visit(nxt.test)
                    else:
                        stmts[i + 1] = R().visit(nxt)
                    i += 1
                    continue
            out.append(st)
            i += 1
        return out

    fn.body = scan(fn.body)


def _fold_stable_aliases(fn):
    """t = self.a.b  (t bound once; self.a.b and its prefixes never assigned in fn) -> uses of t read self.a.b directly;
    t = <constant expression> (t bound once) likewise.  Applied to every function: it removes locals that only name a value."""
    binds: Dict[str, int] = {}
    for n in _walk_own(fn):
        if isinstance(n, ast.Name) and isinstance(n.ctx, (ast.Store, ast.Del)):
            binds[n.id] = binds.get(n.id, 0) + 1
    params = {a.arg for a in ast.walk(fn.args) if isinstance(a, ast.arg)}
    stored_chains = set()
    for n in ast.walk(fn):
        if isinstance(n, ast.Attribute) and isinstance(n.ctx, (ast.Store, ast.Del)):
            stored_chains.add(ast.unparse(n))
        if isinstance(n, ast.Call) and isinstance(n.func, ast.Name) and n.func.id in ("setattr", "delattr"):
            stored_chains.add("*")
    nested_uses = set()
    for n in ast.walk(fn):
        if n is not fn and isinstance(n, FDEFS + (ast.Lambda,)):
            nested_uses.update(x.id for x in ast.walk(n) if isinstance(x, ast.Name))

    def is_chain(e):
        x = e
        while isinstance(x, ast.Attribute):
            x = x.value
        return isinstance(e, ast.Attribute) and isinstance(x, ast.Name) and x.id == "self"

    def is_const(e):
        if isinstance(e, ast.Constant):
            return isinstance(e.value, (int, float)) and not isinstance(e.value, bool)
        if isinstance(e, ast.UnaryOp) and isinstance(e.op, (ast.USub, ast.UAdd)):
            return is_const(e.operand)
        if isinstance(e, ast.BinOp) and isinstance(e.op, (ast.Add, ast.Sub, ast.Mult, ast.Pow, ast.FloorDiv, ast.LShift)):
            return is_const(e.left) and is_const(e.right)
        if isinstance(e, ast.Name):
            return e.id.isupper() and e.id not in binds and e.id not in params
        if isinstance(e, ast.Attribute) and e.attr.isupper():
            x = e.value
            while isinstance(x, ast.Attribute):
                x = x.value
            return isinstance(x, ast.Name) and x.id not in binds and x.id not in params and x.id != "self"
        if isinstance(e, ast.Subscript) and isinstance(e.slice, ast.Constant) and isinstance(e.slice.value, int):
            return is_const(e.value) and isinstance(e.value, (ast.Attribute, ast.Name))
        return False

    folds: Dict[str, ast.AST] = {}
    def scan(stmts):
        keep = []
        for st in stmts:
            for field in ("body", "orelse", "finalbody"):
                sub = getattr(st, field, None)
                if isinstance(sub, list) and sub and isinstance(sub[0], ast.stmt) and not isinstance(st, FDEFS + (ast.ClassDef,)):
                    setattr(st, field, scan(sub) or [ast.copy_location(ast.Pass(), st)])
            if isinstance(st, ast.Try):
                for hd in st.handlers:
                    hd.body = scan(hd.body) or [ast.copy_location(ast.Pass(), st)]
            if isinstance(st, ast.Assign) and len(st.targets) == 1 and isinstance(st.targets[0], ast.Name):
                t = st.targets[0].id
                if binds.get(t) == 1 and t not in params and t not in nested_uses and "*" not in stored_chains:
                    v = st.value
                    if is_chain(v):
                        txt = ast.unparse(v)
                        if not any(txt == c or txt.startswith(c + ".") for c in stored_chains):
                            folds[t] = v
                            continue
                    elif is_const(v) and not isinstance(v, (ast.Constant, ast.Name)):
                        folds[t] = v
                        continue
                    elif "__" in t and isinstance(v, ast.Constant) and isinstance(v.value, (str, int)) and not isinstance(v.value, bool):
                        # a constant bound to a temporary of the normaliser (a table row unpacked, an inlined argument)
                        folds[t] = v
                        continue

                    elif isinstance(v, ast.Call) and isinstance(v.func, ast.Name) and v.func.id == "isinstance" and len(v.args) == 2 and isinstance(v.args[0], ast.Name) \
                            and binds.get(v.args[0].id, 0) <= 1 and "__" in t:
                        # a flag produced by inlining (`is_x__h1 = isinstance(obj, T)`): its uses test the same thing
                        folds[t] = v
                        continue

            keep.append(st)
        return keep

    # t__tag = v at the top level of the function, t__tag a temporary of the normaliser bound once, v a parameter that is never
    # rebound or a local bound once by a top-level statement (straight-line code: v means the same thing wherever t__tag is read)
    top_bound = {st.targets[0].id for st in fn.body if isinstance(st, ast.Assign) and len(st.targets) == 1 and isinstance(st.targets[0], ast.Name)}
    for st in fn.body:
        if isinstance(st, ast.Assign) and isinstance(st.targets[0], ast.Tuple):
            top_bound.update(x_.id for x_ in st.targets[0].elts if isinstance(x_, ast.Name))
    kept = []
    for st in fn.body:
        if isinstance(st, ast.Assign) and len(st.targets) == 1 and isinstance(st.targets[0], ast.Name) and isinstance(st.value, ast.Name):
            t, v = st.targets[0].id, st.value.id
            if "__" in t and binds.get(t) == 1 and t not in params and t not in nested_uses and v not in nested_uses and v not in folds \
                    and ((v in params and binds.get(v, 0) == 0) or (binds.get(v) == 1 and v in top_bound and v not in params)):
                folds[t] = st.value
                continue
        kept.append(st)
    fn.body = kept or [ast.Pass()]
    fn.body = scan(fn.body) or [ast.Pass()]
    if folds:
        class R(ast.NodeTransformer):
            def visit_Name(self, n):
                if n.id in folds and isinstance(n.ctx, ast.Load):
                    rep_ = ast.copy_location(copy.deepcopy(folds[n.id]), n)
                    # (the folded value may itself be a folded name: followed, a name stands for one value so this ends)
                    return self.visit(rep_) if isinstance(rep_, ast.Name) and rep_.id in folds and rep_.id != n.id else rep_
                return n

            def visit_FunctionDef(self, f):
                return f

            visit_AsyncFunctionDef = visit_FunctionDef
            visit_Lambda = visit_FunctionDef

        fn.body = [R().visit(s) for s in fn.body]


def _plain_chain(e) -> bool:
    """name / attribute / constant-or-name subscript chain: evaluating it twice gives the same object and has no effect"""
    while isinstance(e, (ast.Attribute, ast.Subscript)):
        if isinstance(e, ast.Subscript) and not isinstance(e.slice, (ast.Name, ast.Constant)):
            return False
        e = e.value
    return isinstance(e, ast.Name)


def _range_len_to_enumerate(stmts):
    """for i in range(len(X)): ... X[i] ...   ->   for i, x__eN in enumerate(X): ... x__eN ...
    when the body neither rebinds i / X nor resizes or reorders X, writes X only at [i], and reads X[i] only before writing it.
    Then:  for i, x in enumerate(X): a = x[0]; b = x[1]; <x unused>   ->   for i, (a, b) in enumerate(X)"""
    counter = [0]
    RESIZE = {"append", "insert", "pop", "remove", "clear", "extend", "sort", "reverse"}

    def visit(block):
        for st in block:
            for field in ("body", "orelse", "finalbody"):
                sub = getattr(st, field, None)
                if isinstance(sub, list) and sub and isinstance(sub[0], ast.stmt):
                    visit(sub)
            if isinstance(st, ast.Try):
                for h in st.handlers:
                    visit(h.body)
            if isinstance(st, ast.For) and not st.orelse and isinstance(st.target, ast.Name) and isinstance(st.iter, ast.Call) and isinstance(st.iter.func, ast.Name) \
                    and st.iter.func.id == "range" and len(st.iter.args) == 1 and not st.iter.keywords:
                a = st.iter.args[0]
                if isinstance(a, ast.Call) and isinstance(a.func, ast.Name) and a.func.id == "len" and len(a.args) == 1 and _plain_chain(a.args[0]):
                    _to_enumerate(st, a.args[0])
            if isinstance(st, ast.For):
                _unpack_into_target(st)

    def _to_enumerate(lp, X):
        i, xt = lp.target.id, ast.unparse(X)
        base = X
        while isinstance(base, (ast.Attribute, ast.Subscript)):
            base = base.value
        reads, ok, seen_store = [], True, False
        for top in lp.body:
            for n in ast.walk(top):
                if isinstance(n, ast.Name) and isinstance(n.ctx, (ast.Store, ast.Del)) and n.id in (i, base.id):
                    ok = False
                if isinstance(n, FDEFS + (ast.Lambda, ast.ClassDef)):
                    ok = False
                if isinstance(n, ast.Call) and isinstance(n.func, ast.Attribute) and n.func.attr in RESIZE and ast.unparse(n.func.value) == xt:
                    ok = False
                if isinstance(n, ast.Subscript) and ast.unparse(n.value) == xt:
                    if not (isinstance(n.slice, ast.Name) and n.slice.id == i):
                        ok = False
                    elif isinstance(n.ctx, ast.Load):
                        if seen_store:
                            ok = False
                        reads.append(n)
                    else:
                        seen_store = True
                elif isinstance(n, ast.Name) and n.id == base.id and isinstance(n.ctx, ast.Load):
                    pass
            # a store anywhere in this top-level statement orders before reads of later statements only
            if any(isinstance(n, ast.Subscript) and ast.unparse(n.value) == xt and not isinstance(n.ctx, ast.Load) for n in ast.walk(top)):
                seen_store = True
        if not ok or not reads:
            return
        # a bare use of X other than X[i] (passing the list on, len(X)) is fine: its contents before the write are unchanged
        counter[0] += 1
        el = f"x__e{counter[0]}"
        ids = {id(r) for r in reads}

        class R(ast.NodeTransformer):
            def visit_Subscript(self, n):
                if id(n) in ids:
                    return ast.copy_location(ast.Name(id=el, ctx=ast.Load()), n)
                return self.generic_visit(n)

        lp.body = [R().visit(b) for b in lp.body]
        lp.target = ast.Tuple(elts=[ast.Name(id=i, ctx=ast.Store()), ast.Name(id=el, ctx=ast.Store())], ctx=ast.Store())
        lp.iter = ast.Call(func=ast.Name(id="enumerate", ctx=ast.Load()), args=[X], keywords=[])

    def _unpack_into_target(lp):
        tg = lp.target
        el = tg.elts[1] if isinstance(tg, ast.Tuple) and len(tg.elts) == 2 and isinstance(lp.iter, ast.Call) and isinstance(lp.iter.func, ast.Name) and lp.iter.func.id == "enumerate" else tg
        if not (isinstance(el, ast.Name) and "__" in el.id):
            return
        names, k = [], 0
        while k < len(lp.body):
            st = lp.body[k]
            if isinstance(st, ast.Assign) and len(st.targets) == 1 and isinstance(st.targets[0], ast.Name) and isinstance(st.value, ast.Subscript) and isinstance(st.value.value, ast.Name) \
                    and st.value.value.id == el.id and isinstance(st.value.slice, ast.Constant) and st.value.slice.value == k:
                names.append(st.targets[0].id)
                k += 1
            else:
                break
        if k < 2 or len(set(names)) != k:
            return
        if any(isinstance(n, ast.Name) and n.id == el.id for b in lp.body[k:] for n in ast.walk(b)):
            return
        pat = ast.Tuple(elts=[ast.Name(id=n_, ctx=ast.Store()) for n_ in names], ctx=ast.Store())
        if el is tg:
            lp.target = pat
        else:
            tg.elts[1] = pat
        lp.body = lp.body[k:] or [ast.Pass()]

    visit(stmts)
    return stmts


def _fold_module_constants(tree, counts):
    """N20  NAME = tuple(f"reg{i}" for i in range(5))  ->  NAME = ("reg0", ..., "reg4")   at module level: a name bound once to an
    expression built only from literals, ranges, comprehensions over them, tuple / list / len / str / int / sorted / reversed and
    names folded before it is replaced by the display it evaluates to (constant folding; at most 64 constants)."""
    allowed_calls = {"tuple": tuple, "list": list, "range": range, "len": len, "str": str, "int": int, "sorted": sorted, "reversed": reversed, "zip": zip, "enumerate": enumerate}
    folded: Dict[str, object] = {}

    def closed(e, bound):
        if isinstance(e, ast.Constant):
            return isinstance(e.value, (str, int, bool, type(None))) or e.value is None
        if isinstance(e, ast.Name):
            return e.id in bound or e.id in folded
        if isinstance(e, (ast.Tuple, ast.List)):
            return all(closed(x, bound) for x in e.elts)
        if isinstance(e, ast.JoinedStr):
            return all(closed(x, bound) for x in e.values)
        if isinstance(e, ast.FormattedValue):
            return e.format_spec is None and e.conversion == -1 and closed(e.value, bound)
        if isinstance(e, ast.BinOp) and isinstance(e.op, (ast.Add, ast.Sub, ast.Mult, ast.FloorDiv, ast.Mod)):
            return closed(e.left, bound) and closed(e.right, bound)
        if isinstance(e, ast.Call):
            return isinstance(e.func, ast.Name) and e.func.id in allowed_calls and e.func.id not in bound and not e.keywords and all(closed(a, bound) for a in e.args)
        if isinstance(e, ast.Subscript):
            sl = e.slice
            parts = [sl.lower, sl.upper, sl.step] if isinstance(sl, ast.Slice) else [sl]
            return closed(e.value, bound) and all(x is None or closed(x, bound) for x in parts)
        if isinstance(e, (ast.GeneratorExp, ast.ListComp)):
            b2 = set(bound)
            for g in e.generators:
                if g.is_async or not closed(g.iter, b2):
                    return False
                for t in ast.walk(g.target):
                    if isinstance(t, ast.Name):
                        b2.add(t.id)
                if not all(closed(c, b2) for c in g.ifs):
                    return False
            return closed(e.elt, b2)
        return False

    def display(v, like):
        if isinstance(v, (str, int, bool)) or v is None:
            return ast.Constant(value=v)
        if isinstance(v, (tuple, list)) and len(v) <= 64:
            elts = [display(x, like) for x in v]
            if any(x is None for x in elts):
                return None
            return (ast.Tuple if isinstance(v, tuple) else ast.List)(elts=elts, ctx=ast.Load())
        return None

    for st in tree.body:
        if not (isinstance(st, ast.Assign) and len(st.targets) == 1 and isinstance(st.targets[0], ast.Name) and counts.get(st.targets[0].id) == 1):
            continue
        name, e = st.targets[0].id, st.value
        if isinstance(e, ast.Constant):
            if isinstance(e.value, (str, int, bool)) and not isinstance(e.value, bool) or isinstance(e.value, str):
                folded[name] = e.value
            continue
        if not closed(e, set()):
            continue
        if isinstance(e, (ast.Tuple, ast.List)) and all(isinstance(x, ast.Constant) for x in e.elts):
            folded[name] = tuple(x.value for x in e.elts) if isinstance(e, ast.Tuple) else [x.value for x in e.elts]
            continue
        if not any(isinstance(x, (ast.Call, ast.GeneratorExp, ast.ListComp, ast.Subscript)) for x in ast.walk(e)):
            continue  # plain arithmetic on constants is left to the constant evaluator of the model
        try:
            code = compile(ast.fix_missing_locations(ast.Expression(body=copy.deepcopy(e))), "<const>", "eval")
            v = eval(code, {"__builtins__": {}, **allowed_calls, **folded})  # closed constant expression: literals, ranges and the pure builtins above only
        except Exception:
            continue
        d = display(v, e)
        if d is not None and isinstance(v, (tuple, list)):
            st.value = ast.copy_location(d, e)
            ast.fix_missing_locations(st.value)
            folded[name] = v


class _FoldConstTableOps(ast.NodeTransformer):
    """len(T) -> n,  T[a:b] -> display,  T[i] -> element   for a module-level constant T bound once to a display of constants"""

    def __init__(self, module_consts):
        self.mc = module_consts

    def _const_int(self, e):
        if e is None:
            return None
        if isinstance(e, ast.Constant) and isinstance(e.value, int) and not isinstance(e.value, bool):
            return e.value
        if isinstance(e, ast.UnaryOp) and isinstance(e.op, ast.USub) and isinstance(e.operand, ast.Constant) and isinstance(e.operand.value, int):
            return -e.operand.value
        return "?"

    def visit_Call(self, node):
        self.generic_visit(node)
        if isinstance(node.func, ast.Name) and node.func.id == "len" and len(node.args) == 1 and not node.keywords and isinstance(node.args[0], ast.Name) and node.args[0].id in self.mc:
            return ast.copy_location(ast.Constant(value=len(self.mc[node.args[0].id].elts)), node)
        return node

    def visit_Subscript(self, node):
        self.generic_visit(node)
        if isinstance(node.value, ast.Name) and node.value.id in self.mc and isinstance(node.ctx, ast.Load):
            t = self.mc[node.value.id]
            if isinstance(node.slice, ast.Slice):
                lo, hi, stp = (self._const_int(x) for x in (node.slice.lower, node.slice.upper, node.slice.step))
                if "?" not in (lo, hi, stp):
                    return ast.copy_location(type(t)(elts=[copy.deepcopy(x) for x in t.elts[slice(lo, hi, stp)]], ctx=ast.Load()), node)
            else:
                i = self._const_int(node.slice)
                if isinstance(i, int) and -len(t.elts) <= i < len(t.elts):
                    return ast.copy_location(copy.deepcopy(t.elts[i]), node)
        return node


class _UnrollLiteralComprehensions(ast.NodeTransformer):
    """[f(x) for x in (a, b)]  ->  [f(a), f(b)]   (one generator over a tuple / list display, no condition, name target);
    the same for a generator expression that is the only argument of .extend / .join / list / tuple (consumed completely, in order),
    for a dict comprehension, and for an iterable that is a module-level constant bound once to a display of constants"""

    def __init__(self, module_consts: Optional[Dict[str, ast.AST]] = None):
        self.module_consts = module_consts or {}

    def _display(self, it):
        if isinstance(it, ast.Name) and it.id in self.module_consts:
            it = self.module_consts[it.id]
        if isinstance(it, (ast.Tuple, ast.List)) and len(it.elts) <= 12 and not any(isinstance(e, ast.Starred) for e in it.elts):
            return it.elts
        return None

    def _items(self, comp):
        """-> (mapping per item: [{loop variable: expression}], ...) or None"""
        if len(comp.generators) != 1:
            return None
        g = comp.generators[0]
        if g.ifs or g.is_async:
            return None
        it = g.iter
        rows = None
        if isinstance(it, ast.Call) and isinstance(it.func, ast.Name) and it.func.id == "zip" and not it.keywords and len(it.args) >= 2:
            cols = [self._display(a) for a in it.args]
            if any(c is None for c in cols):
                return None
            rows = [list(r) for r in zip(*cols)]  # zip stops at the shortest
        else:
            els = self._display(it)
            if els is None:
                return None
            rows = [[e] for e in els] if isinstance(g.target, ast.Name) else None
            if rows is None:
                if not all(isinstance(e, ast.Tuple) and not any(isinstance(x, ast.Starred) for x in e.elts) for e in els):
                    return None
                rows = [list(e.elts) for e in els]
        tgt = [g.target] if isinstance(g.target, ast.Name) else list(g.target.elts) if isinstance(g.target, ast.Tuple) else None
        if tgt is None or not all(isinstance(t, ast.Name) for t in tgt) or any(len(r) != len(tgt) for r in rows):
            return None
        parts = [comp.elt] if not isinstance(comp, ast.DictComp) else [comp.key, comp.value]
        if any(isinstance(n, (ast.Lambda, ast.ListComp, ast.GeneratorExp, ast.SetComp, ast.DictComp)) for p_ in parts for n in ast.walk(p_)):
            return None
        # an item that is substituted more than once must be a plain chain or a constant (no call evaluated twice)
        return [{t.id: v for t, v in zip(tgt, r)} for r in rows]

    def _unroll(self, comp):
        rows = self._items(comp)
        if rows is None:
            return None
        return ast.List(elts=[_Subst(r).visit(copy.deepcopy(comp.elt)) for r in rows], ctx=ast.Load())

    def visit_DictComp(self, node):
        self.generic_visit(node)
        rows = self._items(node)
        if rows is None:
            return node
        return ast.copy_location(ast.Dict(keys=[_Subst(r).visit(copy.deepcopy(node.key)) for r in rows],
                                          values=[_Subst(r).visit(copy.deepcopy(node.value)) for r in rows]), node)

    def visit_ListComp(self, node):
        self.generic_visit(node)
        new = self._unroll(node)
        return ast.copy_location(new, node) if new is not None else node

    def visit_Assign(self, node):
        self.generic_visit(node)
        # a, b = (f(x) for x in (p, q))  ->  a, b = (f(p), f(q))   (unpacking consumes the generator completely, in order)
        if len(node.targets) == 1 and isinstance(node.targets[0], (ast.Tuple, ast.List)) and isinstance(node.value, (ast.GeneratorExp, ast.List)):
            v = self._unroll(node.value) if isinstance(node.value, ast.GeneratorExp) else node.value
            if v is not None and len(v.elts) == len(node.targets[0].elts) and not any(isinstance(x, ast.Starred) for x in list(v.elts) + list(node.targets[0].elts)):
                node.value = ast.copy_location(ast.Tuple(elts=v.elts, ctx=ast.Load()), node.value)
        return node

    def visit_Call(self, node):
        self.generic_visit(node)
        if len(node.args) == 1 and not node.keywords and isinstance(node.args[0], ast.GeneratorExp):
            f = node.func
            if (isinstance(f, ast.Attribute) and f.attr in ("extend", "join")) or (isinstance(f, ast.Name) and f.id in ("list", "tuple")):
                new = self._unroll(node.args[0])
                if new is not None:
                    node.args[0] = ast.copy_location(new, node.args[0])
        return node


class _EmptyJoinToConcat(ast.NodeTransformer):
    """b''.join((a, b, c)) / ''.join([a, b])  ->  a + b + c   (empty constant separator, display of two or more elements)"""

    def visit_Call(self, node):
        self.generic_visit(node)
        f = node.func
        if isinstance(f, ast.Attribute) and f.attr == "join" and isinstance(f.value, ast.Constant) and f.value.value in (b"", "") and len(node.args) == 1 and not node.keywords \
                and isinstance(node.args[0], (ast.Tuple, ast.List)) and len(node.args[0].elts) >= 2 and not any(isinstance(e, ast.Starred) for e in node.args[0].elts):
            e = node.args[0].elts[0]
            for nx in node.args[0].elts[1:]:
                e = ast.BinOp(left=e, op=ast.Add(), right=nx)
            return ast.copy_location(e, node)
        return node


class _FormatToFString(ast.NodeTransformer):
    """'a {} b {}'.format(x, y)  ->  f'a {x} b {y}'   (only empty replacement fields, positional arguments, no escapes)"""

    def visit_Call(self, node):
        self.generic_visit(node)
        f = node.func
        if isinstance(f, ast.Attribute) and f.attr == "format" and isinstance(f.value, ast.Constant) and isinstance(f.value.value, str) and not node.keywords \
                and not any(isinstance(a, ast.Starred) for a in node.args):
            text = f.value.value
            if "{{" in text or "}}" in text:
                return node
            pieces = text.split("{}")
            if len(pieces) != len(node.args) + 1 or any("{" in p_ or "}" in p_ for p_ in pieces):
                return node
            values = []
            for k, p_ in enumerate(pieces):
                if p_:
                    values.append(ast.Constant(value=p_))
                if k < len(node.args):
                    values.append(ast.FormattedValue(value=node.args[k], conversion=-1, format_spec=None))
            return ast.copy_location(ast.JoinedStr(values=values), node)
        return node


def _fold_list_building(fn):
    """w = [a]; w.append(b); w.extend([c, d]); w += [e]   ->   w = [a, b, c, d, e]
    for a local bound by a list display, as long as the following statements are such additions of displays (straight line)"""
    def scan(stmts):
        out: List[ast.stmt] = []
        i = 0
        while i < len(stmts):
            st = stmts[i]
            for field in ("body", "orelse", "finalbody"):
                sub = getattr(st, field, None)
                if isinstance(sub, list) and sub and isinstance(sub[0], ast.stmt) and not isinstance(st, FDEFS + (ast.ClassDef,)):
                    setattr(st, field, scan(sub))
            if isinstance(st, ast.Try):
                for hd in st.handlers:
                    hd.body = scan(hd.body)
            tg = st.targets[0] if isinstance(st, ast.Assign) and len(st.targets) == 1 else st.target if isinstance(st, ast.AnnAssign) else None
            if isinstance(tg, ast.Name) and isinstance(getattr(st, "value", None), ast.List) and not any(isinstance(e, ast.Starred) for e in st.value.elts):
                name = tg.id
                j = i + 1
                while j < len(stmts):
                    nx = stmts[j]
                    add = None
                    if isinstance(nx, ast.Expr) and isinstance(nx.value, ast.Call) and isinstance(nx.value.func, ast.Attribute) and isinstance(nx.value.func.value, ast.Name) \
                            and nx.value.func.value.id == name and len(nx.value.args) == 1 and not nx.value.keywords:
                        a = nx.value.args[0]
                        if nx.value.func.attr == "append":
                            add = [a]
                        elif nx.value.func.attr == "extend" and isinstance(a, (ast.List, ast.Tuple)) and not any(isinstance(e, ast.Starred) for e in a.elts):
                            add = list(a.elts)
                    elif isinstance(nx, ast.AugAssign) and isinstance(nx.op, ast.Add) and isinstance(nx.target, ast.Name) and nx.target.id == name and isinstance(nx.value, ast.List) \
                            and not any(isinstance(e, ast.Starred) for e in nx.value.elts):
                        add = list(nx.value.elts)
                    if add is None or any(isinstance(n, ast.Name) and n.id == name for e in add for n in ast.walk(e)):
                        break
                    st.value.elts.extend(add)
                    j += 1
                out.append(st)
                i = j
                continue
            out.append(st)
            i += 1
        return out

    fn.body = scan(fn.body)


def _private_records(tree: ast.Module, known: Set[str]) -> Dict[str, List[Tuple[str, Optional[ast.AST]]]]:
    """module-level private classes that only name a tuple of values: `class _X(NamedTuple)` / `@dataclass class _X` whose body
    is annotated fields (with optional defaults) and nothing else  ->  ordered [(field, default)]"""
    out = {}
    for st in tree.body:
        if not (isinstance(st, ast.ClassDef) and st.name.startswith("_") and st.name not in known):
            continue
        nt = any((isinstance(b, ast.Name) and b.id == "NamedTuple") or (isinstance(b, ast.Attribute) and b.attr == "NamedTuple") for b in st.bases)
        dc = any((isinstance(d, ast.Name) and d.id == "dataclass") or (isinstance(d, ast.Call) and isinstance(d.func, ast.Name) and d.func.id == "dataclass") for d in st.decorator_list)
        if not (nt or dc) or st.keywords or (dc and st.bases):
            continue
        fields = []
        ok = True
        for b in _strip_doc(st.body):
            if isinstance(b, ast.AnnAssign) and isinstance(b.target, ast.Name) and b.simple:
                v_ = b.value
                if isinstance(v_, ast.Call) and (dotted_name(v_.func) or "").split(".")[-1] == "field":
                    # field(default=V) -> V ; field(default_factory=F) -> F() (a fresh value wherever the record is built) ; anything else: not a plain record
                    kw_ = {k_.arg: k_.value for k_ in v_.keywords}
                    if v_.args or set(kw_) - {"default", "default_factory"} or len(kw_) != 1:
                        ok = False
                    elif "default" in kw_:
                        v_ = kw_["default"]
                    else:
                        v_ = ast.copy_location(ast.Call(func=kw_["default_factory"], args=[], keywords=[]), v_)
                fields.append((b.target.id, v_))
            elif not isinstance(b, ast.Pass):
                ok = False
        if ok and fields:
            out[st.name] = fields
    return out


def _fold_private_records(fn, records):
    """x = _Rec(a=E1, b=E2) ... x.a ... p, q = x ... x[1]   ->   x__a = E1; x__b = E2 ... x__a ... p = x__a; q = x__b ... x__b
    (x bound once in fn and used in no other way; the field expressions keep their order of evaluation)"""
    binds: Dict[str, int] = {}
    for n in _walk_own(fn):
        if isinstance(n, ast.Name) and isinstance(n.ctx, (ast.Store, ast.Del)):
            binds[n.id] = binds.get(n.id, 0) + 1
    params = {a.arg for a in ast.walk(fn.args) if isinstance(a, ast.arg)}
    parent = {}
    for n in ast.walk(fn):
        for c in ast.iter_child_nodes(n):
            parent[id(c)] = n
    # t1, t2 = _Rec(a=E1, b=E2)   ->   (t1, t2) = (E1, E2)   (split into single assignments by the next pass when the Ei do not read the ti)
    for n in _walk_own(fn):
        if isinstance(n, ast.Assign) and len(n.targets) == 1 and isinstance(n.targets[0], ast.Tuple) and isinstance(n.value, ast.Call) and isinstance(n.value.func, ast.Name) \
                and n.value.func.id in records and len(n.targets[0].elts) == len(records[n.value.func.id]):
            fields = records[n.value.func.id]
            call = n.value
            if any(isinstance(a, ast.Starred) for a in call.args) or any(k.arg is None for k in call.keywords) or len(call.args) > len(fields):
                continue
            bound = {f: a for (f, _d), a in zip(fields, call.args)}
            ok_ = True
            for k in call.keywords:
                if k.arg in bound or k.arg not in [f for f, _ in fields]:
                    ok_ = False
                bound[k.arg] = k.value
            for f, d in fields:
                if f not in bound:
                    if d is None:
                        ok_ = False
                    else:
                        bound[f] = d
            # keyword arguments written in another order than the fields are evaluated in their written order: only plain values may move
            written = [k.arg for k in call.keywords]
            in_field_order = written == [f for f, _ in fields if f in written]
            if ok_ and (in_field_order or all(not any(isinstance(x, ast.Call) for x in ast.walk(v)) for v in bound.values())):
                n.value = ast.copy_location(ast.Tuple(elts=[bound[f] for f, _ in fields], ctx=ast.Load()), call)
    cands = {}
    for n in _walk_own(fn):
        if isinstance(n, ast.Assign) and len(n.targets) == 1 and isinstance(n.targets[0], ast.Name) and isinstance(n.value, ast.Call) and isinstance(n.value.func, ast.Name) \
                and n.value.func.id in records and binds.get(n.targets[0].id) == 1 and n.targets[0].id not in params:
            fields = records[n.value.func.id]
            call = n.value
            if any(isinstance(a, ast.Starred) for a in call.args) or any(k.arg is None for k in call.keywords) or len(call.args) > len(fields):
                continue
            bound, order = {}, []
            for (f, _d), a in zip(fields, call.args):
                bound[f] = a
                order.append(f)
            bad = False
            for k in call.keywords:
                if k.arg in bound or k.arg not in [f for f, _ in fields]:
                    bad = True
                bound[k.arg] = k.value
                order.append(k.arg)
            for f, d in fields:
                if f not in bound:
                    if d is None:
                        bad = True
                    else:
                        bound[f] = d
                        order.append(f)
            if not bad:
                cands[n.targets[0].id] = (n, fields, bound, order)
    if not cands:
        return
    # every other occurrence of the name must be a field read, a constant index or the value of a full tuple unpacking
    for name in list(cands):
        n0, fields, bound, order = cands[name]
        fnames = [f for f, _ in fields]
        for n in ast.walk(fn):
            if isinstance(n, ast.Name) and n.id == name and n is not n0.targets[0]:
                p_ = parent.get(id(n))
                if isinstance(p_, ast.Attribute) and p_.value is n and isinstance(p_.ctx, ast.Load) and p_.attr in fnames:
                    continue
                if isinstance(p_, ast.Subscript) and p_.value is n and isinstance(p_.ctx, ast.Load) and isinstance(p_.slice, ast.Constant) and isinstance(p_.slice.value, int) and 0 <= p_.slice.value < len(fnames):
                    continue
                if isinstance(p_, ast.Assign) and p_.value is n and len(p_.targets) == 1 and isinstance(p_.targets[0], ast.Tuple) and len(p_.targets[0].elts) == len(fnames) \
                        and all(isinstance(t, ast.Name) for t in p_.targets[0].elts):
                    continue
                if isinstance(p_, ast.For) and p_.iter is n:
                    continue  # iterating a named tuple visits its fields in order
                cands.pop(name, None)
                break
    if not cands:
        return

    class R(ast.NodeTransformer):
        def visit_Attribute(self, n):
            if isinstance(n.value, ast.Name) and n.value.id in cands and isinstance(n.ctx, ast.Load):
                return ast.copy_location(ast.Name(id=f"{n.value.id}__{n.attr}", ctx=ast.Load()), n)
            return self.generic_visit(n)

        def visit_Subscript(self, n):
            if isinstance(n.value, ast.Name) and n.value.id in cands and isinstance(n.ctx, ast.Load) and isinstance(n.slice, ast.Constant):
                f = cands[n.value.id][1][n.slice.value][0]
                return ast.copy_location(ast.Name(id=f"{n.value.id}__{f}", ctx=ast.Load()), n)
            return self.generic_visit(n)

    def scan(stmts):
        out = []
        for st in stmts:
            for field in ("body", "orelse", "finalbody"):
                sub = getattr(st, field, None)
                if isinstance(sub, list) and sub and isinstance(sub[0], ast.stmt) and not isinstance(st, FDEFS + (ast.ClassDef,)):
                    setattr(st, field, scan(sub))
            if isinstance(st, ast.Try):
                for hd in st.handlers:
                    hd.body = scan(hd.body)
            if isinstance(st, ast.Assign) and len(st.targets) == 1 and isinstance(st.targets[0], ast.Name) and st.targets[0].id in cands and cands[st.targets[0].id][0] is st:
                name = st.targets[0].id
                _n0, fields, bound, order = cands[name]
                for f in order:
                    out.append(ast.copy_location(ast.Assign(targets=[ast.Name(id=f"{name}__{f}", ctx=ast.Store())], value=R().visit(bound[f]), lineno=st.lineno), st))
                continue
            if isinstance(st, ast.Assign) and isinstance(st.value, ast.Name) and st.value.id in cands and isinstance(st.targets[0], ast.Tuple):
                name = st.value.id
                for t, (f, _d) in zip(st.targets[0].elts, cands[name][1]):
                    out.append(ast.copy_location(ast.Assign(targets=[t], value=ast.Name(id=f"{name}__{f}", ctx=ast.Load()), lineno=st.lineno), st))
                continue
            if isinstance(st, ast.For) and isinstance(st.iter, ast.Name) and st.iter.id in cands:
                name = st.iter.id
                st.iter = ast.copy_location(ast.Tuple(elts=[ast.Name(id=f"{name}__{f}", ctx=ast.Load()) for f, _d in cands[name][1]], ctx=ast.Load()), st.iter)
            out.append(R().visit(st))
        return out

    fn.body = scan(fn.body)


def _merge_search_result(stmts: List[ast.stmt]) -> List[ast.stmt]:
    """for ...: [if c:] t = V; break   else: t = None      if t is not None: B (B always leaves)
       ->  for ...: [if c:] t = V; B
    V is a display or a non-None constant (never None), t is read nowhere after the `if`: what B does with the value found is done
    where it is found; when nothing is found nothing happens in both forms."""
    out: List[ast.stmt] = []
    i = 0
    while i < len(stmts):
        st = stmts[i]
        for field in ("body", "orelse", "finalbody"):
            sub = getattr(st, field, None)
            if isinstance(sub, list) and sub and isinstance(sub[0], ast.stmt):
                setattr(st, field, _merge_search_result(sub))
        if isinstance(st, ast.Try):
            for hd in st.handlers:
                hd.body = _merge_search_result(hd.body)
        nxt = stmts[i + 1] if i + 1 < len(stmts) else None
        if isinstance(st, ast.For) and len(st.orelse) == 1 and isinstance(st.orelse[0], ast.Assign) and len(st.orelse[0].targets) == 1 and isinstance(st.orelse[0].targets[0], ast.Name) \
                and isinstance(st.orelse[0].value, ast.Constant) and st.orelse[0].value.value is None and isinstance(nxt, ast.If) and not nxt.orelse and _terminates(nxt.body):
            t = st.orelse[0].targets[0].id
            test = nxt.test
            is_test = isinstance(test, ast.Compare) and len(test.ops) == 1 and isinstance(test.ops[0], ast.IsNot) and isinstance(test.left, ast.Name) and test.left.id == t \
                and isinstance(test.comparators[0], ast.Constant) and test.comparators[0].value is None
            later = any(isinstance(n, ast.Name) and n.id == t for s_ in stmts[i + 2:] for n in ast.walk(s_))
            sites = []

            def find(block):
                for k, s_ in enumerate(block):
                    if isinstance(s_, ast.Break):
                        prev = block[k - 1] if k else None
                        if isinstance(prev, ast.Assign) and len(prev.targets) == 1 and isinstance(prev.targets[0], ast.Name) and prev.targets[0].id == t \
                                and (isinstance(prev.value, (ast.Tuple, ast.List, ast.Dict, ast.JoinedStr)) or (isinstance(prev.value, ast.Constant) and prev.value.value is not None)):
                            sites.append((block, k))
                        else:
                            sites.append(None)
                    elif isinstance(s_, ast.If):
                        find(s_.body)
                        find(s_.orelse)
                    elif isinstance(s_, (ast.For, ast.While, ast.Try, ast.With)):
                        if any(isinstance(n, ast.Break) for n in ast.walk(s_)):
                            sites.append(None)
            find(st.body)
            other_binds = sum(1 for n in ast.walk(st) if isinstance(n, ast.Name) and n.id == t and isinstance(n.ctx, ast.Store))
            if is_test and not later and len(sites) == 1 and sites[0] is not None and other_binds == 2:
                block, k = sites[0]
                block[k:k + 1] = [copy.deepcopy(x) for x in nxt.body]
                st.orelse = []
                out.append(st)
                i += 2
                continue
        out.append(st)
        i += 1
    return out


class _SpliceDoubleStarDict(ast.NodeTransformer):
    """f(**{'a': x, 'b': y})  ->  f(a=x, b=y)   (dict display with constant identifier keys)"""

    def visit_Call(self, node):
        self.generic_visit(node)
        new_kw = []
        for k in node.keywords:
            if k.arg is None and isinstance(k.value, ast.Dict) and k.value.keys and all(isinstance(x, ast.Constant) and isinstance(x.value, str) and x.value.isidentifier() for x in k.value.keys):
                new_kw.extend(ast.keyword(arg=x.value, value=v) for x, v in zip(k.value.keys, k.value.values))
            else:
                new_kw.append(k)
        names = [k.arg for k in new_kw if k.arg is not None]
        if len(names) == len(set(names)):
            node.keywords = new_kw
        return node


def _fold_adjacent_displays(fn):
    """t = <tuple / list / dict display or comprehension over constants> ; <next statement reading t exactly once, as *t, **t, an
    argument, or the iterable of a comprehension>  ->  the use reads the display  (t bound once, read nowhere else; the next statement
    evaluates no call before the place where t is read, other than the calls t is an argument of)"""
    binds: Dict[str, int] = {}
    uses: Dict[str, int] = {}
    for n in _walk_own(fn):
        if isinstance(n, ast.Name):
            if isinstance(n.ctx, ast.Load):
                uses[n.id] = uses.get(n.id, 0) + 1
            else:
                binds[n.id] = binds.get(n.id, 0) + 1
    for n in ast.walk(fn):
        if n is not fn and isinstance(n, FDEFS + (ast.Lambda,)):
            for x in ast.walk(n):
                if isinstance(x, ast.Name):
                    uses[x.id] = uses.get(x.id, 0) + 2  # read inside a nested scope: never folded
    params = {a.arg for a in ast.walk(fn.args) if isinstance(a, ast.arg)}

    def scan(stmts):
        out: List[ast.stmt] = []
        i = 0
        while i < len(stmts):
            st = stmts[i]
            for field in ("body", "orelse", "finalbody"):
                sub = getattr(st, field, None)
                if isinstance(sub, list) and sub and isinstance(sub[0], ast.stmt) and not isinstance(st, FDEFS + (ast.ClassDef,)):
                    setattr(st, field, scan(sub))
            if isinstance(st, ast.Try):
                for hd in st.handlers:
                    hd.body = scan(hd.body)
            nxt = stmts[i + 1] if i + 1 < len(stmts) else None
            tg = st.targets[0] if isinstance(st, ast.Assign) and len(st.targets) == 1 else st.target if isinstance(st, ast.AnnAssign) else None
            val = getattr(st, "value", None)
            if nxt is not None and isinstance(tg, ast.Name) and isinstance(val, (ast.Tuple, ast.List, ast.Dict, ast.DictComp, ast.ListComp)) and binds.get(tg.id) == 1 and uses.get(tg.id) == 1 \
                    and tg.id not in params and isinstance(nxt, (ast.Assign, ast.AnnAssign, ast.Expr, ast.Return, ast.AugAssign)):
                t = tg.id
                where = nxt.value if not isinstance(nxt, ast.Expr) else nxt.value
                site = [n for n in ast.walk(where) if isinstance(n, ast.Name) and n.id == t and isinstance(n.ctx, ast.Load)] if where is not None else []
                if len(site) == 1:
                    use = site[0]
                    # calls of the next statement: only those that contain the use (it is one of their arguments / iterables)
                    # (calls in the element of the comprehension that iterates over t run after t is read)
                    after = {id(c) for n in ast.walk(where) if isinstance(n, (ast.ListComp, ast.GeneratorExp, ast.SetComp, ast.DictComp)) and any(x is use for x in ast.walk(n.generators[0].iter))
                             for part in ([n.elt] if not isinstance(n, ast.DictComp) else [n.key, n.value]) for c in ast.walk(part)}
                    others = [c for c in ast.walk(where) if isinstance(c, ast.Call) and not any(x is use for x in ast.walk(c)) and id(c) not in after]
                    in_lambda = any(isinstance(n, ast.Lambda) and any(x is use for x in ast.walk(n)) for n in ast.walk(where))
                    repeated = any(isinstance(n, (ast.ListComp, ast.GeneratorExp, ast.SetComp, ast.DictComp)) and any(x is use for x in ast.walk(n))
                                   and not any(x is use for x in ast.walk(n.generators[0].iter)) for n in ast.walk(where))
                    if not others and not in_lambda and not repeated:
                        class R(ast.NodeTransformer):
                            def visit_Name(self, n):
                                return ast.copy_location(copy.deepcopy(val), n) if n is use else n
                        stmts[i + 1] = R().visit(nxt)
                        i += 1
                        continue
            out.append(st)
            i += 1
        return out

    fn.body = scan(fn.body)


def _hoist_named_expressions(tree):
    """N19  stmt[... (x := e) ...]  ->  x = e ; stmt[... x ...]   when the named expression is evaluated unconditionally and
    everything evaluated before it is a constant or a plain name / attribute chain that does not mention x.
    `while (x := e) <test>: B`  ->  `while True: x = e ; if not (<test>): break ; B`   (no else clause).
    A named expression in a conditionally evaluated position (right of and/or, arm of a conditional expression, later link of a
    comparison chain, comprehension, lambda) is left alone."""
    FOUND, ABSENT, BLOCKED = 1, 0, -1

    def pure(e, name):
        if isinstance(e, ast.Constant):
            return True
        if isinstance(e, ast.Name):
            return e.id != name
        if isinstance(e, ast.Attribute):
            return pure(e.value, name)
        return False

    def children(e):
        """(child, evaluated unconditionally?) in evaluation order"""
        if isinstance(e, ast.BoolOp):
            return [(v, i == 0) for i, v in enumerate(e.values)]
        if isinstance(e, ast.IfExp):
            return [(e.test, True), (e.body, False), (e.orelse, False)]
        if isinstance(e, ast.Compare):
            return [(e.left, True)] + [(c, i == 0) for i, c in enumerate(e.comparators)]
        if isinstance(e, ast.BinOp):
            return [(e.left, True), (e.right, True)]
        if isinstance(e, ast.UnaryOp):
            return [(e.operand, True)]
        if isinstance(e, ast.Call):
            return [(e.func, True)] + [(a, True) for a in e.args] + [(k.value, True) for k in e.keywords]
        if isinstance(e, ast.Attribute):
            return [(e.value, True)]
        if isinstance(e, ast.Subscript):
            return [(e.value, True), (e.slice, True)]
        if isinstance(e, ast.Starred):
            return [(e.value, True)]
        if isinstance(e, (ast.Tuple, ast.List, ast.Set)):
            return [(x, True) for x in e.elts]
        if isinstance(e, ast.JoinedStr):
            return [(x, True) for x in e.values]
        if isinstance(e, ast.FormattedValue):
            return [(e.value, True)]
        if isinstance(e, (ast.Constant, ast.Name)):
            return []
        return None  # comprehension, lambda, dict, slice objects, ...: not looked into

    def scan(e, w):
        if e is w:
            return FOUND
        ch = children(e)
        if ch is None:
            return BLOCKED if any(x is w for x in ast.walk(e)) else ABSENT
        for c, uncond in ch:
            if any(x is w for x in ast.walk(c)):
                if not uncond:
                    return BLOCKED
                return scan(c, w)
            # c is evaluated in full before the named expression
            if not (pure(c, w.target.id) or (isinstance(e, ast.Call) and c is e.func and pure(c, w.target.id))):
                return BLOCKED
        return ABSENT

    class _Repl(ast.NodeTransformer):
        def __init__(self, w):
            self.w = w

        def visit(self, node):
            if node is self.w:
                return ast.copy_location(ast.Name(id=node.target.id, ctx=ast.Load()), node)
            return super().visit(node)

    def first_walrus(e):
        for x in ast.walk(e):
            if isinstance(x, ast.NamedExpr) and isinstance(x.target, ast.Name) and not any(isinstance(y, ast.NamedExpr) for y in ast.walk(x.value)):
                return x
        return None

    def hoist_from(expr):
        """-> (list of assignments, rewritten expression)"""
        pre = []
        for _ in range(8):
            w = first_walrus(expr) if expr is not None else None
            if w is None or scan(expr, w) != FOUND:
                break
            pre.append(ast.copy_location(ast.Assign(targets=[ast.Name(id=w.target.id, ctx=ast.Store())], value=w.value, lineno=w.lineno), w))
            expr = _Repl(w).visit(expr)
        return pre, expr

    def block(stmts):
        out = []
        for st in stmts:
            if isinstance(st, FDEFS + (ast.ClassDef,)):
                st.body = block(st.body)
                out.append(st)
                continue
            for field in ("body", "orelse", "finalbody"):
                sub = getattr(st, field, None)
                if isinstance(sub, list) and sub and isinstance(sub[0], ast.stmt):
                    setattr(st, field, block(sub))
            if isinstance(st, ast.Try):
                for hd in st.handlers:
                    hd.body = block(hd.body)
            slot = {ast.If: "test", ast.Assign: "value", ast.AugAssign: "value", ast.AnnAssign: "value", ast.Expr: "value", ast.Return: "value", ast.Assert: "test", ast.For: "iter"}.get(type(st))
            if isinstance(st, ast.While) and not st.orelse and first_walrus(st.test) is not None:
                pre, test = hoist_from(st.test)
                if pre:
                    brk = ast.copy_location(ast.If(test=ast.UnaryOp(op=ast.Not(), operand=test), body=[ast.copy_location(ast.Break(), st)], orelse=[]), st)
                    st.test = ast.copy_location(ast.Constant(value=True), st)
                    st.body = pre + [brk] + st.body
                out.append(st)
                continue
            if slot and getattr(st, slot, None) is not None and first_walrus(getattr(st, slot)) is not None:
                pre, e2 = hoist_from(getattr(st, slot))
                setattr(st, slot, e2)
                out.extend(pre)
            out.append(st)
        return out

    tree.body = block(tree.body)


def _next_search_to_loop(fn) -> bool:
    """N21  t = next((E for X in IT if C), D)   ->   for X in IT: if C: t = E ; break    else: t = D
            return next((E for X in IT if C), D)  ->   for X in IT: if C: return E       ; return D
    (one generator, D a constant or a plain name / attribute chain, so that evaluating it after the search changes nothing).  The
    loop variables of the generator are private to it; they are renamed when the function mentions the same names elsewhere."""
    changed = [False]
    counter = [0]

    def plain(e):
        return isinstance(e, ast.Constant) or (isinstance(e, ast.Name)) or (isinstance(e, ast.Attribute) and plain(e.value))

    def match(v):
        if isinstance(v, ast.Call) and isinstance(v.func, ast.Name) and v.func.id == "next" and len(v.args) == 2 and not v.keywords and isinstance(v.args[0], ast.GeneratorExp) \
                and len(v.args[0].generators) == 1 and not v.args[0].generators[0].is_async and plain(v.args[1]):
            return v.args[0], v.args[1]
        return None

    def loop_for(gen, default, make_hit, make_miss, at):
        g = gen.generators[0]
        own = {n.id for n in ast.walk(g.target) if isinstance(n, ast.Name)}
        inside = {id(n) for n in ast.walk(gen)}
        clash = {n.id for n in ast.walk(fn) if isinstance(n, ast.Name) and n.id in own and id(n) not in inside}
        clash |= {a.arg for a in ast.walk(fn.args) if isinstance(a, ast.arg) and a.arg in own}
        target, elt, ifs = g.target, gen.elt, list(g.ifs)
        if clash:
            counter[0] += 1
            ren = {n: f"{n}__g{counter[0]}" for n in clash}

            class R(ast.NodeTransformer):
                def visit_Name(self, node):
                    if node.id in ren:
                        return ast.copy_location(ast.Name(id=ren[node.id], ctx=node.ctx), node)
                    return node
            target, elt, ifs = R().visit(copy.deepcopy(target)), R().visit(copy.deepcopy(elt)), [R().visit(copy.deepcopy(c)) for c in ifs]
            # the first iterable is evaluated outside the generator's scope: it keeps the enclosing names
        for n in ast.walk(target):
            if isinstance(n, ast.Name):
                n.ctx = ast.Store()
        body = make_hit(elt)
        for c in reversed(ifs):
            body = [ast.copy_location(ast.If(test=c, body=body, orelse=[]), at)]
        return ast.copy_location(ast.For(target=target, iter=g.iter, body=body, orelse=make_miss(default), lineno=at.lineno), at)

    def block(stmts):
        out = []
        for st in stmts:
            if isinstance(st, FDEFS + (ast.ClassDef,)):
                out.append(st)
                continue
            for field in ("body", "orelse", "finalbody"):
                sub = getattr(st, field, None)
                if isinstance(sub, list) and sub and isinstance(sub[0], ast.stmt):
                    setattr(st, field, block(sub))
            if isinstance(st, ast.Try):
                for hd in st.handlers:
                    hd.body = block(hd.body)
            if isinstance(st, ast.Assign) and len(st.targets) == 1 and isinstance(st.targets[0], ast.Name) and match(st.value):
                gen, default = match(st.value)
                t = st.targets[0].id
                if not any(isinstance(n, ast.Name) and n.id == t for n in ast.walk(gen)):
                    mk = lambda v, st=st, t=t: ast.copy_location(ast.Assign(targets=[ast.Name(id=t, ctx=ast.Store())], value=v, lineno=st.lineno), st)
                    out.append(loop_for(gen, default, lambda e: [mk(e), ast.copy_location(ast.Break(), st)], lambda d: [mk(d)], st))
                    changed[0] = True
                    continue
            if isinstance(st, ast.Return) and st.value is not None and match(st.value):
                gen, default = match(st.value)
                out.append(loop_for(gen, default, lambda e, st=st: [ast.copy_location(ast.Return(value=e), st)], lambda d: [], st))
                out.append(ast.copy_location(ast.Return(value=default), st))
                changed[0] = True
                continue
            out.append(st)
        return out

    fn.body = block(fn.body)
    return changed[0]


class _MapToGenerator(ast.NodeTransformer):
    """N22  map(f, it)  ->  (f(x) for x in it)   for f a plain name or attribute chain (one iterable, no keywords)"""

    def __init__(self):
        self.n = 0

    def visit_Call(self, node):
        self.generic_visit(node)
        if isinstance(node.func, ast.Name) and node.func.id == "map" and len(node.args) == 2 and not node.keywords and _plain_chain_or_name(node.args[0]) \
                and not isinstance(node.args[1], ast.Starred):
            self.n += 1
            var = f"x__m{self.n}"
            gen = ast.GeneratorExp(elt=ast.Call(func=node.args[0], args=[ast.Name(id=var, ctx=ast.Load())], keywords=[]),
                                   generators=[ast.comprehension(target=ast.Name(id=var, ctx=ast.Store()), iter=node.args[1], ifs=[], is_async=0)])
            return ast.copy_location(gen, node)
        return node


def _plain_chain_or_name(e) -> bool:
    return isinstance(e, ast.Name) or (isinstance(e, ast.Attribute) and _plain_chain_or_name(e.value))


def _merge_nested_ifs(stmts):
    """N23  if A: (if B: S)   ->   if A and B: S     (neither `if` has an else branch and the inner `if` is all the outer one holds)"""
    for st in stmts:
        for field in ("body", "orelse", "finalbody"):
            sub = getattr(st, field, None)
            if isinstance(sub, list) and sub and isinstance(sub[0], ast.stmt):
                _merge_nested_ifs(sub)
        if isinstance(st, ast.Try):
            for hd in st.handlers:
                _merge_nested_ifs(hd.body)
        while isinstance(st, ast.If) and not st.orelse and len(st.body) == 1 and isinstance(st.body[0], ast.If) and not st.body[0].orelse:
            inner = st.body[0]
            parts = (st.test.values if isinstance(st.test, ast.BoolOp) and isinstance(st.test.op, ast.And) else [st.test]) + \
                    (inner.test.values if isinstance(inner.test, ast.BoolOp) and isinstance(inner.test.op, ast.And) else [inner.test])
            st.test = ast.copy_location(ast.BoolOp(op=ast.And(), values=parts), st.test)
            st.body = inner.body


def _inline_private_literals(tree, counts, known: Set[str]):
    """N29  _NAME = <int | str literal> at module level, bound once, private (leading underscore, not part of the known interface) and
    never assigned inside a function: every read of _NAME in this module is replaced by the literal (constant propagation).  The
    definition stays."""
    lits: Dict[str, ast.Constant] = {}
    for st in tree.body:
        if isinstance(st, ast.Assign) and len(st.targets) == 1 and isinstance(st.targets[0], ast.Name) and counts.get(st.targets[0].id) == 1:
            n, v = st.targets[0].id, st.value
            neg = isinstance(v, ast.UnaryOp) and isinstance(v.op, ast.USub) and isinstance(v.operand, ast.Constant) and isinstance(v.operand.value, (int, float)) and not isinstance(v.operand.value, bool)
            if n.startswith("_") and not n.startswith("__") and n not in known and (neg or (isinstance(v, ast.Constant) and isinstance(v.value, (int, str, float)) and not isinstance(v.value, bool))):
                lits[n] = v
    if not lits:
        return
    # a name that is stored to, deleted, declared global or used as a parameter anywhere else is left alone
    for n in ast.walk(tree):
        if isinstance(n, ast.Name) and n.id in lits and not isinstance(n.ctx, ast.Load):
            owner_is_def = any(isinstance(st, ast.Assign) and st.targets[0] is n for st in tree.body if isinstance(st, ast.Assign) and len(st.targets) == 1)
            if not owner_is_def:
                lits.pop(n.id, None)
        elif isinstance(n, (ast.Global, ast.Nonlocal)):
            for x in n.names:
                lits.pop(x, None)
        elif isinstance(n, ast.arg) and n.arg in lits:
            lits.pop(n.arg, None)
        elif isinstance(n, (ast.Import, ast.ImportFrom)):
            for a in n.names:
                lits.pop(a.asname or a.name, None)
    if not lits:
        return

    class R(ast.NodeTransformer):
        def visit_Name(self, node):
            if isinstance(node.ctx, ast.Load) and node.id in lits:
                return ast.copy_location(copy.deepcopy(lits[node.id]), node)
            return node

    for k_, st in enumerate(tree.body):
        tree.body[k_] = R().visit(st)


def _split_conditional_tuple_assign(stmts):
    """N30  a, b = (X1, Y1) if c else (X2, Y2)   ->   if c: a = X1 ; b = Y1   else: a = X2 ; b = Y2
    (displays of the same length as the target on both arms; within an arm the split follows the rules of plain tuple assignment)"""
    out = []
    for st in stmts:
        for field in ("body", "orelse", "finalbody"):
            sub = getattr(st, field, None)
            if isinstance(sub, list) and sub and isinstance(sub[0], ast.stmt):
                setattr(st, field, _split_conditional_tuple_assign(sub))
        if isinstance(st, ast.Try):
            for hd in st.handlers:
                hd.body = _split_conditional_tuple_assign(hd.body)
        if isinstance(st, ast.Assign) and len(st.targets) == 1 and isinstance(st.targets[0], ast.Tuple) and isinstance(st.value, ast.IfExp) \
                and all(isinstance(a, ast.Tuple) and len(a.elts) == len(st.targets[0].elts) for a in (st.value.body, st.value.orelse)) \
                and not any(isinstance(x, ast.Starred) for x in st.targets[0].elts):
            mk = lambda arm: [ast.copy_location(ast.Assign(targets=[copy.deepcopy(st.targets[0])], value=arm, lineno=st.lineno), st)]
            out.append(ast.copy_location(ast.If(test=st.value.test, body=mk(st.value.body), orelse=mk(st.value.orelse)), st))
            continue
        # N31  x = A if c else x  ->  if c: x = A        x = x if c else A  ->  if not c: x = A     (the other arm assigns x to itself)
        if isinstance(st, ast.Assign) and len(st.targets) == 1 and isinstance(st.targets[0], ast.Name) and isinstance(st.value, ast.IfExp):
            x = st.targets[0].id
            keep_else = isinstance(st.value.orelse, ast.Name) and st.value.orelse.id == x
            keep_body = isinstance(st.value.body, ast.Name) and st.value.body.id == x
            if keep_else != keep_body:
                test = st.value.test if keep_else else _negate(st.value.test)
                arm = st.value.body if keep_else else st.value.orelse
                one = ast.copy_location(ast.Assign(targets=[st.targets[0]], value=arm, lineno=st.lineno), st)
                if getattr(st, "type_comment", None):
                    one.type_comment = st.type_comment
                out.append(ast.copy_location(ast.If(test=test, body=[one], orelse=[]), st))
                continue
        out.append(st)
    return out


def _augadd_display_to_append(fn):
    """N32  L += [e]  ->  L.append(e)     L += [e1, e2]  ->  L.append(e1) ; L.append(e2)
    for a local L that this function binds only to list displays, list comprehensions or list(...) (so it is a list)."""
    binds: Dict[str, List[ast.AST]] = {}
    for n in _walk_own(fn):
        if isinstance(n, ast.Assign):
            for t in n.targets:
                if isinstance(t, ast.Name):
                    binds.setdefault(t.id, []).append(n.value)
                else:
                    for x in ast.walk(t):
                        if isinstance(x, ast.Name) and isinstance(x.ctx, ast.Store):
                            binds.setdefault(x.id, []).append(None)
        elif isinstance(n, (ast.For, ast.comprehension)):
            for x in ast.walk(n.target):
                if isinstance(x, ast.Name):
                    binds.setdefault(x.id, []).append(None)
        elif isinstance(n, (ast.AnnAssign, ast.NamedExpr)) and isinstance(n.target, ast.Name):
            binds.setdefault(n.target.id, []).append(n.value)
        elif isinstance(n, ast.With):
            for it in n.items:
                if it.optional_vars is not None:
                    for x in ast.walk(it.optional_vars):
                        if isinstance(x, ast.Name):
                            binds.setdefault(x.id, []).append(None)
    params = {a.arg for a in ast.walk(fn.args) if isinstance(a, ast.arg)}

    def is_list(v):
        return isinstance(v, (ast.List, ast.ListComp)) or (isinstance(v, ast.Call) and isinstance(v.func, ast.Name) and v.func.id == "list")

    lists = {k for k, vs in binds.items() if k not in params and vs and all(v is not None and is_list(v) for v in vs)}

    def block(stmts):
        out = []
        for st in stmts:
            if isinstance(st, FDEFS + (ast.ClassDef,)):
                out.append(st)
                continue
            for field in ("body", "orelse", "finalbody"):
                sub = getattr(st, field, None)
                if isinstance(sub, list) and sub and isinstance(sub[0], ast.stmt):
                    setattr(st, field, block(sub))
            if isinstance(st, ast.Try):
                for hd in st.handlers:
                    hd.body = block(hd.body)
            # X.extend([e1, e2])  ->  X.append(e1) ; X.append(e2)    (X a name or plain attribute chain; only lists and deques have extend)
            if isinstance(st, ast.Expr) and isinstance(st.value, ast.Call) and isinstance(st.value.func, ast.Attribute) and st.value.func.attr == "extend" and not st.value.keywords \
                    and len(st.value.args) == 1 and isinstance(st.value.args[0], ast.List) and st.value.args[0].elts and not any(isinstance(e, ast.Starred) for e in st.value.args[0].elts) \
                    and _plain_chain_or_name(st.value.func.value):
                for e in st.value.args[0].elts:
                    call = ast.Call(func=ast.Attribute(value=copy.deepcopy(st.value.func.value), attr="append", ctx=ast.Load()), args=[e], keywords=[])
                    out.append(ast.copy_location(ast.Expr(value=call), st))
                continue
            if isinstance(st, ast.AugAssign) and isinstance(st.op, ast.Add) and isinstance(st.target, ast.Name) and st.target.id in lists and isinstance(st.value, ast.List) \
                    and st.value.elts and not any(isinstance(e, ast.Starred) for e in st.value.elts):
                for e in st.value.elts:
                    call = ast.Call(func=ast.Attribute(value=ast.Name(id=st.target.id, ctx=ast.Load()), attr="append", ctx=ast.Load()), args=[e], keywords=[])
                    out.append(ast.copy_location(ast.Expr(value=call), st))
                continue
            out.append(st)
        return out

    fn.body = block(fn.body)


def _inline_operator_getters(tree, counts):
    """N33  _g = attrgetter("a")  (module level, bound once)  and  _g(e)   ->   e.a          likewise itemgetter(k): e[k]
    (one constant argument, an attribute name without dots)."""
    getters: Dict[str, Tuple[str, object]] = {}
    for st in tree.body:
        if isinstance(st, ast.Assign) and len(st.targets) == 1 and isinstance(st.targets[0], ast.Name) and counts.get(st.targets[0].id) == 1 and isinstance(st.value, ast.Call) \
                and not st.value.keywords and len(st.value.args) == 1 and isinstance(st.value.args[0], ast.Constant):
            f = st.value.func
            fn = f.id if isinstance(f, ast.Name) else f.attr if isinstance(f, ast.Attribute) and isinstance(f.value, ast.Name) and f.value.id == "operator" else None
            v = st.value.args[0].value
            if fn == "attrgetter" and isinstance(v, str) and v.isidentifier():
                getters[st.targets[0].id] = ("attr", v)
            elif fn == "itemgetter" and isinstance(v, (int, str)) and not isinstance(v, bool):
                getters[st.targets[0].id] = ("item", v)
    if not getters:
        return
    for n in ast.walk(tree):
        if isinstance(n, ast.Name) and n.id in getters and isinstance(n.ctx, ast.Store):
            owner_is_def = any(isinstance(st, ast.Assign) and st.targets[0] is n for st in tree.body if isinstance(st, ast.Assign) and len(st.targets) == 1)
            if not owner_is_def:
                getters.pop(n.id, None)

    class R(ast.NodeTransformer):
        def visit_Call(self, node):
            self.generic_visit(node)
            if isinstance(node.func, ast.Name) and node.func.id in getters and len(node.args) == 1 and not node.keywords and not isinstance(node.args[0], ast.Starred):
                kind, v = getters[node.func.id]
                if kind == "attr":
                    return ast.copy_location(ast.Attribute(value=node.args[0], attr=v, ctx=ast.Load()), node)
                return ast.copy_location(ast.Subscript(value=node.args[0], slice=ast.Constant(value=v), ctx=ast.Load()), node)
            return node

    for k_, st in enumerate(tree.body):
        tree.body[k_] = R().visit(st)


# ---------------------------------------------------------------------------------------------------------------------
# N34 a private helper object that never leaves the function -> its fields as locals, its methods inlined

def _private_object_classes(tree: ast.Module, known: Set[str]) -> Dict[str, ast.ClassDef]:
    """module-level private classes that only bundle a few values with a few methods: no bases, no decorators, a body of plain
    methods / properties (and a docstring, `__slots__`); every field is an attribute assigned on `self`"""
    out = {}
    for st in tree.body:
        if not (isinstance(st, ast.ClassDef) and st.name.startswith("_") and not st.name.startswith("__") and st.name not in known):
            continue
        if st.keywords or st.decorator_list or any(not (isinstance(b, ast.Name) and b.id == "object") for b in st.bases):
            continue
        ok = True
        for b in _strip_doc(st.body):
            if isinstance(b, ast.FunctionDef):
                decs = [d.id if isinstance(d, ast.Name) else None for d in b.decorator_list]
                if decs not in ([], ["property"]) or not b.args.args or b.args.kwarg or b.args.posonlyargs:
                    ok = False
                if b.name.startswith("__") and b.name != "__init__":
                    ok = False
                if any(isinstance(n, (ast.Yield, ast.YieldFrom, ast.Global, ast.Nonlocal, ast.Lambda)) or isinstance(n, FDEFS) for n in _walk_own(b)):
                    ok = False
            elif isinstance(b, ast.Assign) and len(b.targets) == 1 and isinstance(b.targets[0], ast.Name) and b.targets[0].id == "__slots__":
                continue
            elif isinstance(b, ast.AnnAssign) and b.value is None:
                continue  # a bare field annotation
            elif not isinstance(b, ast.Pass):
                ok = False
        if ok:
            out[st.name] = st
    return out


def _objects_to_locals(module_name: str, tree: ast.Module, known: Set[str], multiply_defined: frozenset) -> None:
    """t = _X(a) ... t.note(v) ... t.release() ... t.count      (t bound once, used only as `t.<member>`, never handed on)
       ->  the statements of _X.__init__ / note / release with `self.f` read as the local t__f
    The methods are inlined by the helper inliner (as functions taking the object first); when anything of the object is left
    afterwards (a method that cannot be inlined, a member the class does not define) the function is kept as it was.  A class
    whose every use went this way is dropped like an inlined helper."""
    classes = _private_object_classes(tree, known)
    if not classes:
        return
    members: Dict[str, Dict[str, str]] = {}
    synth: List[ast.FunctionDef] = []
    for cname, c in classes.items():
        mem: Dict[str, str] = {}
        for b in c.body:
            if isinstance(b, ast.FunctionDef):
                mem[b.name] = "property" if b.decorator_list else "method"
        for b in c.body:
            if isinstance(b, ast.FunctionDef):
                me = b.args.args[0].arg
                for n in ast.walk(b):
                    if isinstance(n, ast.Attribute) and isinstance(n.value, ast.Name) and n.value.id == me and isinstance(n.ctx, ast.Store):
                        mem.setdefault(n.attr, "field")
        members[cname] = mem

    init_only: Dict[str, bool] = {}
    for cname, c in classes.items():
        ok_ = True
        for b in c.body:
            if isinstance(b, ast.FunctionDef) and b.name != "__init__":
                me = b.args.args[0].arg
                if any(isinstance(n, ast.Attribute) and isinstance(n.value, ast.Name) and n.value.id == me and isinstance(n.ctx, (ast.Store, ast.Del)) for n in ast.walk(b)):
                    ok_ = False
        init_only[cname] = ok_

    def fname(cname, m):
        return f"{cname}__{m.strip('_') if m == '__init__' else m}"

    def rewrite_uses(node, obj, cname):
        """obj.method(...) -> _X__method(obj, ...); obj.prop -> _X__prop(obj)"""
        mem = members[cname]

        class T(ast.NodeTransformer):
            def visit_Call(self, n):
                if isinstance(n.func, ast.Attribute) and isinstance(n.func.value, ast.Name) and n.func.value.id == obj and mem.get(n.func.attr) == "method":
                    n.args = [self.visit(a) for a in n.args]
                    n.keywords = [self.visit(k) for k in n.keywords]
                    return ast.copy_location(ast.Call(func=ast.Name(id=fname(cname, n.func.attr), ctx=ast.Load()), args=[ast.Name(id=obj, ctx=ast.Load())] + n.args, keywords=n.keywords), n)
                return self.generic_visit(n)

            def visit_Attribute(self, n):
                if isinstance(n.value, ast.Name) and n.value.id == obj and mem.get(n.attr) == "property" and isinstance(n.ctx, ast.Load):
                    return ast.copy_location(ast.Call(func=ast.Name(id=fname(cname, n.attr), ctx=ast.Load()), args=[ast.Name(id=obj, ctx=ast.Load())], keywords=[]), n)
                return self.generic_visit(n)

        return T().visit(node)

    for cname, c in classes.items():
        for b in c.body:
            if isinstance(b, ast.FunctionDef):
                f = copy.deepcopy(b)
                f.name = fname(cname, b.name)
                f.decorator_list = []
                f = rewrite_uses(f, f.args.args[0].arg, cname)
                synth.append(f)
    synth = _flatten_block(synth)
    holder = ast.Module(body=list(synth), type_ignores=[])
    inl = Inliner(module_name, holder, multiply_defined)
    if len(inl.helpers) != len(synth):
        # a method that calls itself (directly) is no helper: objects of its class are left alone
        alive = {h.fn.name for h in inl.helpers.values()}
        for cname in list(classes):
            if any(fname(cname, b.name) not in alive for b in classes[cname].body if isinstance(b, ast.FunctionDef)):
                del classes[cname]
        if not classes:
            return
    # helpers calling helpers: inline inside the synthetic functions first (expressions only; statement calls are followed at the use site)
    for f in synth:
        inl.inline_expressions(f, None)

    changed: List[str] = []

    def process(fn, enclosing_cls):
        binds: Dict[str, int] = {}
        for n in _walk_own(fn):
            if isinstance(n, ast.Name) and isinstance(n.ctx, (ast.Store, ast.Del)):
                binds[n.id] = binds.get(n.id, 0) + 1
        params = {a.arg for a in ast.walk(fn.args) if isinstance(a, ast.arg)}
        cands: Dict[str, str] = {}
        for n in _walk_own(fn):
            if isinstance(n, ast.Assign) and len(n.targets) == 1 and isinstance(n.targets[0], ast.Name) and isinstance(n.value, ast.Call) and isinstance(n.value.func, ast.Name) \
                    and n.value.func.id in classes and binds.get(n.targets[0].id) == 1 and n.targets[0].id not in params:
                cands[n.targets[0].id] = n.value.func.id
        if not cands:
            return
        parent = {}
        for n in ast.walk(fn):
            for ch in ast.iter_child_nodes(n):
                parent[id(ch)] = n
        own = {id(n) for n in _walk_own(fn)}
        for name, cname in list(cands.items()):
            for n in ast.walk(fn):
                if isinstance(n, ast.Name) and n.id == name:
                    p_ = parent.get(id(n))
                    if isinstance(n.ctx, ast.Store):
                        continue
                    if id(n) not in own:
                        # inside a closure: only a field read of an object whose fields are set by its constructor and by nothing else
                        # (the closure then reads what a local bound once right after the construction holds)
                        if init_only.get(cname) and isinstance(p_, ast.Attribute) and p_.value is n and isinstance(p_.ctx, ast.Load) and members[cname].get(p_.attr) == "field":
                            continue
                        cands.pop(name, None)
                        break
                    if not (isinstance(p_, ast.Attribute) and p_.value is n and p_.attr in members[cname]):
                        cands.pop(name, None)
                        break
                    kind = members[cname][p_.attr]
                    if kind == "method" and not (isinstance(parent.get(id(p_)), ast.Call) and parent[id(p_)].func is p_):
                        cands.pop(name, None)  # a bound method handed on
                        break
                    if kind == "property" and not isinstance(p_.ctx, ast.Load):
                        cands.pop(name, None)
                        break
        if not cands:
            return
        work = copy.deepcopy(fn)
        for name, cname in cands.items():
            work = rewrite_uses(work, name, cname)
            has_init = "__init__" in members[cname]
            for n in list(_walk_own(work)):
                if isinstance(n, ast.Assign) and len(n.targets) == 1 and isinstance(n.targets[0], ast.Name) and n.targets[0].id == name:
                    call = n.value
                    n.targets = [ast.Name(id="__nqsa_drop__", ctx=ast.Store())]
                    if has_init:
                        n.value = ast.copy_location(ast.Call(func=ast.Name(id=fname(cname, "__init__"), ctx=ast.Load()), args=[ast.Name(id=name, ctx=ast.Load())] + call.args, keywords=call.keywords), call)
                    else:
                        if call.args or call.keywords:
                            return
                        n.value = ast.copy_location(ast.Constant(value=None), call)

        def to_expr_stmts(stmts):
            out = []
            for st in stmts:
                for field in ("body", "orelse", "finalbody"):
                    sub = getattr(st, field, None)
                    if isinstance(sub, list) and sub and isinstance(sub[0], ast.stmt) and not isinstance(st, FDEFS + (ast.ClassDef,)):
                        setattr(st, field, to_expr_stmts(sub))
                if isinstance(st, ast.Try):
                    for hd in st.handlers:
                        hd.body = to_expr_stmts(hd.body)
                if isinstance(st, ast.Assign) and len(st.targets) == 1 and isinstance(st.targets[0], ast.Name) and st.targets[0].id == "__nqsa_drop__":
                    if isinstance(st.value, ast.Call):
                        out.append(ast.copy_location(ast.Expr(value=st.value), st))
                    continue
                out.append(st)
            return out

        work.body = to_expr_stmts(work.body)
        inl.inline_expressions(work, None)
        for _ in range(3):
            work.body = inl.inline_statements(work.body, None)
        # everything left of the objects must be plain field accesses; no synthetic function may still be called
        synth_names = {f.name for f in synth}
        wparent = {}
        for n in ast.walk(work):
            for ch in ast.iter_child_nodes(n):
                wparent[id(ch)] = n
        for n in ast.walk(work):
            if isinstance(n, ast.Name) and n.id in synth_names:
                return
            if isinstance(n, ast.Name) and n.id in cands:
                p_ = wparent.get(id(n))
                if not (isinstance(p_, ast.Attribute) and p_.value is n and members[cands[n.id]].get(p_.attr) == "field"):
                    return

        class F(ast.NodeTransformer):
            def visit_Attribute(self, n):
                if isinstance(n.value, ast.Name) and n.value.id in cands:
                    return ast.copy_location(ast.Name(id=f"{n.value.id}__{n.attr.lstrip('_')}", ctx=n.ctx), n)
                return self.generic_visit(n)

        work = F().visit(work)
        # a field that only ever names a value the function already has a stable name for reads as that name
        stable = _stable_names(work)
        fold: Dict[str, str] = {}
        for n in _walk_own(work):
            if isinstance(n, ast.Assign) and len(n.targets) == 1 and isinstance(n.targets[0], ast.Name) and isinstance(n.value, ast.Name) \
                    and any(n.targets[0].id.startswith(f"{c_}__") for c_ in cands) and n.targets[0].id in stable and n.value.id in stable:
                fold[n.targets[0].id] = n.value.id
        if fold:
            for n in ast.walk(work):
                if isinstance(n, ast.Name) and n.id in fold:
                    n.id = fold[n.id]

            def drop(stmts):
                out = []
                for st in stmts:
                    for field in ("body", "orelse", "finalbody"):
                        sub = getattr(st, field, None)
                        if isinstance(sub, list) and sub and isinstance(sub[0], ast.stmt) and not isinstance(st, FDEFS + (ast.ClassDef,)):
                            setattr(st, field, drop(sub) or ([ast.copy_location(ast.Pass(), st)] if field == "body" else []))
                    if isinstance(st, ast.Assign) and len(st.targets) == 1 and isinstance(st.targets[0], ast.Name) and isinstance(st.value, ast.Name) and st.value.id == st.targets[0].id:
                        continue
                    out.append(st)
                return out
            work.body = drop(work.body) or [ast.Pass()]
        fn.body = work.body
        changed.append(fn.name)

    for st in tree.body:
        if isinstance(st, FDEFS):
            process(st, None)
            for n in ast.walk(st):
                if n is not st and isinstance(n, FDEFS):
                    process(n, None)
        elif isinstance(st, ast.ClassDef) and st.name not in classes:
            for f in ast.walk(st):
                if isinstance(f, FDEFS):
                    process(f, st.name)
    tree._nqsa_objects_inlined = bool(changed)
    # a class nothing mentions any more is dead code
    for cname, c in classes.items():
        if cname in multiply_defined:
            continue
        mentioned = False
        inside = {id(x) for x in ast.walk(c)}
        for n in ast.walk(tree):
            if id(n) in inside:
                continue
            if (isinstance(n, ast.Name) and n.id == cname) or (isinstance(n, ast.Attribute) and n.attr == cname) or (isinstance(n, ast.Constant) and isinstance(n.value, str) and cname in n.value):
                mentioned = True
                break
        if not mentioned and c in tree.body:
            tree.body.remove(c)


def _local_annotations_to_assignments(tree):
    """x: T = v  ->  x = v   for plain local names inside functions (the annotation is kept as the assignment's type comment, where
    the truthiness typing still reads it).  Class-level fields and attributes keep their annotated form."""
    for fn in ast.walk(tree):
        if not isinstance(fn, FDEFS):
            continue

        def scan(stmts):
            for k, st in enumerate(stmts):
                for field in ("body", "orelse", "finalbody"):
                    sub = getattr(st, field, None)
                    if isinstance(sub, list) and sub and isinstance(sub[0], ast.stmt) and not isinstance(st, FDEFS + (ast.ClassDef,)):
                        scan(sub)
                if isinstance(st, ast.Try):
                    for hd in st.handlers:
                        scan(hd.body)
                if isinstance(st, ast.AnnAssign) and isinstance(st.target, ast.Name) and st.value is not None and st.simple:
                    stmts[k] = ast.copy_location(ast.Assign(targets=[st.target], value=st.value, type_comment=ast.unparse(st.annotation), lineno=st.lineno), st)
        scan(fn.body)


def _drop_inlined_helpers(tree, inl, shared: frozenset):
    """a private helper that is mentioned nowhere any more (every call was inlined, no other file mentions the name) is dead code:
    its definition is removed, so that no rule judges half of a split function on its own"""
    if not inl.helpers:
        return
    changed = True
    while changed:
        changed = False
        for (owner, name), h in list(inl.helpers.items()):
            if name in shared or name not in getattr(inl, "mentioned", {name}):
                continue
            mentioned = False
            for n in ast.walk(tree):
                if n is h.fn:
                    continue
                if (isinstance(n, ast.Name) and n.id == name) or (isinstance(n, ast.Attribute) and n.attr == name) or (isinstance(n, ast.Constant) and n.value == name):
                    # mentions inside the helper's own body do not count
                    if not any(x is n for x in ast.walk(h.fn)):
                        mentioned = True
                        break
            if mentioned:
                continue
            holder = tree.body if owner is None else next((c.body for c in tree.body if isinstance(c, ast.ClassDef) and c.name == owner), None)
            if holder is not None and h.fn in holder:
                holder.remove(h.fn)
                if not holder:
                    holder.append(ast.Pass())
                del inl.helpers[(owner, name)]
                changed = True


class _OperatorCalls(ast.NodeTransformer):
    """N40  operator.eq(a, b) -> a == b, and so for ne lt le gt ge is_ is_not add sub mul floordiv mod and_ or_ xor not_ neg contains
    getitem: the function of the standard `operator` module IS the operator (same dunder protocol, operands evaluated in the same
    order).  Only where the module imports `operator` and never rebinds the name."""
    CMP = {"eq": ast.Eq, "ne": ast.NotEq, "lt": ast.Lt, "le": ast.LtE, "gt": ast.Gt, "ge": ast.GtE, "is_": ast.Is, "is_not": ast.IsNot}
    BIN = {"add": ast.Add, "sub": ast.Sub, "mul": ast.Mult, "floordiv": ast.FloorDiv, "mod": ast.Mod, "and_": ast.BitAnd, "or_": ast.BitOr, "xor": ast.BitXor,
           "lshift": ast.LShift, "rshift": ast.RShift, "truediv": ast.Div, "pow": ast.Pow}

    def visit_Call(self, node):
        self.generic_visit(node)
        f = node.func
        if not (isinstance(f, ast.Attribute) and isinstance(f.value, ast.Name) and f.value.id == "operator") or node.keywords or any(isinstance(a, ast.Starred) for a in node.args):
            return node
        a = node.args
        new = None
        if f.attr in self.CMP and len(a) == 2:
            new = ast.Compare(left=a[0], ops=[self.CMP[f.attr]()], comparators=[a[1]])
        elif f.attr in self.BIN and len(a) == 2:
            new = ast.BinOp(left=a[0], op=self.BIN[f.attr](), right=a[1])
        elif f.attr == "not_" and len(a) == 1:
            new = ast.UnaryOp(op=ast.Not(), operand=a[0])
        elif f.attr == "neg" and len(a) == 1:
            new = ast.UnaryOp(op=ast.USub(), operand=a[0])
        elif f.attr == "contains" and len(a) == 2:
            new = ast.Compare(left=a[1], ops=[ast.In()], comparators=[a[0]]) if _simple_arg(a[0]) or _simple_arg(a[1]) else None
        elif f.attr == "getitem" and len(a) == 2:
            new = ast.Subscript(value=a[0], slice=a[1], ctx=ast.Load())
        if new is None:
            return node
        return ast.fix_missing_locations(ast.copy_location(new, node))


def _imports_operator(tree) -> bool:
    imp = any(isinstance(st, ast.Import) and any(al.name == "operator" and al.asname is None for al in st.names) for st in tree.body)
    rebound = any(isinstance(n, ast.Name) and n.id == "operator" and isinstance(n.ctx, (ast.Store, ast.Del)) for n in ast.walk(tree)) \
        or any(isinstance(n, ast.arg) and n.arg == "operator" for n in ast.walk(tree))
    return imp and not rebound


class _MembershipInModuleTuple(ast.NodeTransformer):
    """x in _NAMES  ->  x in (A, B)   where _NAMES is bound once at module level to a tuple / list display of names"""

    def __init__(self, module_tuples):
        self.mt = module_tuples

    def visit_Compare(self, node):
        self.generic_visit(node)
        if len(node.ops) == 1 and isinstance(node.ops[0], (ast.In, ast.NotIn)) and isinstance(node.comparators[0], ast.Name) and node.comparators[0].id in self.mt:
            node.comparators[0] = copy.deepcopy(self.mt[node.comparators[0].id])
        return node


_PURE_SEQ_READERS = ("zip", "len", "list", "tuple", "enumerate", "sorted", "reversed", "iter", "any", "all", "sum", "min", "max", "set", "frozenset")


def _stable_names(fn) -> Set[str]:
    """parameters that are never rebound and locals bound exactly once (plain `name = ...` / tuple targets count as one binding each)"""
    stores: Dict[str, int] = {}
    for n in ast.walk(fn):
        if isinstance(n, ast.Name) and isinstance(n.ctx, (ast.Store, ast.Del)):
            stores[n.id] = stores.get(n.id, 0) + 1
    params = {a.arg for a in ast.walk(fn.args) if isinstance(a, ast.arg)}
    return {p_ for p_ in params if stores.get(p_, 0) == 0} | {k_ for k_, v_ in stores.items() if v_ == 1 and k_ not in params}


def _append_only_lists(fn, top: List[ast.stmt]) -> Dict[str, List[Tuple[int, ast.AST]]]:
    """local lists bound once to `[]` at the top level of the function and changed by nothing but top-level `L.append(<expr>)` statements:
    L -> [(index of the top-level statement, appended expression)].  Any other way the list could change (another method called on it,
    an item / slice store, `+=`, `del`, the list itself handed to a call that is not a pure reader, an alias, a closure) disqualifies."""
    cands: Dict[str, int] = {}
    for k, st in enumerate(top):
        if isinstance(st, ast.Assign) and len(st.targets) == 1 and isinstance(st.targets[0], ast.Name) and isinstance(st.value, ast.List) and not st.value.elts:
            cands[st.targets[0].id] = k
    if not cands:
        return {}
    stores: Dict[str, int] = {}
    for n in ast.walk(fn):
        if isinstance(n, ast.Name) and isinstance(n.ctx, (ast.Store, ast.Del)):
            stores[n.id] = stores.get(n.id, 0) + 1
    params = {a.arg for a in ast.walk(fn.args) if isinstance(a, ast.arg)}
    cands = {n_: k_ for n_, k_ in cands.items() if stores.get(n_) == 1 and n_ not in params}
    own = {id(n) for n in _walk_own(fn)}
    parent = {}
    for n in ast.walk(fn):
        for ch in ast.iter_child_nodes(n):
            parent[id(ch)] = n
    appends: Dict[str, List[Tuple[int, ast.AST]]] = {n_: [] for n_ in cands}
    top_append = {}
    for k, st in enumerate(top):
        if isinstance(st, ast.Expr) and isinstance(st.value, ast.Call) and isinstance(st.value.func, ast.Attribute) and st.value.func.attr == "append" \
                and isinstance(st.value.func.value, ast.Name) and st.value.func.value.id in cands and len(st.value.args) == 1 and not st.value.keywords:
            top_append[id(st.value.func.value)] = (k, st.value.args[0])
    for n in ast.walk(fn):
        if not (isinstance(n, ast.Name) and n.id in cands and isinstance(n.ctx, ast.Load)):
            continue
        if id(n) not in own:
            cands.pop(n.id, None)
            continue
        if id(n) in top_append:
            appends[n.id].append(top_append[id(n)])
            continue
        p_ = parent.get(id(n))
        ok = False
        if isinstance(p_, ast.Subscript) and p_.value is n and isinstance(p_.ctx, ast.Load):
            ok = True
        elif isinstance(p_, ast.Starred) and isinstance(p_.ctx, ast.Load) and isinstance(parent.get(id(p_)), (ast.List, ast.Tuple, ast.Set)):
            ok = True   # [*L, x]
        elif isinstance(p_, ast.Call) and n in p_.args and isinstance(p_.func, ast.Name) and p_.func.id in _PURE_SEQ_READERS:
            ok = True
        elif isinstance(p_, (ast.For, ast.comprehension)) and p_.iter is n:
            ok = True
        elif isinstance(p_, ast.Compare):
            ok = True
        if not ok:
            cands.pop(n.id, None)
    return {n_: sorted(v_, key=lambda t_: t_[0]) for n_, v_ in appends.items() if n_ in cands}


def _forward_list_items(fn) -> None:
    """L = [] ; L.append(a) ; L.append(b) ; ... L[0] ... L[1]   ->   ... a ... b     (constant index, read after the append that put
    the item there; L an append-only local list as above; a, b names that are bound once - so they still mean what was appended)"""
    top = fn.body
    lists = _append_only_lists(fn, top)
    if not lists:
        return
    stable = _stable_names(fn)

    class T(ast.NodeTransformer):
        def __init__(self, upto):
            self.upto = upto

        def visit_Subscript(self, n):
            self.generic_visit(n)
            if isinstance(n.value, ast.Name) and n.value.id in lists and isinstance(n.ctx, ast.Load) and isinstance(n.slice, ast.Constant) and isinstance(n.slice.value, int) \
                    and not isinstance(n.slice.value, bool):
                before = [e_ for k_, e_ in lists[n.value.id] if k_ < self.upto]
                if 0 <= n.slice.value < len(before) and isinstance(before[n.slice.value], ast.Name) and before[n.slice.value].id in stable:
                    return ast.copy_location(ast.Name(id=before[n.slice.value].id, ctx=ast.Load()), n)
            return n

        def visit_FunctionDef(self, n):
            return n

        visit_AsyncFunctionDef = visit_Lambda = visit_FunctionDef

    for k, st in enumerate(top):
        if isinstance(st, (ast.For, ast.While, ast.AsyncFor)):
            continue  # (a statement that runs repeatedly is left alone; the appends are all at the top level anyway)
        top[k] = T(k).visit(st)
    # x = x left behind by forwarding
    fn.body = [st for st in top if not (isinstance(st, ast.Assign) and len(st.targets) == 1 and isinstance(st.targets[0], ast.Name) and isinstance(st.value, ast.Name) and st.value.id == st.targets[0].id)]


def _read_before_rebound(later: List[ast.stmt], name: str) -> bool:
    """is the value `name` has now read by the statements that follow (in the same block)?  False when the first statement that mentions
    it binds it anew without reading it (a plain assignment, the target of a loop)"""
    for st in later:
        if not any(isinstance(n, ast.Name) and n.id == name for n in ast.walk(st)):
            continue
        if isinstance(st, ast.Assign) and not any(isinstance(n, ast.Name) and n.id == name for n in ast.walk(st.value)) \
                and all(isinstance(t_, ast.Name) or (isinstance(t_, ast.Tuple) and all(isinstance(x_, ast.Name) for x_ in t_.elts)) for t_ in st.targets):
            return False
        if isinstance(st, ast.For) and not any(isinstance(n, ast.Name) and n.id == name for n in ast.walk(st.iter)) \
                and any(isinstance(n, ast.Name) and n.id == name for n in ast.walk(st.target)) and (isinstance(st.target, ast.Name) or (isinstance(st.target, ast.Tuple) and all(isinstance(x_, ast.Name) for x_ in st.target.elts))):
            # (an empty iterable would leave the old value in place for what follows the loop: only when nothing after the loop reads it either)
            rest = later[later.index(st) + 1:]
            return any(isinstance(n, ast.Name) and n.id == name for s_ in rest for n in ast.walk(s_))
        return True
    return False


def _unroll_literal_loops(fn, module_tables=None):
    """for v in (a, b, c): BODY   ->   v__u1 = a; BODY[v := v__u1]; v__u2 = b; BODY[v := v__u2]; ...
    for a display of at most 6 names / attribute chains / constants, a body of at most 6 statements without break / continue / nested
    definitions that does not rebind any name of the display, and a loop variable that is not read after the loop."""
    counter = [0]
    params = {a.arg for a in ast.walk(fn.args) if isinstance(a, ast.arg)}
    # locals bound once to a tuple display of stable names / constants (a tuple cannot change; its elements keep their meaning)
    stable = _stable_names(fn)
    local_displays: Dict[str, ast.Tuple] = {}
    for n in _walk_own(fn):
        if isinstance(n, ast.Assign) and len(n.targets) == 1 and isinstance(n.targets[0], ast.Name) and n.targets[0].id in stable and n.targets[0].id not in params \
                and isinstance(n.value, ast.Tuple) and 1 <= len(n.value.elts) <= 6 and all(isinstance(e, ast.Constant) or (isinstance(e, ast.Name) and e.id in stable) for e in n.value.elts):
            local_displays[n.targets[0].id] = n.value

    def scan(stmts, top_level=False):
        out: List[ast.stmt] = []
        for k, st in enumerate(stmts):
            for field in ("body", "orelse", "finalbody"):
                sub = getattr(st, field, None)
                if isinstance(sub, list) and sub and isinstance(sub[0], ast.stmt) and not isinstance(st, FDEFS + (ast.ClassDef,)):
                    setattr(st, field, scan(sub))
            if isinstance(st, ast.Try):
                for hd in st.handlers:
                    hd.body = scan(hd.body)
            # for a, b in _TABLE   (a module-level constant bound once to a display of tuples of names / constants):
            # each row is unpacked into the targets by plain assignments, the body follows
            if isinstance(st, ast.For) and not st.orelse and isinstance(st.iter, ast.Name) and module_tables and st.iter.id in module_tables and isinstance(st.target, ast.Tuple) \
                    and all(isinstance(t_, ast.Name) for t_ in st.target.elts) and len(st.body) <= 6 and not any(t_.id in params for t_ in st.target.elts):
                rows = module_tables[st.iter.id].elts
                tnames = [t_.id for t_ in st.target.elts]
                later = stmts[k + 1:]
                body_nodes = list(ast.walk(ast.Module(body=st.body, type_ignores=[])))
                bad = any(isinstance(n, (ast.Break, ast.Continue, ast.Lambda, ast.Yield, ast.YieldFrom, ast.Await, ast.Global, ast.Nonlocal, ast.ListComp, ast.SetComp, ast.DictComp, ast.GeneratorExp))
                          or isinstance(n, FDEFS + (ast.ClassDef,)) for n in body_nodes)
                bad = bad or any(isinstance(n, ast.Name) and n.id in tnames for s_ in later for n in ast.walk(s_))
                bad = bad or any(isinstance(n, ast.Name) and isinstance(n.ctx, (ast.Store, ast.Del)) and n.id == st.iter.id for n in body_nodes)
                if not bad and 1 <= len(rows) <= 6 and all(isinstance(r_, ast.Tuple) and len(r_.elts) == len(tnames) for r_ in rows):
                    for r_ in rows:
                        counter[0] += 1
                        ren = {t_: f"{t_}__u{counter[0]}" for t_ in tnames}
                        for t_, e_ in zip(tnames, r_.elts):
                            out.append(ast.copy_location(ast.Assign(targets=[ast.Name(id=ren[t_], ctx=ast.Store())], value=copy.deepcopy(e_), lineno=st.lineno), st))

                        class R2(ast.NodeTransformer):
                            def visit_Name(self, n, ren=ren):
                                if n.id in ren:
                                    return ast.copy_location(ast.Name(id=ren[n.id], ctx=n.ctx), n)
                                return n
                        out.extend(R2().visit(copy.deepcopy(b)) for b in st.body)
                    continue
            # a loop over a local that names a display of stable names reads the display (`ops = (a, b)` ... `for x in ops` / `zip(ops, L)`)
            if isinstance(st, ast.For) and not st.orelse:
                if isinstance(st.iter, ast.Name) and st.iter.id in local_displays:
                    st.iter = copy.deepcopy(local_displays[st.iter.id])
                elif isinstance(st.iter, ast.Call) and isinstance(st.iter.func, ast.Name) and st.iter.func.id == "zip" and not st.iter.keywords:
                    st.iter.args = [copy.deepcopy(local_displays[a_.id]) if isinstance(a_, ast.Name) and a_.id in local_displays else a_ for a_ in st.iter.args]
            # for a, b in zip((p, q), L)   with L an append-only local list that holds at least as many items as the display when the loop
            # is reached (both at the top level of the function)  ->  for (a, b) in ((p, L[0]), (q, L[1]))
            if top_level and isinstance(st, ast.For) and not st.orelse and isinstance(st.iter, ast.Call) and isinstance(st.iter.func, ast.Name) and st.iter.func.id == "zip" \
                    and len(st.iter.args) == 2 and not st.iter.keywords and isinstance(st.target, ast.Tuple) and len(st.target.elts) == 2:
                d_, l_ = st.iter.args
                if isinstance(d_, (ast.Tuple, ast.List)) and isinstance(l_, ast.Name) and all(isinstance(e, ast.Constant) or _plain_chain(e) for e in d_.elts):
                    saved = fn.body
                    fn.body = out + list(stmts[k:])
                    try:
                        facts = _append_only_lists(fn, fn.body)
                    finally:
                        fn.body = saved
                    have = [e_ for k_, e_ in facts.get(l_.id, []) if k_ < len(out)]
                    if l_.id in facts and len(have) >= len(d_.elts) and len(have) == len(facts[l_.id]):
                        st.iter = ast.copy_location(ast.Tuple(elts=[ast.Tuple(elts=[copy.deepcopy(e_), ast.Subscript(value=ast.Name(id=l_.id, ctx=ast.Load()), slice=ast.Constant(value=i_), ctx=ast.Load())], ctx=ast.Load())
                                                                   for i_, e_ in enumerate(d_.elts)], ctx=ast.Load()), st.iter)
            if isinstance(st, ast.For) and not st.orelse and isinstance(st.iter, (ast.Tuple, ast.List)) and 1 <= len(st.iter.elts) <= 6 and len(st.body) <= 6 \
                    and (isinstance(st.target, ast.Name) and all(isinstance(e, ast.Constant) or _plain_chain(e) for e in st.iter.elts)
                         or isinstance(st.target, ast.Tuple) and all(isinstance(t_, ast.Name) for t_ in st.target.elts)
                         and all(isinstance(e, ast.Tuple) and len(e.elts) == len(st.target.elts) and all(isinstance(x_, ast.Constant) or _plain_chain(x_) for x_ in e.elts) for e in st.iter.elts)):
                tnames = [st.target.id] if isinstance(st.target, ast.Name) else [t_.id for t_ in st.target.elts]
                rows = [[e] if isinstance(st.target, ast.Name) else list(e.elts) for e in st.iter.elts]
                names_in_display = {n.id for e in st.iter.elts for n in ast.walk(e) if isinstance(n, ast.Name)}
                bad = bool(set(tnames) & params) or len(set(tnames)) != len(tnames)
                for n in ast.walk(ast.Module(body=st.body, type_ignores=[])):
                    if isinstance(n, (ast.Break, ast.Continue, ast.Lambda, ast.Yield, ast.YieldFrom, ast.Await, ast.Global, ast.Nonlocal)) or isinstance(n, FDEFS + (ast.ClassDef,)):
                        bad = True
                    if isinstance(n, ast.Name) and isinstance(n.ctx, (ast.Store, ast.Del)) and n.id in names_in_display and n.id not in tnames:
                        bad = True
                    if isinstance(n, (ast.ListComp, ast.SetComp, ast.DictComp, ast.GeneratorExp)) and any(isinstance(x, ast.Name) and x.id in tnames for x in ast.walk(n)):
                        bad = True
                if set(tnames) & names_in_display:
                    bad = True
                later = stmts[k + 1:]
                if any(_read_before_rebound(later, t_) for t_ in tnames):
                    bad = True
                if not bad:
                    # names the body binds afresh in every round (a plain assignment at the top of the body before any read of the name)
                    # get a name of their own per round, except in the last round (whose values are what the code after the loop reads)
                    fresh: List[str] = []
                    seen_read: Set[str] = set()
                    for b_ in st.body:
                        tg = []
                        if isinstance(b_, ast.Assign) and all(isinstance(t_, ast.Name) or (isinstance(t_, ast.Tuple) and all(isinstance(x_, ast.Name) for x_ in t_.elts)) for t_ in b_.targets):
                            for t_ in b_.targets:
                                tg.extend([t_.id] if isinstance(t_, ast.Name) else [x_.id for x_ in t_.elts])
                            reads = {n.id for n in ast.walk(b_.value) if isinstance(n, ast.Name)}
                        else:
                            reads = {n.id for n in ast.walk(b_) if isinstance(n, ast.Name)}
                        seen_read |= reads
                        for t_ in tg:
                            if t_ not in seen_read and t_ not in fresh and t_ not in params and t_ not in tnames and t_ not in names_in_display:
                                fresh.append(t_)
                        seen_read |= set(tg)
                    for r_i, row in enumerate(rows):
                        counter[0] += 1
                        ren = {t_: f"{t_}__u{counter[0]}" for t_ in tnames}
                        if r_i < len(rows) - 1:
                            ren.update({f_: f"{f_}__u{counter[0]}" for f_ in fresh})
                        for t_, e in zip(tnames, row):
                            out.append(ast.copy_location(ast.Assign(targets=[ast.Name(id=ren[t_], ctx=ast.Store())], value=copy.deepcopy(e), lineno=st.lineno), st))

                        class R(ast.NodeTransformer):
                            def visit_Name(self, n, ren=ren):
                                if n.id in ren:
                                    return ast.copy_location(ast.Name(id=ren[n.id], ctx=n.ctx), n)
                                return n
                        out.extend(R().visit(copy.deepcopy(b)) for b in st.body)
                    continue
            out.append(st)
        return out

    fn.body = scan(fn.body, top_level=True)
    _forward_list_items(fn)


class _BoolOfCompare(ast.NodeTransformer):
    """bool(a == b) -> a == b   (a comparison / `not` / isinstance already yields a truth value in the analysed code)"""

    def visit_Call(self, node):
        self.generic_visit(node)
        if isinstance(node.func, ast.Name) and node.func.id == "bool" and len(node.args) == 1 and not node.keywords:
            a = node.args[0]
            if isinstance(a, ast.Compare) or (isinstance(a, ast.UnaryOp) and isinstance(a.op, ast.Not)) or (isinstance(a, ast.Call) and isinstance(a.func, ast.Name) and a.func.id == "isinstance"):
                return a
        return node


def _inline_local_closures(fn):
    """def f(p): return E   (inside a function body) ... f(A) ...   ->   ... E[p := A] ...   when f is only ever called (never passed on),
    by positional arguments, in the statements that follow its definition in the same block, none of which rebinds a name E reads;
    arguments that are used more than once must be names or constants"""
    def scan(stmts):
        out: List[ast.stmt] = []
        i = 0
        while i < len(stmts):
            st = stmts[i]
            for field in ("body", "orelse", "finalbody"):
                sub = getattr(st, field, None)
                if isinstance(sub, list) and sub and isinstance(sub[0], ast.stmt) and not isinstance(st, FDEFS + (ast.ClassDef,)):
                    setattr(st, field, scan(sub))
            if isinstance(st, ast.Try):
                for hd in st.handlers:
                    hd.body = scan(hd.body)
            if isinstance(st, ast.FunctionDef) and not st.decorator_list and not st.args.defaults and not st.args.vararg and not st.args.kwarg and not st.args.kwonlyargs \
                    and len(_strip_doc(st.body)) == 1 and isinstance(_strip_doc(st.body)[0], ast.Return) and _strip_doc(st.body)[0].value is not None:
                name, params = st.name, [a.arg for a in st.args.args]
                expr = _strip_doc(st.body)[0].value
                rest = stmts[i + 1:]
                free = {n.id for n in ast.walk(expr) if isinstance(n, ast.Name) and n.id not in params}
                ok = not any(isinstance(n, (ast.Lambda, ast.Yield, ast.YieldFrom, ast.Await, ast.NamedExpr)) for n in ast.walk(expr))
                calls, other = [], 0
                for r in rest:
                    for n in ast.walk(r):
                        if isinstance(n, ast.Call) and isinstance(n.func, ast.Name) and n.func.id == name:
                            calls.append(n)
                        if isinstance(n, ast.Name) and n.id == name:
                            other += 1
                        if isinstance(n, ast.Name) and isinstance(n.ctx, (ast.Store, ast.Del)) and (n.id in free or n.id == name):
                            ok = False
                        if isinstance(n, FDEFS + (ast.Lambda,)) and any(isinstance(x, ast.Name) and x.id == name for x in ast.walk(n)):
                            ok = False
                if other != len(calls) or not calls:
                    ok = False
                uses = {p_: sum(1 for n in ast.walk(expr) if isinstance(n, ast.Name) and n.id == p_) for p_ in params}
                for c in calls:
                    if c.keywords or len(c.args) != len(params) or any(isinstance(a, ast.Starred) for a in c.args):
                        ok = False
                    elif any(uses[p_] > 1 and not isinstance(a, (ast.Name, ast.Constant)) for p_, a in zip(params, c.args)):
                        ok = False
                if ok:
                    ids = {id(c) for c in calls}

                    class R(ast.NodeTransformer):
                        def visit_Call(self, node):
                            self.generic_visit(node)
                            if id(node) in ids:
                                return ast.copy_location(_Subst(dict(zip(params, node.args))).visit(copy.deepcopy(expr)), node)
                            return node
                    stmts[i + 1:] = [R().visit(r) for r in rest]
                    i += 1
                    continue
            out.append(st)
            i += 1
        return out

    fn.body = scan(fn.body)


def normalise_module(module_name: str, tree: ast.Module, multiply_defined: frozenset = frozenset()) -> ast.Module:
    mt: Dict[str, ast.Tuple] = {}
    counts: Dict[str, int] = {}
    # module-level `NAME: T = value` reads like `NAME = value` for everything below (the annotation of a module constant is not used)
    for k_, st in enumerate(tree.body):
        if isinstance(st, ast.AnnAssign) and isinstance(st.target, ast.Name) and st.value is not None and st.simple:
            tree.body[k_] = ast.copy_location(ast.Assign(targets=[st.target], value=st.value, type_comment=ast.unparse(st.annotation), lineno=st.lineno), st)
    for st in tree.body:
        if isinstance(st, ast.Assign) and len(st.targets) == 1 and isinstance(st.targets[0], ast.Name):
            counts[st.targets[0].id] = counts.get(st.targets[0].id, 0) + 1
            if isinstance(st.value, ast.Tuple) and st.value.elts and all(isinstance(e, (ast.Name, ast.Attribute)) for e in st.value.elts):
                mt[st.targets[0].id] = st.value
    mt = {k: v for k, v in mt.items() if counts.get(k) == 1}
    _fold_module_constants(tree, counts)
    module_consts_early = {st.targets[0].id: st.value for st in tree.body
                           if isinstance(st, ast.Assign) and len(st.targets) == 1 and isinstance(st.targets[0], ast.Name) and counts.get(st.targets[0].id) == 1
                           and isinstance(st.value, (ast.Tuple, ast.List)) and st.value.elts and all(isinstance(e, ast.Constant) for e in st.value.elts)}
    _hoist_named_expressions(tree)
    tree = _MapToGenerator().visit(tree)
    _inline_operator_getters(tree, counts)
    if known_names():
        _inline_private_literals(tree, counts, set(known_names().get(module_name, [])))
    tree.body = _split_conditional_tuple_assign(tree.body)
    _local_annotations_to_assignments(tree)
    tree = _BoolOfCompare().visit(tree)
    searched = False
    for n in ast.walk(tree):
        if isinstance(n, FDEFS):
            _inline_local_closures(n)
            searched = _next_search_to_loop(n) or searched
    if searched:
        tree.body = _merge_search_result(tree.body)
    if _imports_operator(tree):
        tree = _OperatorCalls().visit(tree)
    tree = _Isinstance(mt).visit(tree)
    if mt:
        tree = _MembershipInModuleTuple(mt).visit(tree)
    _swap_negative_ifs(tree)
    if known_names():
        _objects_to_locals(module_name, tree, set(known_names().get(module_name, [])), multiply_defined)
    inl = Inliner(module_name, tree, multiply_defined)
    had_helpers = bool(inl.helpers) or bool(getattr(tree, "_nqsa_objects_inlined", False))
    if inl.helpers:
        tree.body = _comprehension_to_loop(tree.body, inl, None)
        # flatten helper bodies first so that their guard clauses are in canonical form
        tree.body = _flatten_block(tree.body)
        for st in ast.walk(tree):
            if isinstance(st, ast.ClassDef):
                for f in st.body:
                    if isinstance(f, FDEFS):
                        inl.inline_expressions(f, st.name)
        for st in tree.body:
            if isinstance(st, FDEFS):
                inl.inline_expressions(st, None)
        tree.body = inl.inline_statements(tree.body, None)
        _drop_inlined_helpers(tree, inl, multiply_defined)
        tree.body = _merge_search_result(tree.body)
        _swap_negative_ifs(tree)
    records = _private_records(tree, set(known_names().get(module_name, []))) if known_names() else {}
    if records:
        for n in ast.walk(tree):
            if isinstance(n, FDEFS):
                _fold_private_records(n, records)
    module_tables = {}
    for st in tree.body:
        if isinstance(st, ast.Assign) and len(st.targets) == 1 and isinstance(st.targets[0], ast.Name) and counts.get(st.targets[0].id) == 1 and st.targets[0].id.startswith("_") \
                and isinstance(st.value, (ast.Tuple, ast.List)) and st.value.elts \
                and all(isinstance(r_, ast.Tuple) and r_.elts and all(isinstance(e_, ast.Constant) or _plain_chain(e_) for e_ in r_.elts) for r_ in st.value.elts):
            module_tables[st.targets[0].id] = st.value
    for n in ast.walk(tree):
        if isinstance(n, FDEFS):
            _unroll_literal_loops(n, module_tables)
    tree = _UnrollLiteralComprehensions(module_consts_early).visit(tree)
    tree.body = _split_tuple_assigns(tree.body)
    _merge_nested_ifs(tree.body)
    if had_helpers or records or searched:
        for n in ast.walk(tree):
            if isinstance(n, FDEFS):
                _eliminate_aliases(n)
    tree.body = _flatten_block(tree.body)
    for n in ast.walk(tree):
        if isinstance(n, FDEFS):
            _range_len_to_enumerate(n.body)
    tree = _GetattrLiteral().visit(tree)
    tree = _SpliceStarredTuples().visit(tree)
    for n in ast.walk(tree):
        if isinstance(n, FDEFS):
            _fold_adjacent_displays(n)
    module_consts = {}
    for st in tree.body:
        if isinstance(st, ast.Assign) and len(st.targets) == 1 and isinstance(st.targets[0], ast.Name) and counts.get(st.targets[0].id) == 1 \
                and isinstance(st.value, (ast.Tuple, ast.List)) and st.value.elts and all(isinstance(e, ast.Constant) for e in st.value.elts):
            module_consts[st.targets[0].id] = st.value
    if module_consts:
        tree = _FoldConstTableOps(module_consts).visit(tree)
    tree = _UnrollLiteralComprehensions(module_consts).visit(tree)
    tree = _GetattrLiteral().visit(tree)
    tree = _SpliceDoubleStarDict().visit(tree)
    tree = _FormatToFString().visit(tree)
    tree = _EmptyJoinToConcat().visit(tree)
    for n in ast.walk(tree):
        if isinstance(n, FDEFS):
            _augadd_display_to_append(n)
            _fold_list_building(n)
    for n in ast.walk(tree):
        if isinstance(n, FDEFS):
            n.body = _loops_to_comprehensions(n.body)
            n.body = _dict_loops_to_comprehensions(n.body)
            _fold_tagged_temps(n)
            _fold_stable_aliases(n)
    # what the folding of temporaries has exposed (a bound that became a literal, a table index that became a constant)
    if module_consts:
        tree = _FoldConstTableOps(module_consts).visit(tree)
    tree = _UnrollLiteralComprehensions(module_consts).visit(tree)
    tree = _GetattrLiteral().visit(tree)
    tree = _SpliceDoubleStarDict().visit(tree)
    ast.fix_missing_locations(tree)
    return tree
