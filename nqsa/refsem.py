"""Reference semantics of the classical core of NetQASM (the checker's own statement of what the instructions mean).

Written from the instruction-set description, not from the executor: registers hold integers or are undefined, arrays are fixed-length
lists of integers / undefined entries, the program counter moves by one except at a taken branch, `ret_reg` copies a register into the host-visible shared memory, `ret_arr` makes
an array host-visible (shared, not copied), `qalloc` / `qfree` mark a virtual qubit of the application's unit module allocated / free.  An instruction
that cannot be carried out FAULTS: execution stops at that instruction, nothing of it has taken effect.

`run(instructions, state)` interprets the instruction objects the repository's parser produced (read through their fields, nothing of
them is executed).  Used by C04.D: the repository's Executor, driven by the interpreter, must leave the same state behind.
"""
from __future__ import annotations

from typing import Any, Dict, List, Optional, Tuple

from . import circuit as C
from .model import AnalysisError, EnumMember


class Fault(Exception):
    def __init__(self, line, why):
        super().__init__(f"line {line}: {why}")
        self.line, self.why = line, why


class State:
    def __init__(self, n_qubits: int):
        self.regs: Dict[str, int] = {}          # "R3" -> value (absent: undefined)
        self.arrays: Dict[int, List[Optional[int]]] = {}
        self.allocated: set = set()
        self.n_qubits = n_qubits
        self.shared_regs: Dict[str, int] = {}
        self.shared_arrays: Dict[int, List[Optional[int]]] = {}

    def snapshot(self):
        return {"registers": dict(self.regs), "arrays": {a: list(v) for a, v in self.arrays.items()}, "allocated": sorted(self.allocated),
                "shared registers": dict(self.shared_regs), "shared arrays": {a: list(v) for a, v in self.shared_arrays.items()}}


def _reg(o) -> str:
    if not (isinstance(o, C.Obj) and o.cls is not None and o.cls.name == "Register"):
        raise AnalysisError(f"reference semantics: expected a Register operand, got {o!r}")
    n = o.fields["name"]
    return f"{n.name if isinstance(n, EnumMember) else n}{o.fields['index']}"


def _imm(o) -> int:
    if isinstance(o, C.Imm):
        return o.value
    if isinstance(o, int):
        return o
    if isinstance(o, C.Obj) and "value" in o.fields:
        return o.fields["value"]
    raise AnalysisError(f"reference semantics: expected an immediate, got {o!r}")


def _addr(o) -> int:
    if isinstance(o, C.Obj) and o.cls is not None and o.cls.name == "Address":
        return o.fields["address"]
    raise AnalysisError(f"reference semantics: expected an Address, got {o!r}")


def run(instructions: List[Any], st: State, max_steps: int = 5000) -> Tuple[str, Optional[int]]:
    """-> ("ok", None) | ("fault", line) | ("loops", None)"""
    pc = 0
    steps = 0
    n = len(instructions)

    def get(r, line, what="register"):
        if r not in st.regs:
            raise Fault(line, f"{what} {r} is undefined")
        return st.regs[r]

    def entry(e, line, for_write=False):
        a = _addr(e.fields["address"])
        idx = e.fields["index"]
        i = idx if isinstance(idx, int) and not isinstance(idx, bool) else _imm(idx) if isinstance(idx, C.Imm) else get(_reg(idx), line, "index register")
        if a not in st.arrays:
            raise Fault(line, f"no array at address {a}")
        if not (0 <= i < len(st.arrays[a])):
            # (a negative index is not an entry of the array either)
            raise Fault(line, f"index {i} outside array @{a} of length {len(st.arrays[a])}")
        return a, i

    while pc < n:
        steps += 1
        if steps > max_steps:
            return ("loops", None)
        ins = instructions[pc]
        if not isinstance(ins, C.Obj) or ins.cls is None:
            raise AnalysisError(f"reference semantics: instruction {ins!r}")
        f = ins.fields
        mn = f.get("mnemonic")
        if mn is None:
            raise AnalysisError(f"reference semantics: instruction object of {ins.cls.name} has no mnemonic field")
        try:
            nxt = pc + 1
            if mn == "set":
                st.regs[_reg(f["reg"])] = _imm(f["imm"])
            elif mn in ("add", "sub", "addm", "subm"):
                a = get(_reg(f["reg1"]), pc)
                b = get(_reg(f["reg2"]), pc)
                v = a + b if mn in ("add", "addm") else a - b
                if mn in ("addm", "subm"):
                    mod = get(_reg(f["reg3"]), pc, "modulus register")
                    if mod < 1:
                        raise Fault(pc, f"modulus {mod} below one")
                    v %= mod
                st.regs[_reg(f["reg0"])] = v
            elif mn == "jmp":
                nxt = _imm(f["imm"])
            elif mn in ("bez", "bnz"):
                a = get(_reg(f["reg"]), pc)
                if (a == 0) == (mn == "bez"):
                    nxt = _imm(f["imm"])
            elif mn in ("beq", "bne", "blt", "bge"):
                a = get(_reg(f["reg0"]), pc)
                b = get(_reg(f["reg1"]), pc)
                if {"beq": a == b, "bne": a != b, "blt": a < b, "bge": a >= b}[mn]:
                    nxt = _imm(f["imm"])
            elif mn == "array":
                ln = get(_reg(f["reg"]), pc, "length register")
                if ln < 0:
                    raise Fault(pc, f"array of negative length {ln}")
                st.arrays[_addr(f["address"])] = [None] * ln
            elif mn == "store":
                v = get(_reg(f["reg"]), pc, "stored register")
                a, i = entry(f["entry"], pc)
                st.arrays[a][i] = v
            elif mn == "load":
                a, i = entry(f["entry"], pc)
                if st.arrays[a][i] is None:
                    raise Fault(pc, f"array entry @{a}[{i}] is undefined")
                st.regs[_reg(f["reg"])] = st.arrays[a][i]
            elif mn == "undef":
                a, i = entry(f["entry"], pc)
                st.arrays[a][i] = None
            elif mn == "lea":
                st.regs[_reg(f["reg"])] = _addr(f["address"])
            elif mn == "ret_reg":
                r = _reg(f["reg"])
                st.shared_regs[r] = get(r, pc, "returned register")
            elif mn == "ret_arr":
                a = _addr(f["address"])
                if a not in st.arrays:
                    raise Fault(pc, f"no array at address {a}")
                # the host and the controller share memory: from here on the host-visible array at this address IS the application's
                # array (later stores show on the host without another ret_arr - the SDK returns an array only in the subroutine that
                # declares it and relies on this, property C05); declaring the address anew makes a new array the host does not see yet
                st.shared_arrays[a] = st.arrays[a]
            elif mn == "qalloc":
                q = get(_reg(f["reg"]), pc, "qubit register")
                if not (0 <= q < st.n_qubits):
                    raise Fault(pc, f"virtual qubit {q} outside the unit module of {st.n_qubits}")
                if q in st.allocated:
                    raise Fault(pc, f"virtual qubit {q} is already allocated")
                st.allocated.add(q)
            elif mn == "qfree":
                q = get(_reg(f["reg"]), pc, "qubit register")
                if q not in st.allocated:
                    raise Fault(pc, f"virtual qubit {q} is not allocated")
                st.allocated.discard(q)
            else:
                raise AnalysisError(f"reference semantics: no meaning for `{mn}`")
        except Fault as ft:
            return ("fault", ft.line)
        pc = nxt
    return ("ok", None)
