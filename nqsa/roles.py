"""Role binding: make a rule independent of how a function names its local variables.

A rule that talks about "the map from old to new indices" or "the list of rewritten commands" names those locals by
their role.  `bind(fn, patterns)` finds which local plays each role from the shape of the statements (what it is
assigned from, what it is stored into, which loop binds it) and `rename(fn, mapping)` renames the locals of the parsed
function to the role names, so that the rule's text-level comparisons see the same names whatever the source calls
them.  Only the checker's in-memory syntax tree is changed; positions are kept.

Pattern language (matched against the normalised header of every statement of the function, in source order):
    $name   an identifier; binds role `name` on first use, must equal the bound local afterwards
    $_      any identifier (not bound)
    ...     any text
Statement headers: `T=V`, `T+=V`, `for T in I`, `if E`, `while E`, `return V`, `with E`, bare expression text.
"""
from __future__ import annotations

import ast
import re
from typing import Dict, List, Optional

from . import astutil as A
from .model import AnalysisError


def headers(fn) -> List[str]:
    out = []

    def visit(stmts):
        for st in stmts:
            if isinstance(st, ast.Assign):
                for t in st.targets:
                    out.append(A.norm(t) + "=" + A.norm(st.value))
            elif isinstance(st, ast.AnnAssign) and st.value is not None:
                out.append(A.norm(st.target) + "=" + A.norm(st.value))
            elif isinstance(st, ast.AugAssign):
                out.append(A.norm(st.target) + _op(st.op) + "=" + A.norm(st.value))
            elif isinstance(st, (ast.For, ast.AsyncFor)):
                out.append("for " + A.norm(st.target) + " in " + A.norm(st.iter))
            elif isinstance(st, ast.If):
                out.append("if " + A.norm(st.test))
            elif isinstance(st, ast.While):
                out.append("while " + A.norm(st.test))
            elif isinstance(st, ast.Return):
                out.append("return " + (A.norm(st.value) if st.value is not None else ""))
            elif isinstance(st, (ast.With, ast.AsyncWith)):
                for it in st.items:
                    out.append("with " + A.norm(it.context_expr) + (" as " + A.norm(it.optional_vars) if it.optional_vars is not None else ""))
            elif isinstance(st, ast.Expr):
                out.append(A.norm(st.value))
            elif isinstance(st, ast.Assert):
                out.append("assert " + A.norm(st.test))
            for field in ("body", "orelse", "finalbody"):
                sub = getattr(st, field, None)
                if isinstance(sub, list) and sub and isinstance(sub[0], ast.stmt) and not isinstance(st, (ast.FunctionDef, ast.AsyncFunctionDef, ast.ClassDef)):
                    visit(sub)
            if isinstance(st, ast.Try):
                for h in st.handlers:
                    visit(h.body)

    visit(fn.body)
    return out


def _op(op) -> str:
    return {ast.Add: "+", ast.Sub: "-", ast.Mult: "*", ast.Div: "/", ast.FloorDiv: "//", ast.Mod: "%", ast.BitOr: "|", ast.BitAnd: "&"}.get(type(op), "?")


_TOKEN = re.compile(r"\$(\w+)|\.\.\.")


def _compile(pattern: str, bound: Dict[str, str]):
    """regex for a pattern; the pattern is tokenised before its whitespace is dropped (so `$i in` is role `i`, not `iin`)"""
    out = []
    groups = []
    for k, piece in enumerate(pattern.split()):
        if k:
            out.append(" ?")  # headers keep one space at keyword boundaries (for x in y); inside expressions there is none
        pos = 0
        for m in _TOKEN.finditer(piece):
            out.append(re.escape(piece[pos:m.start()]))
            pos = m.end()
            if m.group(0) == "...":
                out.append(r".*?")
            else:
                name = m.group(1)
                if name == "_":
                    out.append(r"[A-Za-z_]\w*?")
                elif name in bound:
                    out.append(re.escape(bound[name]))
                elif name in groups:
                    out.append(f"(?P={name})")
                else:
                    groups.append(name)
                    out.append(f"(?P<{name}>[A-Za-z_]\\w*?)")
        out.append(re.escape(piece[pos:]))
    return re.compile("^" + "".join(out) + "$")


def _squash(h: str) -> str:
    # headers carry single spaces at keyword boundaries only (A.norm output has none)
    return " ".join(h.split())


def bind(fn, patterns: List[str], what: str = "", skipped: Optional[List[str]] = None) -> Dict[str, str]:
    """role -> identifier.  A pattern binds its roles when it matches exactly one distinct statement shape (identical
    headers count once).  With `skipped` given, a pattern that matches none or several is left unbound and recorded there
    (the rules then see the source's own names and decide for themselves); without it that is an analysis error."""
    hs = [_squash(h) for h in headers(fn)]
    bound: Dict[str, str] = {}
    poisoned = set()  # roles whose defining pattern was skipped: later patterns mentioning them are skipped as well
    for p in patterns:
        mentioned = set(re.findall(r"\$(\w+)", p)) - {"_"}
        if skipped is not None and (mentioned & poisoned):
            poisoned |= {r_ for r_ in mentioned if r_ not in bound}
            skipped.append(f"`{p}`: depends on an unbound role")
            continue
        rx = _compile(p, bound)
        hits = []
        for h in hs:
            m = rx.match(h)
            if m:
                d = m.groupdict()
                if d not in hits:
                    hits.append(d)
        if len(hits) == 1 and skipped is not None and (set(hits[0].values()) & set(bound.values())):
            hits = []  # a local cannot play two roles
        if len(hits) != 1 and skipped is not None:
            skipped.append(f"`{p}`: {len(hits)} matches")
            poisoned |= {r_ for r_ in mentioned if r_ not in bound}
            continue
        if len(hits) != 1:
            raise AnalysisError(f"{what or fn.name}: role pattern `{p}` matches {len(hits)} statement shapes (expected 1); the function no longer has the modelled shape")
        bound.update(hits[0])
    return bound


def rename(fn, mapping: Dict[str, str]) -> Dict[str, str]:
    """rename identifiers of fn in place so that the local playing each role carries the role's name; returns {role: original}"""
    ren = {local: role for role, local in mapping.items() if local != role}
    if not ren:
        return dict(mapping)
    existing = {n.id for n in ast.walk(fn) if isinstance(n, ast.Name)} | {a.arg for a in ast.walk(fn) if isinstance(a, ast.arg)}
    # a role name already used by an unrelated identifier: move that one out of the way first
    clash = {role: role + "__other" for role in ren.values() if role in existing and role not in ren}
    for n in ast.walk(fn):
        if isinstance(n, ast.Name):
            if n.id in ren:
                n.id = ren[n.id]
            elif n.id in clash:
                n.id = clash[n.id]
        elif isinstance(n, ast.arg):
            if n.arg in ren:
                n.arg = ren[n.arg]
            elif n.arg in clash:
                n.arg = clash[n.arg]
    return dict(mapping)


def normalise(ctx, fn, patterns: List[str], what: str = "") -> Dict[str, str]:
    skipped: List[str] = []
    m = bind(fn, patterns, what, skipped)
    rename(fn, m)
    if skipped and ctx is not None:
        ctx.note(f"{what or fn.name}: role patterns without a unique match (names left as written): " + "; ".join(skipped))
    changed = {r: l for r, l in m.items() if r != l}
    if changed and ctx is not None:
        ctx.note(f"{what or fn.name}: locals named by role for the rules: " + ", ".join(f"{l} -> {r}" for r, l in sorted(changed.items())))
    return m
