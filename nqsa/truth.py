"""T-truth: no truthiness test on a value that can be an integer.

Virtual and physical qubit ids, register values, array entries, app ids and moduli are integers for which 0 is an
ordinary value; "absent" is None.  Testing such a value by truthiness (`if x`, `not x`, `bool(x)`, `x or d`,
`filter(None, xs)`, `any(xs)`) conflates 0 with absent.  The repository's own discipline is uniform: every truthiness
test in the analysed modules is on a bool, a container or an object reference, and every int-or-None value is tested
with `is None`.  This engine types the operand of every truthiness test from annotations and definitions (a small,
local inference: parameters, annotated attributes, return annotations, locals through their definitions, element types
of annotated containers) and reports operands whose type includes `int`.  Operands whose type cannot be derived are
counted as unresolved and not reported (no alarm without a derivation).
"""
from __future__ import annotations

import ast
from typing import Dict, List, Optional, Set, Tuple

from . import astutil as A
from .model import dotted, src

BOOL, INT, NONE, OBJ, UNK, FLOAT, STR = "bool", "int", "none", "obj", "?", "float", "str"
BOOL_FUNCS = {"isinstance", "hasattr", "callable", "issubclass", "any", "all", "bool", "allclose", "isclose", "array_equal", "is_number", "is_variable_name"}
BOOL_METHODS = {"startswith", "endswith", "isdigit", "isnumeric", "isalpha", "isalnum", "isidentifier", "isspace", "issubset", "issuperset", "is_set", "locked", "is_alive", "exists"}
INT_FUNCS = {"len", "int", "ord", "hash", "round", "abs", "sum", "min", "max", "count", "index"}
CONTAINERS = {"List", "Dict", "Set", "Tuple", "Sequence", "Mapping", "Iterable", "Iterator", "Generator", "DefaultDict", "Deque", "FrozenSet", "list", "dict", "set", "tuple", "defaultdict", "deque", "frozenset", "Callable", "Type"}


def _local_annotation(n, name):
    """annotation of a local that the normaliser turned from `x: T = v` into `x = v` (kept as the assignment's type comment)"""
    if isinstance(n, ast.Assign) and len(n.targets) == 1 and isinstance(n.targets[0], ast.Name) and n.targets[0].id == name and getattr(n, "type_comment", None):
        try:
            return ast.parse(n.type_comment, mode="eval").body
        except SyntaxError:
            return None
    return None


class Typer:
    def __init__(self, repo, ev):
        self.repo, self.ev = repo, ev
        self._ret_cache: Dict[str, Set[str]] = {}

    # ---- annotations ------------------------------------------------------------------------------------------
    def resolve_alias(self, name: str, mod, depth=0) -> Optional[ast.AST]:
        if depth > 4:
            return None
        if name in mod.assigns and isinstance(mod.assigns[name], (ast.Subscript, ast.Name, ast.Attribute)):
            return mod.assigns[name]
        imp = mod.imports.get(name)
        if imp and imp[1]:
            m2 = self.repo.modules.get(imp[0])
            if m2 is not None and imp[1] in m2.assigns:
                return m2.assigns[imp[1]]
        return None

    def ann_tags(self, ann, mod, depth=0) -> Set[str]:
        if ann is None or depth > 6:
            return {UNK}
        if isinstance(ann, ast.Constant):
            if ann.value is None:
                return {NONE}
            if isinstance(ann.value, str):
                try:
                    return self.ann_tags(ast.parse(ann.value, mode="eval").body, mod, depth + 1)
                except SyntaxError:
                    return {UNK}
            return {UNK}
        if isinstance(ann, ast.BinOp) and isinstance(ann.op, ast.BitOr):
            return self.ann_tags(ann.left, mod, depth + 1) | self.ann_tags(ann.right, mod, depth + 1)
        name = (dotted(ann) or "").split(".")[-1] if isinstance(ann, (ast.Name, ast.Attribute)) else None
        if name is not None:
            if name == "bool":
                return {BOOL}
            if name == "int":
                return {INT}
            if name == "float":
                return {FLOAT}
            if name == "str":
                return {STR}
            if name in ("None", "NoneType"):
                return {NONE}
            if name == "Any":
                return {UNK}
            if name in CONTAINERS:
                return {OBJ}
            al = self.resolve_alias(name, mod) if isinstance(ann, ast.Name) else None
            if al is not None:
                return self.ann_tags(al, mod, depth + 1)
            c = self._class_named(name, mod)
            if c is not None:
                return {INT} if self._is_int_enum(c) else {OBJ}
            return {UNK}
        if isinstance(ann, ast.Subscript):
            head = (dotted(ann.value) or "").split(".")[-1]
            args = ann.slice.elts if isinstance(ann.slice, ast.Tuple) else [ann.slice]
            if head == "Optional":
                return self.ann_tags(args[0], mod, depth + 1) | {NONE}
            if head == "Union":
                out: Set[str] = set()
                for a in args:
                    out |= self.ann_tags(a, mod, depth + 1)
                return out
            if head in CONTAINERS:
                return {OBJ}
            return {UNK}
        return {UNK}

    def elem_ann(self, ann, mod, depth=0) -> Optional[ast.AST]:
        """annotation of the elements (values for mappings) of a container annotation"""
        if ann is None or depth > 6:
            return None
        if isinstance(ann, ast.Constant) and isinstance(ann.value, str):
            try:
                return self.elem_ann(ast.parse(ann.value, mode="eval").body, mod, depth + 1)
            except SyntaxError:
                return None
        if isinstance(ann, ast.Name):
            al = self.resolve_alias(ann.id, mod)
            return self.elem_ann(al, mod, depth + 1) if al is not None else None
        if isinstance(ann, ast.Subscript):
            head = (dotted(ann.value) or "").split(".")[-1]
            args = ann.slice.elts if isinstance(ann.slice, ast.Tuple) else [ann.slice]
            if head in ("List", "Set", "Sequence", "Iterable", "Iterator", "FrozenSet", "Deque", "list", "set", "frozenset", "deque"):
                return args[0]
            if head in ("Dict", "Mapping", "DefaultDict", "dict", "defaultdict") and len(args) == 2:
                return args[1]
            if head == "Optional":
                return self.elem_ann(args[0], mod, depth + 1)
            if head == "Tuple" and args:
                return args[0] if len(args) == 2 and isinstance(args[1], ast.Constant) and args[1].value is Ellipsis else None
        return None

    def _class_named(self, name, mod):
        if name in mod.classes:
            return mod.classes[name]
        imp = mod.imports.get(name)
        if imp and imp[1]:
            m2 = self.repo.modules.get(imp[0])
            if m2 is not None and imp[1] in m2.classes:
                return m2.classes[imp[1]]
        return None

    def _is_int_enum(self, c) -> bool:
        return any((b if isinstance(b, str) else b.name).split(".")[-1] in ("IntEnum", "IntFlag") for k in self.repo.mro(c) for b in k.bases)

    # ---- expressions ------------------------------------------------------------------------------------------
    def expr_ann(self, e, fn, cls, mod, depth=0) -> Optional[ast.AST]:
        """an annotation expression describing e, when one can be derived"""
        if depth > 6:
            return None
        if isinstance(e, ast.Name):
            a = fn.args
            for p in a.posonlyargs + a.args + a.kwonlyargs:
                if p.arg == e.id:
                    return p.annotation
            for n in A.body_nodes(fn):
                if isinstance(n, ast.AnnAssign) and isinstance(n.target, ast.Name) and n.target.id == e.id:
                    return n.annotation
                if _local_annotation(n, e.id) is not None:
                    return _local_annotation(n, e.id)
            vals = [v for v in A.assigned_names(fn).get(e.id, []) if v is not None]
            anns = [self.expr_ann(v, fn, cls, mod, depth + 1) for v in vals]
            if anns and all(x is not None for x in anns) and len({ast.dump(x) for x in anns}) == 1:
                return anns[0]
            # loop / comprehension target over an annotated container
            for n in ast.walk(fn):
                if isinstance(n, (ast.For, ast.comprehension)):
                    it, tgt = n.iter, n.target
                    if isinstance(it, ast.Call) and dotted(it.func) == "enumerate" and it.args and isinstance(tgt, ast.Tuple) and len(tgt.elts) == 2:
                        it, tgt = it.args[0], tgt.elts[1]
                    if isinstance(tgt, ast.Name) and tgt.id == e.id:
                        ca = self.expr_ann(it, fn, cls, mod, depth + 1)
                        return self.elem_ann(ca, mod) if ca is not None else None
            return None
        if isinstance(e, ast.Attribute) and isinstance(e.value, ast.Name) and e.value.id == "self" and cls is not None:
            return self.attr_ann(cls, e.attr)
        if isinstance(e, ast.Attribute):
            base = self.expr_ann(e.value, fn, cls, mod, depth + 1)
            if base is not None:
                names = [n.id if isinstance(n, ast.Name) else n.attr for n in ast.walk(base) if isinstance(n, (ast.Name, ast.Attribute))]
                for nm in names:
                    c = self._class_named(nm, mod)
                    if c is not None:
                        a = self.attr_ann(c, e.attr)
                        if a is not None:
                            return a
            return None
        if isinstance(e, ast.Subscript):
            ca = self.expr_ann(e.value, fn, cls, mod, depth + 1)
            if ca is not None and not isinstance(e.slice, ast.Slice):
                return self.elem_ann(ca, mod)
            return ca if isinstance(e.slice, ast.Slice) else None
        if isinstance(e, ast.Call):
            f = e.func
            if isinstance(f, ast.Attribute) and f.attr in ("get", "pop") and e.args:
                ca = self.expr_ann(f.value, fn, cls, mod, depth + 1)
                ea = self.elem_ann(ca, mod) if ca is not None else None
                if ea is not None:
                    if f.attr == "get" or len(e.args) > 1:
                        return ast.Subscript(value=ast.Name(id="Optional", ctx=ast.Load()), slice=ea, ctx=ast.Load())
                    return ea
            callee = self.callee(e, cls, mod)
            if callee is not None:
                return callee.returns
        return None

    def attr_ann(self, cls, attr) -> Optional[ast.AST]:
        for k in self.repo.mro(cls):
            if attr in k.attrs and k.attrs[attr][0] is not None:
                return k.attrs[attr][0]
            if attr in k.methods and k.is_property(attr):
                return k.methods[attr].returns
            init = k.methods.get("__init__")
            if init is not None:
                for n in A.body_nodes(init):
                    if isinstance(n, ast.AnnAssign) and A.is_self_attr(n.target, attr):
                        return n.annotation
                for n in A.body_nodes(init):
                    if isinstance(n, ast.Assign) and any(A.is_self_attr(t, attr) for t in n.targets):
                        if isinstance(n.value, ast.Name):
                            for p in init.args.args + init.args.kwonlyargs:
                                if p.arg == n.value.id and p.annotation is not None:
                                    return p.annotation
                        if isinstance(n.value, ast.Constant) and isinstance(n.value.value, bool):
                            return ast.Name(id="bool", ctx=ast.Load())
        return None

    def callee(self, call, cls, mod):
        f = call.func
        if isinstance(f, ast.Attribute) and isinstance(f.value, ast.Name) and f.value.id == "self" and cls is not None:
            r = self.repo.lookup(cls, f.attr)
            return r[1] if r else None
        if isinstance(f, ast.Attribute):
            # a method of some other object: accepted when every method of that name in the repository has the same annotated return type
            cands = [c.methods[f.attr] for c in self.repo.all_classes() if f.attr in c.methods]
            if cands and all(c.returns is not None for c in cands) and len({ast.dump(c.returns) for c in cands}) == 1:
                return cands[0]
            return None
        if isinstance(f, ast.Name):
            if f.id in mod.functions:
                return mod.functions[f.id]
            imp = mod.imports.get(f.id)
            if imp and imp[1]:
                m2 = self.repo.modules.get(imp[0])
                if m2 is not None and imp[1] in m2.functions:
                    return m2.functions[imp[1]]
        return None

    def tags(self, e, fn, cls, mod, depth=0) -> Set[str]:
        if depth > 6:
            return {UNK}
        if isinstance(e, ast.Constant):
            v = e.value
            return {BOOL} if isinstance(v, bool) else {INT} if isinstance(v, int) else {NONE} if v is None else {STR} if isinstance(v, str) else {FLOAT} if isinstance(v, float) else {OBJ}
        if isinstance(e, (ast.Compare,)) or (isinstance(e, ast.UnaryOp) and isinstance(e.op, ast.Not)):
            return {BOOL}
        if isinstance(e, ast.BoolOp):
            out: Set[str] = set()
            for v in e.values:
                out |= self.tags(v, fn, cls, mod, depth + 1)
            return out
        if isinstance(e, ast.IfExp):
            return self.tags(e.body, fn, cls, mod, depth + 1) | self.tags(e.orelse, fn, cls, mod, depth + 1)
        if isinstance(e, (ast.List, ast.Dict, ast.Set, ast.Tuple, ast.ListComp, ast.DictComp, ast.SetComp, ast.GeneratorExp, ast.JoinedStr, ast.Lambda)):
            return {OBJ}
        if isinstance(e, ast.BinOp):
            return {INT} if {INT, FLOAT} & (self.tags(e.left, fn, cls, mod, depth + 1) | self.tags(e.right, fn, cls, mod, depth + 1)) else {UNK}
        if isinstance(e, ast.Call):
            fname = (dotted(e.func) or "").split(".")[-1] if isinstance(e.func, (ast.Name, ast.Attribute)) else ""
            if fname in BOOL_FUNCS or (isinstance(e.func, ast.Attribute) and fname in BOOL_METHODS):
                return {BOOL}
            if isinstance(e.func, ast.Name) and fname in INT_FUNCS:
                return {INT}
            callee = self.callee(e, cls, mod)
            if callee is not None and callee.returns is None:
                # un-annotated: bool if every return is a bool-typed expression
                rets = [r.value for r in A.returns(callee) if r.value is not None]
                if rets and all(self.tags(r, callee, cls, mod, depth + 1) == {BOOL} for r in rets):
                    return {BOOL}
        if isinstance(e, ast.Name):
            if e.id in ("TYPE_CHECKING", "__debug__"):
                return {BOOL}
            # parameter with a bool default and no annotation
            a = fn.args
            pos = a.posonlyargs + a.args
            for p, dflt in list(zip(pos[len(pos) - len(a.defaults):], a.defaults)) + [(p, d) for p, d in zip(a.kwonlyargs, a.kw_defaults) if d is not None]:
                if p.arg == e.id and p.annotation is None:
                    return self.tags(dflt, fn, cls, mod, depth + 1)
            if not any(p.arg == e.id for p in pos + a.kwonlyargs):
                anns = [n.annotation for n in A.body_nodes(fn) if isinstance(n, ast.AnnAssign) and isinstance(n.target, ast.Name) and n.target.id == e.id]
                anns += [_local_annotation(n, e.id) for n in A.body_nodes(fn) if _local_annotation(n, e.id) is not None]
                if not anns:
                    vals = [v for v in A.assigned_names(fn).get(e.id, []) if v is not None]
                    if vals:
                        out = set()
                        for v in vals:
                            out |= self.tags(v, fn, cls, mod, depth + 1)
                        return out
        ann = self.expr_ann(e, fn, cls, mod)
        return self.ann_tags(ann, mod) if ann is not None else {UNK}


def truth_sites(fn) -> List[Tuple[ast.AST, str]]:
    """(operand, how) for every value of fn that is tested by truthiness"""
    out: List[Tuple[ast.AST, str]] = []

    def operand(e, how):
        if isinstance(e, ast.UnaryOp) and isinstance(e.op, ast.Not):
            return operand(e.operand, how)
        if isinstance(e, ast.BoolOp):
            for v in e.values:
                operand(v, how)
            return
        if isinstance(e, (ast.Compare, ast.Constant)):
            return
        out.append((e, how))

    for n in A.body_nodes(fn):
        if isinstance(n, (ast.If, ast.While, ast.IfExp)):
            operand(n.test, "condition")
        elif isinstance(n, ast.comprehension):
            for i in n.ifs:
                operand(i, "comprehension filter")
        elif isinstance(n, ast.UnaryOp) and isinstance(n.op, ast.Not):
            operand(n.operand, "not")
        elif isinstance(n, ast.BoolOp):
            for v in n.values[:-1]:
                operand(v, "and/or operand")
        elif isinstance(n, ast.Call) and isinstance(n.func, ast.Name):
            if n.func.id == "bool" and len(n.args) == 1:
                operand(n.args[0], "bool()")
            elif n.func.id == "filter" and len(n.args) == 2 and isinstance(n.args[0], ast.Constant) and n.args[0].value is None:
                out.append((n.args[1], "filter(None, ...) elements"))
            elif n.func.id in ("any", "all") and len(n.args) == 1:
                a = n.args[0]
                if isinstance(a, (ast.GeneratorExp, ast.ListComp)):
                    operand(a.elt, f"{n.func.id}() element")
                else:
                    out.append((a, f"{n.func.id}(...) elements"))
    # de-duplicate (a `not x` inside an `if` is visited twice)
    seen, uniq = set(), []
    for e, how in out:
        if id(e) not in seen:
            seen.add(id(e))
            uniq.append((e, how))
    return uniq


def check(ctx, rule: str, modules: List[str], floor: int = 1):
    """every truthiness-tested operand in the given modules must not be int-typed"""
    repo, ev = ctx.repo, ctx.ev
    ty = Typer(repo, ev)
    n_sites = n_unresolved = 0
    for mn in modules:
        mod = repo.modules.get(mn)
        if mod is None:
            ctx.error(rule, f"module {mn} not found")
            continue
        for _m, qn, fn, cls in repo.iter_functions(mn):
            if _m is not mod:
                continue
            for e, how in truth_sites(fn):
                elems = how.endswith("elements")
                if elems:
                    ca = ty.expr_ann(e, fn, cls, mod)
                    ea = ty.elem_ann(ca, mod) if ca is not None else None
                    tags = ty.ann_tags(ea, mod) if ea is not None else {UNK}
                else:
                    tags = ty.tags(e, fn, cls, mod)
                n_sites += 1
                if UNK in tags and not ({INT, FLOAT} & tags):
                    n_unresolved += 1
                    ctx.note(f"{rule}: {mn.split('.')[-1]}.{qn}: type of `{src(e)[:50]}` ({how}) not derived")
                    continue
                bad = {INT, FLOAT} & tags
                ctx.check(rule, f"{mn.split('.')[-1]}.{qn}:truthiness-of:{A.norm(e)[:60]}", not bad,
                          f"{qn} tests `{src(e)[:80]}` by truthiness ({how}); its type is {sorted(tags)}: the value 0 is an ordinary "
                          f"{'id / register value / address' if INT in tags else 'number'} and would be treated like an absent one — test `is None` (or compare explicitly)",
                          repo.loc(mod, e), trivial=True)
    ctx.anchor(rule, "truthiness tests typed", n_sites - n_unresolved, floor)
    ctx.note(f"{rule}: {n_sites} truthiness-tested operands, {n_unresolved} with underivable type (not reported)")
