"""Gate-list evaluator.

A small abstract interpreter over the statement forms the repo uses in its
circuit-building functions (DESIGN A.5).  It *reads* the functions from the
syntax tree and evaluates them on abstract instruction objects; nothing of
the repo is imported or executed.  The resulting gate lists are multiplied
out with the checker's own operator semantics (below) and compared with the
operator the gate must denote.
"""
from __future__ import annotations

import ast
import math
from dataclasses import dataclass, field
from typing import ClassVar, Any, Dict, List, Optional, Tuple

import numpy as np

from . import astutil as A
from .model import AnalysisError, CArray, CTYPES_SCALARS, ClassInfo, ConstEval, EnumMember, Repo, Unknown, dotted, src

# ---------------------------------------------------------------------------
# checker-side operator semantics
# ---------------------------------------------------------------------------
I2 = np.eye(2, dtype=complex)
PX = np.array([[0, 1], [1, 0]], dtype=complex)
PY = np.array([[0, -1j], [1j, 0]], dtype=complex)
PZ = np.array([[1, 0], [0, -1]], dtype=complex)
PAULI = {"x": PX, "y": PY, "z": PZ}
GH = (PX + PZ) / math.sqrt(2)
GK = (PY + PZ) / math.sqrt(2)
GS = np.diag([1, 1j]).astype(complex)
GT = np.diag([1, np.exp(1j * math.pi / 4)]).astype(complex)
CNOT = np.array([[1, 0, 0, 0], [0, 1, 0, 0], [0, 0, 0, 1], [0, 0, 1, 0]], dtype=complex)
CPHASE = np.diag([1, 1, 1, -1]).astype(complex)
SWAP = np.array([[1, 0, 0, 0], [0, 0, 1, 0], [0, 1, 0, 0], [0, 0, 0, 1]], dtype=complex)
STATIC = {"x": PX, "y": PY, "z": PZ, "h": GH, "k": GK, "s": GS, "t": GT, "cnot": CNOT, "cphase": CPHASE}


def rot(axis: str, theta: float) -> np.ndarray:
    """R_axis(theta) = exp(-i theta/2 P)"""
    return math.cos(theta / 2) * I2 - 1j * math.sin(theta / 2) * PAULI[axis]


def rot_vec(axis_vec, theta: float) -> np.ndarray:
    v = np.array(axis_vec, dtype=float)
    nrm = np.linalg.norm(v)
    if nrm == 0:
        raise Unknown("zero rotation axis")
    v = v / nrm
    P = v[0] * PX + v[1] * PY + v[2] * PZ
    return math.cos(theta / 2) * I2 - 1j * math.sin(theta / 2) * P


def crot_vec(axis_vec, theta: float) -> np.ndarray:
    """|0><0| (x) R(theta) + |1><1| (x) R(-theta)  (control first)"""
    p0 = np.diag([1, 0]).astype(complex)
    p1 = np.diag([0, 1]).astype(complex)
    return np.kron(p0, rot_vec(axis_vec, theta)) + np.kron(p1, rot_vec(axis_vec, -theta))


AXIS = {"x": [1, 0, 0], "y": [0, 1, 0], "z": [0, 0, 1]}


def equal_up_to_phase(a: np.ndarray, b: np.ndarray, tol=1e-9) -> bool:
    if a.shape != b.shape:
        return False
    i = int(np.argmax(np.abs(a)))
    if abs(a.flat[i]) < tol or abs(b.flat[i]) < tol:
        return False
    ph = b.flat[i] / a.flat[i]
    if abs(abs(ph) - 1) > 1e-7:
        return False
    return bool(np.allclose(a * ph, b, atol=1e-8))


def embed(op: np.ndarray, qubits: List[int], n: int) -> np.ndarray:
    """operator acting on the listed qubit positions (big-endian: qubit 0 is the left-most tensor factor) of an n-qubit register"""
    k = len(qubits)
    dim = 2 ** n
    out = np.zeros((dim, dim), dtype=complex)
    others = [q for q in range(n) if q not in qubits]
    for col in range(dim):
        bits = [(col >> (n - 1 - q)) & 1 for q in range(n)]
        sub_in = 0
        for q in qubits:
            sub_in = (sub_in << 1) | bits[q]
        for sub_out in range(2 ** k):
            amp = op[sub_out, sub_in]
            if amp == 0:
                continue
            nb = list(bits)
            for j, q in enumerate(qubits):
                nb[q] = (sub_out >> (k - 1 - j)) & 1
            row = 0
            for q in range(n):
                row = (row << 1) | nb[q]
            out[row, col] += amp
    return out


# ---------------------------------------------------------------------------
# abstract values
# ---------------------------------------------------------------------------


import sys as _sys
if _sys.getrecursionlimit() < 40000:
    _sys.setrecursionlimit(40000)  # one interpreted call is several Python frames; the interpreter's own depth bound is what limits recursion
try:
    import threading as _threading
    _threading.stack_size(32 * 1024 * 1024)
except (ValueError, RuntimeError):
    pass


class StepLimit(Exception):
    """a scenario that sets `max_steps` treats running past it as a verdict of its own (the code under analysis loops)"""


@dataclass(eq=False)
class RegSym:
    name: str

    def __repr__(self):
        return f"<{self.name}>"


@dataclass(eq=False)
class Imm:
    value: Any


@dataclass(eq=False)
class Obj:
    cls: Optional[ClassInfo]
    fields: Dict[str, Any] = field(default_factory=dict)
    kind: str = "obj"

    _repr_busy: ClassVar[set] = set()

    # instances of a frozen dataclass of the repository are values: equal and hashed by their fields (dictionary keys, set members).
    # The interpreter marks them when it constructs them (`value_eq`); every other object is itself only.
    def _value_key(self):
        def h(v):
            if isinstance(v, EnumMember):
                return ("enum", v.enum, v.name)
            if isinstance(v, Imm):
                return ("imm", v.value)
            if isinstance(v, list):
                return tuple(h(x) for x in v)
            return v
        return (self.cls.qualname if self.cls is not None else self.kind, tuple((k, h(v)) for k, v in sorted(self.fields.items()) if k != "lineno"))

    def __eq__(self, other):
        if self is other:
            return True
        if isinstance(other, Obj) and self.__dict__.get("value_eq") and other.__dict__.get("value_eq") and self.cls is other.cls:
            return self._value_key() == other._value_key()
        return False

    def __hash__(self):
        if self.__dict__.get("value_eq"):
            return hash(self._value_key())
        return id(self)

    def __repr__(self):
        name = self.cls.name if self.cls else self.kind
        if id(self) in Obj._repr_busy or len(Obj._repr_busy) > 3:
            return f"{name}(...)"  # (objects that refer to each other, or nested deeply: not spelled out again)
        Obj._repr_busy.add(id(self))
        try:
            return f"{name}({', '.join(f'{k}={v!r}' for k, v in self.fields.items() if k != 'lineno')})"
        finally:
            Obj._repr_busy.discard(id(self))


class NTObj(Obj, tuple):
    """an instance of a `class X(NamedTuple)` of the repository: a tuple (iteration, indexing, unpacking, equality and hashing are the
    tuple's) that is also an object of its class (fields by name, the methods / classmethods / properties the class body defines)."""

    def __new__(cls, c, names, values):
        return tuple.__new__(cls, values)

    def __init__(self, c, names, values):
        Obj.__init__(self, c, dict(zip(names, values)))
        self.nt_names = tuple(names)

    __eq__ = tuple.__eq__
    __ne__ = tuple.__ne__
    __hash__ = tuple.__hash__

    def __repr__(self):
        return f"{self.cls.name}({', '.join(f'{k}={v!r}' for k, v in zip(self.nt_names, self))})"


class NamedTupleModel:
    """what collections.namedtuple(name, fields) returns: callable, with `_fields`, `_make` and defaults set through
    `X.__new__.__defaults__ = (...)`.  Instances are instances of a real namedtuple class made by the checker (tuples with field
    access, `_replace`, `_asdict`)."""
    _nqsa_model = True

    class _New:
        _nqsa_model = True

        def __init__(self, owner):
            self._owner = owner

        @property
        def __defaults__(self):
            return self._owner.cls.__new__.__defaults__

        @__defaults__.setter
        def __defaults__(self, v):
            self._owner.cls.__new__.__defaults__ = tuple(v) if v is not None else None

    def __init__(self, name, fields, defaults=None, **kw):
        import collections
        if isinstance(fields, str):
            fields = fields.replace(",", " ").split()
        self.cls = collections.namedtuple(name, list(fields), defaults=defaults)
        self.__name__ = name
        self.new_proxy = NamedTupleModel._New(self)

    @property
    def _fields(self):
        return self.cls._fields

    def _make(self, it):
        return self.cls._make(it)

    def __call__(self, *a_, **k_):
        try:
            return self.cls(*a_, **k_)
        except TypeError as ex_:
            raise EvalRaise("TypeError", str(ex_))


class DynStruct:
    """a ctypes structure class created while a function runs (`class T(Base): pass; T._fields_ = f` or `type(n, (Base,), {"_fields_": f})`):
    only its size is ever asked for"""
    _nqsa_model = True

    def __init__(self, ev, base, fields=None):
        self._ev, self._base, self._fields_ = ev, base, fields

    def size(self):
        from . import wire
        base_fields = wire.struct_fields(self._ev, self._base)
        own = [tuple(f) + (None,) * (3 - len(f)) for f in (self._fields_ or [])]
        return wire.layout_fields(self._ev, base_fields + own, wire.struct_pack(self._ev, self._base))[1]

    def __call__(self, *a, **k):
        return _DynInstance(self)


class _DynInstance:
    _nqsa_model = True

    def __init__(self, cls):
        self._cls = cls

    def __bytes__(self):
        return bytes(self._cls.size())


class DynArrayType:
    """`Struct * n`: a ctypes array type of structures created while a function runs"""
    _nqsa_model = True

    def __init__(self, ev, elem, n):
        if not isinstance(n, int) or isinstance(n, bool) or n < 0:
            raise EvalRaise("ValueError" if isinstance(n, int) else "TypeError", f"array length {n!r}")
        self._ev, self._elem, self._n = ev, elem, n

    def __call__(self, *items):
        if len(items) > self._n:
            raise EvalRaise("IndexError", "invalid index")
        from . import cmodel
        vals = list(items) + [cmodel.new_struct(self._ev, self._elem, lambda k_: Obj(k_, {})) for _ in range(self._n - len(items))]
        for v in vals:
            if not (isinstance(v, Obj) and v.cls is not None and self._elem in self._ev.repo.mro(v.cls)):
                raise EvalRaise("TypeError", f"expected {self._elem.name} instance, got {type(v).__name__}")
        return DynArrayInst(self, vals)

    def from_buffer_copy(self, raw, offset=0):
        from . import cmodel
        size = cmodel.sizeof(self._ev, self._elem)
        raw = bytes(raw)[offset:]
        if len(raw) < size * self._n:
            raise EvalRaise("ValueError", f"Buffer size too small ({len(raw)} instead of at least {size * self._n} bytes)")
        return DynArrayInst(self, [cmodel.decode(self._ev, self._elem, raw[i * size:(i + 1) * size], lambda k_: Obj(k_, {})) for i in range(self._n)])


class DynArrayInst:
    _nqsa_model = True

    def __init__(self, t, items):
        self._t, self._items = t, items

    def __bytes__(self):
        from . import cmodel
        return b"".join(cmodel.encode(self._t._ev, x) for x in self._items)

    def __iter__(self):
        return iter(self._items)

    def __len__(self):
        return len(self._items)

    def __getitem__(self, i):
        return self._items[i]

    def __setitem__(self, i, v):
        if not (isinstance(v, Obj) and v.cls is not None and self._t._elem in self._t._ev.repo.mro(v.cls)):
            raise EvalRaise("TypeError", f"expected {self._t._elem.name} instance")
        self._items[i] = v


class StructModel:
    """struct.Struct(fmt) - the standard library's own byte packing, which is pure arithmetic on the format"""
    _nqsa_model = True

    def __init__(self, fmt):
        import struct
        self._s = struct.Struct(fmt)
        self.size, self.format = self._s.size, fmt

    def pack(self, *a):
        return self._s.pack(*a)

    def unpack(self, raw):
        import struct
        try:
            return self._s.unpack(bytes(raw))
        except struct.error as ex_:
            raise EvalRaise("error", str(ex_))

    def unpack_from(self, raw, offset=0):
        import struct
        try:
            return self._s.unpack_from(bytes(raw), offset)
        except struct.error as ex_:
            raise EvalRaise("error", str(ex_))

    def iter_unpack(self, raw):
        import struct
        try:
            return list(self._s.iter_unpack(bytes(raw)))
        except struct.error as ex_:
            raise EvalRaise("error", str(ex_))


def _live(seq):
    """iterate a list by position, looking at the live object each time (what a Python `for` does)"""
    i = 0
    while i < len(seq):
        yield seq[i]
        i += 1


class _LiveEnumerate:
    """enumerate(<list>) over the live list"""

    def __init__(self, seq, start=0):
        self.seq, self.start = seq, start

    def __iter__(self):
        i = 0
        while i < len(self.seq):
            yield (self.start + i, self.seq[i])
            i += 1


class CircuitProblem(Exception):
    """the emitted gate list cannot be given an operator (it relies on context outside the sequence)"""


class EvalRaise(Exception):
    def __init__(self, exc_name, msg=""):
        super().__init__(f"{exc_name}: {msg}")
        self.exc_name = exc_name
        self.msg = msg
        self.value = None  # the model object bound by `except ... as name`, when the rule supplies one


class _Return(Exception):
    def __init__(self, value):
        self.value = value


class _GenClose(Exception):
    """thrown into a suspended generator body when its consumer abandons it (Python's GeneratorExit)"""


class LazyGen:
    """A generator object of interpreted code (scenarios with `lazy_generators`): the body of the generator function runs in a thread
    of its own that is handed control only while the consumer waits in next() - the two never run at the same time, so this is a
    coroutine, with Python's semantics: nothing of the body runs before the first next(), a `yield` suspends it, what the consumer
    does between two next() calls is visible to the body when it goes on."""

    def __init__(self, parent, m, fn, env, self_obj):
        import threading
        self.parent, self.m, self.fn, self.env, self.self_obj = parent, m, fn, env, self_obj
        self._resume = threading.Semaphore(0)
        self._produced = threading.Semaphore(0)
        self.started = self.finished = self.closing = False
        self.value = self.retval = self.exc = None
        self.thread = None

    def __iter__(self):
        return self

    def _run(self):
        sub = Interp(self.parent.repo, self.parent.ev, self.parent.sc, self.parent.self_cls)
        sub.depth = self.parent.depth
        sub._gen = self
        sub.frames = [(self.fn, self.m, self.self_obj)]
        try:
            try:
                sub.block(self.fn.body, self.env, self.m)
            except _Return as r_:
                self.retval = r_.value
        except _GenClose:
            pass
        except BaseException as ex_:  # handed to the consumer, raised there
            self.exc = ex_
        self.finished = True
        self._produced.release()

    def __next__(self):
        import threading
        if self.finished:
            raise StopIteration(self.retval)
        if not self.started:
            self.started = True
            try:
                threading.stack_size(32 * 1024 * 1024)
            except (ValueError, RuntimeError):
                pass
            self.thread = threading.Thread(target=self._run, daemon=True)
            self.thread.start()
        else:
            self._resume.release()
        self._produced.acquire()
        if self.exc is not None:
            ex_, self.exc = self.exc, None
            raise ex_
        if self.finished:
            raise StopIteration(self.retval)
        return self.value

    def handoff(self, v):
        """called in the generator's thread at a `yield`"""
        self.value = v
        self._produced.release()
        self._resume.acquire()
        if self.closing:
            raise _GenClose()
        thrown = self.__dict__.pop("thrown", None)
        if thrown is not None:
            raise thrown  # gen.throw(exc): the exception appears at the yield

    def close(self):
        if self.started and not self.finished:
            self.closing = True
            self._resume.release()
            self._produced.acquire()
        self.finished = True

    def throw(self, exc):
        """raise `exc` inside the suspended body (at its yield) and run it on -> the next yielded value; StopIteration when it ends"""
        if not self.started or self.finished:
            raise exc
        self.thrown = exc
        return self.__next__()


class CtxManager:
    """what calling a @contextmanager function of the repository gives (scenarios with `lazy_generators`): entering runs the body up
    to its yield, leaving runs the rest - with the exception thrown in at the yield when the block raised"""

    def __init__(self, gen: LazyGen, name: str):
        self.gen, self.name = gen, name




class _Continue(Exception):
    pass


class _Break(Exception):
    pass


@dataclass
class Scenario:
    reg_values: Dict[int, int] = field(default_factory=dict)  # id(RegSym) -> virtual qubit id known to the transpiler
    debug: bool = False
    hardware: bool = False
    fresh: List[RegSym] = field(default_factory=list)
    recorded: List[Tuple] = field(default_factory=list)  # for SDK gate calls (toolbox)
    overrides: Dict[str, Any] = field(default_factory=dict)  # repo function name -> checker-side semantics
    externals: Dict[str, Any] = field(default_factory=dict)  # dotted library name -> checker-side semantics for this scenario
    plain_registers: bool = False  # Register(...) builds an ordinary object (name, index) instead of a symbolic transpiler register
    max_depth: int = 0  # call nesting allowed (0: the interpreter's default of 8)
    ctypes_model: bool = False  # ctypes structures of the repository behave as ctypes makes them behave (nqsa/cmodel.py): truncating stores, bytes(), from_buffer_copy
    strict_text: bool = False  # an f-string whose parts cannot be printed is an analysis error (default: the placeholder "<fstring>", good enough for messages)
    run_constructors: bool = False  # Cls(...) of a repository class runs its __init__ / __post_init__ (default: the keyword arguments become the fields)


class Interp:
    """interpreter for circuit-building code"""

    MAX_DEPTH = 8

    def __init__(self, repo: Repo, ev: ConstEval, scenario: Scenario, self_cls: Optional[ClassInfo] = None):
        self.repo = repo
        self.ev = ev
        self.sc = scenario
        self.self_cls = self_cls
        self.depth = 0
        self.steps = 0

    # -- calls ------------------------------------------------------------
    def call_function(self, m, fn, args: List[Any], kwargs: Dict[str, Any], self_obj=None, base_env=None):
        self.depth += 1
        if self.depth > (getattr(self.sc, "max_depth", None) or self.MAX_DEPTH):
            if getattr(self.sc, "real_objects", False):
                self.depth -= 1
                raise EvalRaise("RecursionError", "maximum recursion depth exceeded")  # whole programs: calls nested this deep are a runaway recursion
            raise AnalysisError("circuit evaluation: inlining depth exceeded")
        if not hasattr(self, "frames"):
            self.frames = []
        self.frames.append((fn, m, self_obj))
        try:
            env: Dict[str, Any] = dict(base_env or {})  # (a closure starts from the environment it was defined in)
            env.pop("__nonlocal__", None)
            if base_env is not None:
                env["__outer__"] = base_env
            a = fn.args
            pos = [x.arg for x in a.posonlyargs + a.args]
            for p_ in pos + [x.arg for x in a.kwonlyargs]:
                env.pop(p_, None)
            vals = list(args)
            if self_obj is not None and pos and pos[0] in ("self", "cls"):
                env[pos[0]] = self_obj
                pos = pos[1:]
            for p, v in zip(pos, vals):
                env[p] = v
            if len(vals) > len(pos):
                if a.vararg is None:
                    raise EvalRaise("TypeError", f"{fn.name}() takes {len(pos)} positional arguments but {len(vals)} were given")
                env[a.vararg.arg] = tuple(vals[len(pos):])
            elif a.vararg is not None:
                env[a.vararg.arg] = ()
            named = set(pos) | {x.arg for x in a.kwonlyargs}
            extra = {}
            for k, v in kwargs.items():
                if k in named or a.kwarg is None:
                    env[k] = v  # (a keyword the function does not declare is bound all the same: rules pass model arguments by name)
                else:
                    extra[k] = v
            if a.kwarg is not None:
                env[a.kwarg.arg] = extra
            defaults = dict(zip([x.arg for x in (a.posonlyargs + a.args)][len(a.posonlyargs + a.args) - len(a.defaults):], a.defaults))
            for p, d in defaults.items():
                if p not in env:
                    env[p] = self.eval(d, env, m)
            for p, d in zip(a.kwonlyargs, a.kw_defaults):
                if p.arg not in env and d is not None:
                    env[p.arg] = self.eval(d, env, m)
            kinds = self.repo.__dict__.setdefault("_nqsa_genkind", {})
            gk = kinds.get(id(fn))
            if gk is None:
                # (has a plain yield, has any yield, is a @contextmanager) - read once per function
                own_ = list(A.walk_no_nested(fn))
                gk = (any(isinstance(n_, ast.Yield) for n_ in own_), any(isinstance(n_, (ast.Yield, ast.YieldFrom)) for n_ in own_),
                      "contextmanager" in {(dotted(d_) or "").split(".")[-1] for d_ in fn.decorator_list}, fn)
                kinds[id(fn)] = gk
            if getattr(self.sc, "lazy_generators", False) and not gk[2] and gk[1]:
                return LazyGen(self, m, fn, env, self_obj)  # calling a generator function runs nothing of it yet
            if getattr(self.sc, "lazy_generators", False) and gk[2] and gk[1]:
                return CtxManager(LazyGen(self, m, fn, env, self_obj), fn.name)
            produces = gk[0] and not gk[2]
            if produces:
                env["__yielded__"] = []
            try:
                self.block(fn.body, env, m)
            except _Return as r:
                return env["__yielded__"] if produces else r.value
            return env["__yielded__"] if produces else None
        finally:
            self.depth -= 1
            self.frames.pop()

    def _defining_class(self, fn):
        """the class of the repository whose body holds this function definition"""
        cache = getattr(self.repo, "_nqsa_fn_owner", None)
        if cache is None:
            cache = {}
            for mod in self.repo.modules.values():
                for c in mod.classes.values():
                    for st in c.node.body:
                        if isinstance(st, (ast.FunctionDef, ast.AsyncFunctionDef)):
                            cache[id(st)] = c
            self.repo._nqsa_fn_owner = cache
        return cache.get(id(fn))

    def super_call(self, name, args, kwargs, node):
        """super().name(...) inside a method: the next definition of `name` after the defining class in the receiver's MRO.  When the
        chain leaves the repository at ctypes.Structure, __init__ is the positional / keyword initialisation of the declared fields."""
        if not getattr(self, "frames", None):
            raise AnalysisError("circuit evaluation: super() outside a method")
        fn, m, self_obj = self.frames[-1]
        owner = self._defining_class(fn)
        recv = self_obj[1] if isinstance(self_obj, tuple) and self_obj and self_obj[0] == "class" else getattr(self_obj, "cls", None)
        if owner is None or recv is None:
            raise AnalysisError("circuit evaluation: super() in a function whose class is not known")
        mro = self.repo.mro(recv)
        if owner not in mro:
            raise AnalysisError("circuit evaluation: super() with a receiver outside the defining class")
        for k in mro[mro.index(owner) + 1:]:
            if name in k.methods:
                return self.call_function(k.module, k.methods[name], args, kwargs, self_obj=self_obj)
        if name == "__init__" and self.ev.is_struct(recv) and isinstance(self_obj, Obj) and getattr(self.sc, "ctypes_model", False):
            from . import cmodel
            try:
                cmodel.init(self.ev, self_obj, list(args), dict(kwargs), lambda x_: isinstance(x_, Obj))
            except cmodel.CTypeError as ex_:
                raise EvalRaise("TypeError", str(ex_))
            return None
        if name == "__init__" and self.ev.is_struct(recv) and isinstance(self_obj, Obj):
            from . import wire
            names = [f[0] for f in wire.struct_fields(self.ev, recv)]
            if len(args) > len(names) or any(k not in names for k in kwargs):
                raise EvalRaise("TypeError", "too many initializers")
            for n_, v_ in list(zip(names, args)) + list(kwargs.items()):
                self_obj.fields[n_] = v_
            return None
        if name in ("__init__", "__post_init__"):
            return None  # object.__init__ and friends
        raise AnalysisError(f"circuit evaluation: super().{name} leaves the repository")

    # -- statements -------------------------------------------------------
    def block(self, stmts, env, m):
        for st in stmts:
            self.stmt(st, env, m)

    def stmt(self, st, env, m):
        self.steps += 1
        sc_ = self.sc
        tb_ = sc_.__dict__.get("total_budget")
        if tb_ is not None:
            # a budget of statements shared by every interpreter of the scenario (the generator threads included), set and reset by the rule
            sc_.total_steps = sc_.__dict__.get("total_steps", 0) + 1
            if sc_.total_steps > tb_:
                raise StepLimit("the scenario's bound on executed statements is exceeded")
        if self.steps > (getattr(self.sc, "max_steps", None) or 200000):
            if getattr(self.sc, "max_steps", None):
                raise StepLimit("the scenario's bound on interpreter steps is exceeded")  # (the rule reads this as `does not terminate`)
            raise AnalysisError("circuit evaluation: step bound exceeded")
        if isinstance(st, ast.Expr):
            if isinstance(st.value, ast.Constant):
                return
            if isinstance(st.value, (ast.Yield, ast.YieldFrom)) and getattr(self, "_gen", None) is not None:
                self._yield(st.value, env, m)
                return
            if isinstance(st.value, (ast.Yield, ast.YieldFrom)):
                # a generator is followed through as straight-line code; what a function with plain `yield`s produces is collected
                # (call_function hands the collected list to the caller), what it delegates to with `yield from` is evaluated
                v_ = self.eval(st.value.value, env, m) if st.value.value is not None else None
                col = env.get("__yielded__")
                if col is not None:
                    if isinstance(st.value, ast.Yield):
                        col.append(v_)
                    elif isinstance(v_, (list, tuple)):
                        col.extend(v_)
                return
            self.eval(st.value, env, m)
            return
        if isinstance(st, ast.Assign):
            v = self.eval(st.value, env, m)
            for t in st.targets:
                self.assign(t, v, env, m)
            return
        if isinstance(st, ast.AnnAssign):
            if st.value is not None:
                self.assign(st.target, self.eval(st.value, env, m), env, m)
            return
        if isinstance(st, ast.AugAssign):
            cur = self.eval(st.target, env, m)
            v = self.eval(st.value, env, m)
            if isinstance(cur, list) and isinstance(st.op, ast.Add):
                # list += iterable extends the object in place (every other name bound to it sees the change) and rebinds the same object
                if not isinstance(v, (list, tuple, set, dict, str)):
                    raise EvalRaise("TypeError", f"'{type(v).__name__}' object is not iterable")
                cur.extend(list(v))  # list(v) first: `x += x` doubles x
                self.assign(st.target, cur, env, m)
                return
            self.assign(st.target, self.binop(st.op, cur, v, st), env, m)
            return
        if isinstance(st, ast.Return):
            raise _Return(self.eval(st.value, env, m) if st.value is not None else None)
        if isinstance(st, ast.If):
            if self.truth(self.eval(st.test, env, m)):
                self.block(st.body, env, m)
            else:
                self.block(st.orelse, env, m)
            return
        if isinstance(st, ast.For):
            it = self._iterable(self.eval(st.iter, env, m))
            if isinstance(it, list):
                it = _live(it)  # a list is iterated as Python does: by position in the live object, so a mutation during the loop shows
            n = 0
            for item in it:
                n += 1
                if n > (getattr(self.sc, "max_loop", None) or 64):
                    raise AnalysisError("circuit evaluation: loop bound (64) exceeded")
                self.assign(st.target, item, env, m)
                try:
                    self.block(st.body, env, m)
                except _Continue:
                    continue
                except _Break:
                    if isinstance(it, LazyGen):
                        it.close()
                    break
                except BaseException:
                    if isinstance(it, LazyGen):
                        it.close()
                    raise
            else:
                self.block(st.orelse, env, m)
            return
        if isinstance(st, ast.While):
            n = 0
            while self.truth(self.eval(st.test, env, m)):
                n += 1
                if n > (getattr(self.sc, "max_loop", None) or 64):
                    raise AnalysisError("circuit evaluation: loop bound (64) exceeded")
                try:
                    self.block(st.body, env, m)
                except _Continue:
                    continue
                except _Break:
                    break
            else:
                self.block(st.orelse, env, m)
            return
        if isinstance(st, ast.Continue):
            raise _Continue()
        if isinstance(st, ast.Break):
            raise _Break()
        if isinstance(st, ast.Try):
            try:
                self.block(st.body, env, m)
            except (_Return, _Break, _Continue):
                self.block(st.finalbody, env, m)  # leaving the try block through return / break / continue still runs `finally`
                raise
            except EvalRaise as e:
                for h in st.handlers:
                    names = []
                    if h.type is not None:
                        names = [dotted(x).split(".")[-1] for x in (h.type.elts if isinstance(h.type, ast.Tuple) else [h.type]) if dotted(x)]
                    if h.type is None or self._exc_caught(e.exc_name, names):
                        if h.name:
                            env[h.name] = getattr(e, "value", None) or Obj(None, {"__traceback__": None, "exc_name": e.exc_name, "args": (e.msg,)}, "exception")
                        if not hasattr(self, "_handled"):
                            self._handled = []
                        self._handled.append(e)
                        try:
                            self.block(h.body, env, m)
                        finally:
                            self._handled.pop()
                        break
                else:
                    self.block(st.finalbody, env, m)
                    raise
            else:
                self.block(st.orelse, env, m)  # the `else` of a try runs when the body raised nothing
            self.block(st.finalbody, env, m)
            return
        if isinstance(st, ast.Raise):
            name = "Exception"
            if st.exc is None and getattr(self, "_handled", None):
                raise self._handled[-1]  # a bare `raise` in a handler: the exception being handled goes on
            if st.exc is not None:
                f = st.exc.func if isinstance(st.exc, ast.Call) else st.exc
                name = (dotted(f) or "Exception").split(".")[-1]
                if getattr(self.sc, "real_objects", False):
                    # scenarios that run whole objects: which exception, and with what text, is computed as Python computes it
                    if isinstance(f, ast.Attribute) and f.attr == "__class__":
                        base = self.eval(f.value, env, m)
                        if isinstance(base, Obj) and base.kind == "exception":
                            name = base.fields.get("exc_name", name)
                    elif isinstance(st.exc, ast.Name) and isinstance(env.get(st.exc.id), Obj) and env[st.exc.id].kind == "exception":
                        ex0 = env[st.exc.id]
                        raise EvalRaise(ex0.fields.get("exc_name", "Exception"), self._to_str(ex0) or "")
                    msg = None
                    if isinstance(st.exc, ast.Call):
                        if st.exc.args:
                            try:
                                msg = self._to_str(self.eval(st.exc.args[0], env, m))
                            except (AnalysisError, EvalRaise):
                                msg = None
                        else:
                            msg = ""
                    if msg is not None:
                        raise EvalRaise(name, msg)
            raise EvalRaise(name, src(st)[:80])
        if isinstance(st, ast.Assert):
            if not self.truth(self.eval(st.test, env, m)):
                raise EvalRaise("AssertionError", src(st.test)[:80])
            return
        if isinstance(st, ast.Delete):
            for t in st.targets:
                if isinstance(t, ast.Subscript):
                    cont = self.eval(t.value, env, m)
                    key = self.eval(t.slice, env, m)
                    try:
                        del cont[self._hashable(key) if isinstance(cont, dict) else key]
                    except (KeyError, IndexError) as ex_:
                        raise EvalRaise(type(ex_).__name__, src(t)[:60])
                elif isinstance(t, ast.Name):
                    env.pop(t.id, None)
                else:
                    raise AnalysisError(f"circuit evaluation: del {src(t)[:40]}")
            return
        if isinstance(st, ast.Pass):
            return
        if isinstance(st, ast.Nonlocal):
            env.setdefault("__nonlocal__", set()).update(st.names)  # writes to these names go to the enclosing function's variables as well
            return
        if isinstance(st, (ast.FunctionDef, ast.AsyncFunctionDef)):
            env[st.name] = ("closure", st, env, m)
            return
        if isinstance(st, ast.ClassDef) and len(st.bases) == 1 and all(isinstance(b_, ast.Pass) or (isinstance(b_, ast.Expr) and isinstance(b_.value, ast.Constant)) for b_ in st.body):
            base = self.eval(st.bases[0], env, m)
            if isinstance(base, tuple) and base[0] == "class" and self.ev.is_struct(base[1]):
                env[st.name] = DynStruct(self.ev, base[1])
                return
        if isinstance(st, ast.With):
            self._with(st, 0, env, m)
            return
        raise AnalysisError(f"circuit evaluation: statement form {type(st).__name__} outside the enumerated idioms: {src(st)[:60]}")

    def _ctx_function(self, call, env, m):
        """the repository function behind `with f(...)` when it is a @contextmanager generator, with its bound arguments"""
        if not isinstance(call, ast.Call):
            return None
        try:
            f = self.eval(call.func, env, m)
        except AnalysisError:
            return None
        target = None
        if isinstance(f, tuple) and f and f[0] == "func":
            target = (f[1], f[2], None)
        elif isinstance(f, tuple) and f and f[0] == "boundmethod" and isinstance(f[1], Obj) and f[1].cls is not None:
            if f[1].kind == "self" and (f[2] in getattr(self.sc, "method_overrides", {}) or f[2] in self.sc.overrides):
                return None
            r = self.repo.lookup(f[1].cls, f[2])
            if r is not None:
                target = (r[0].module, r[1], f[1])
        if target is None:
            return None
        decs = {(dotted(d) or "").split(".")[-1] for d in target[1].decorator_list}
        if "contextmanager" not in decs:
            return None
        return target

    def _with(self, st, k, env, m):
        """with-items from the k-th on, then the body.  A @contextmanager function of the repository is run up to its `yield`, the
        body follows, then the rest of the function: on normal exit and when the body leaves by return / break / continue; when the
        body raises, only the `finally` blocks around the yield run (the exception is thrown in at the yield)."""
        if k == len(st.items):
            self.block(st.body, env, m)
            return
        it = st.items[k]
        tgt = self._ctx_function(it.context_expr, env, m)
        if tgt is None:
            v = self.eval(it.context_expr, env, m)
            if getattr(v, "_nqsa_model", False) and hasattr(v, "__enter__") and hasattr(v, "__exit__"):
                # a model object of the rule that is a context manager (a lock whose release is a point where another thread may act)
                entered = v.__enter__()
                if it.optional_vars is not None:
                    self.assign(it.optional_vars, entered, env, m)
                try:
                    self._with(st, k + 1, env, m)
                finally:
                    v.__exit__(None, None, None)
                return
            if isinstance(v, tuple) and v and v[0] == "suppress":
                try:
                    self._with(st, k + 1, env, m)
                except EvalRaise as ex_:
                    if not self._exc_caught(ex_.exc_name, v[1]):
                        raise
                return
            if isinstance(v, CtxManager):
                try:
                    entered = next(v.gen)
                except StopIteration:
                    raise EvalRaise("RuntimeError", "generator didn't yield")
                if it.optional_vars is not None:
                    self.assign(it.optional_vars, entered, env, m)
                try:
                    self._with(st, k + 1, env, m)
                except EvalRaise as ex_:
                    try:
                        v.gen.throw(ex_)
                    except StopIteration:
                        return  # the generator handled the exception and ended: it is suppressed
                    raise EvalRaise("RuntimeError", "generator didn't stop after throw()")
                except (_Return, _Break, _Continue):
                    try:
                        next(v.gen)
                    except StopIteration:
                        pass
                    raise
                try:
                    next(v.gen)
                except StopIteration:
                    return
                raise EvalRaise("RuntimeError", "generator didn't stop")
            if isinstance(v, Obj) and v.cls is not None and getattr(self.sc, "real_objects", False) and self.repo.lookup(v.cls, "__enter__") is not None \
                    and self.repo.lookup(v.cls, "__exit__") is not None:
                # a context manager class of the repository: __enter__, the body, __exit__ (with the exception's details when the body
                # raises; a true result swallows it) - also when the body leaves by return / break / continue
                entered = self.method(v, "__enter__", [], {}, it.context_expr)
                if it.optional_vars is not None:
                    self.assign(it.optional_vars, entered, env, m)
                try:
                    self._with(st, k + 1, env, m)
                except EvalRaise as ex_:
                    exc_obj = getattr(ex_, "value", None) or Obj(None, {"__traceback__": None, "exc_name": ex_.exc_name, "args": (ex_.msg,)}, "exception")
                    if self.truth(self.method(v, "__exit__", [("external", "builtins." + ex_.exc_name), exc_obj, None], {}, it.context_expr)):
                        return
                    raise
                except (_Return, _Break, _Continue):
                    self.method(v, "__exit__", [None, None, None], {}, it.context_expr)
                    raise
                self.method(v, "__exit__", [None, None, None], {}, it.context_expr)
                return
            if it.optional_vars is not None:
                self.assign(it.optional_vars, v, env, m)
            self._with(st, k + 1, env, m)
            return
        cm, cfn, cself = tgt
        call = it.context_expr
        args = []
        for a in call.args:
            if isinstance(a, ast.Starred):
                args.extend(self.eval(a.value, env, m))
            else:
                args.append(self.eval(a, env, m))
        kwargs = {kw.arg: self.eval(kw.value, env, m) for kw in call.keywords if kw.arg is not None}
        # bind parameters as call_function does
        cenv: Dict[str, Any] = {}
        a_ = cfn.args
        pos = [x.arg for x in a_.posonlyargs + a_.args]
        if cself is not None and pos and pos[0] in ("self", "cls"):
            cenv[pos[0]] = cself
            pos = pos[1:]
        for p_, v_ in zip(pos, args):
            cenv[p_] = v_
        cenv.update(kwargs)
        allp = [x.arg for x in (a_.posonlyargs + a_.args)]
        for p_, d_ in zip(allp[len(allp) - len(a_.defaults):], a_.defaults):
            if p_ not in cenv:
                cenv[p_] = self.eval(d_, cenv, cm)
        for p_, d_ in zip(a_.kwonlyargs, a_.kw_defaults):
            if p_.arg not in cenv and d_ is not None:
                cenv[p_.arg] = self.eval(d_, cenv, cm)
        body = [s_ for s_ in cfn.body if not (isinstance(s_, ast.Expr) and isinstance(s_.value, ast.Constant) and isinstance(s_.value.value, str))]

        def is_yield(s_):
            return isinstance(s_, ast.Expr) and isinstance(s_.value, ast.Yield)

        ys = [i for i, s_ in enumerate(body) if is_yield(s_)]
        fin = None
        if not ys:
            # try: PRE' ; yield ; POST'  finally: F   at the top level
            ts = [i for i, s_ in enumerate(body) if isinstance(s_, ast.Try) and not s_.handlers and any(is_yield(x) for x in s_.body)]
            if len(ts) != 1:
                raise AnalysisError(f"circuit evaluation: context manager {cfn.name} has no top-level yield")
            t_ = body[ts[0]]
            j = next(i for i, x in enumerate(t_.body) if is_yield(x))
            pre, ystmt, post, fin = body[:ts[0]] + t_.body[:j], t_.body[j], t_.body[j + 1:], (t_.finalbody, body[ts[0] + 1:])
        else:
            if len(ys) != 1:
                raise AnalysisError(f"circuit evaluation: context manager {cfn.name} yields more than once")
            pre, ystmt, post = body[:ys[0]], body[ys[0]], body[ys[0] + 1:]
        if sum(1 for n in ast.walk(cfn) if isinstance(n, (ast.Yield, ast.YieldFrom))) != 1:
            raise AnalysisError(f"circuit evaluation: context manager {cfn.name} yields more than once")
        self.block(pre, cenv, cm)
        yv = self.eval(ystmt.value.value, cenv, cm) if ystmt.value.value is not None else None
        if it.optional_vars is not None:
            self.assign(it.optional_vars, yv, env, m)
        try:
            self._with(st, k + 1, env, m)
        except EvalRaise:
            if fin is not None:
                self.block(fin[0], cenv, cm)
            raise
        except (_Return, _Break, _Continue):
            self.block(post, cenv, cm)
            if fin is not None:
                self.block(fin[0], cenv, cm)
                self.block(fin[1], cenv, cm)
            raise
        self.block(post, cenv, cm)
        if fin is not None:
            self.block(fin[0], cenv, cm)
            self.block(fin[1], cenv, cm)

    def assign(self, t, v, env, m):
        if isinstance(t, ast.Name):
            env[t.id] = v
            if t.id in env.get("__nonlocal__", ()):
                outer = env.get("__outer__")
                while outer is not None:
                    if t.id in outer or "__outer__" not in outer:
                        outer[t.id] = v
                        break
                    outer = outer.get("__outer__")
        elif isinstance(t, (ast.Tuple, ast.List)):
            vs = list(v)
            stars = [k for k, e in enumerate(t.elts) if isinstance(e, ast.Starred)]
            if len(stars) == 1:
                k = stars[0]
                after = len(t.elts) - k - 1
                if len(vs) < len(t.elts) - 1:
                    raise EvalRaise("ValueError", "unpack")
                for e, x in zip(t.elts[:k], vs[:k]):
                    self.assign(e, x, env, m)
                self.assign(t.elts[k].value, vs[k:len(vs) - after], env, m)
                for e, x in zip(t.elts[k + 1:], vs[len(vs) - after:]):
                    self.assign(e, x, env, m)
                return
            if stars or len(vs) != len(t.elts):
                raise EvalRaise("ValueError", "unpack")
            for e, x in zip(t.elts, vs):
                self.assign(e, x, env, m)
        elif isinstance(t, ast.Attribute):
            o = self.eval(t.value, env, m)
            if isinstance(o, Obj):
                name = t.attr
                if o.cls is not None and getattr(self.sc, "ctypes_model", False) and self.ev.is_struct(o.cls):
                    from . import cmodel
                    try:
                        if cmodel.store(self.ev, o, name, v, lambda x_: isinstance(x_, Obj)):
                            return
                    except cmodel.CTypeError as ex_:
                        raise EvalRaise("TypeError", str(ex_))
                if o.cls is not None and getattr(self.sc, "real_objects", False):
                    # whole objects: a property with a setter is set through its setter (the first class of the MRO that defines one)
                    for k_ in self.repo.mro(o.cls):
                        if name in k_.setters:
                            self.call_function(k_.module, k_.setters[name], [v], {}, self_obj=o)
                            return
                        if name in k_.methods or name in k_.attrs:
                            break
                if o.cls is not None:
                    name = self.repo.property_alias(o.cls, name) or name
                o.fields[name] = v
            elif getattr(o, "_nqsa_model", False):
                setattr(o, t.attr, v)
            else:
                raise AnalysisError(f"circuit evaluation: attribute store on {o!r}")
        elif isinstance(t, ast.Subscript):
            o = self.eval(t.value, env, m)
            k_ = self.eval(t.slice, env, m)
            if isinstance(o, Obj) and o.cls is not None and self.repo.lookup(o.cls, "__setitem__") is not None:
                self.method(o, "__setitem__", [k_, v], {}, t)  # a container class of the repository
                return
            try:
                o[self._hashable(k_) if isinstance(o, dict) else k_] = v
            except IndexError:
                raise EvalRaise("IndexError", src(t))
            except TypeError as ex_:
                if isinstance(o, (list, dict, bytearray)):
                    raise EvalRaise("TypeError", str(ex_))
                raise AnalysisError(f"circuit evaluation: item store on {type(o).__name__} ({src(t)[:50]})")
        else:
            raise AnalysisError(f"circuit evaluation: assignment target {src(t)}")

    # -- expressions ------------------------------------------------------
    def truth(self, v):
        if isinstance(v, np.ndarray):
            raise AnalysisError("truth of array")
        if isinstance(v, Obj) and v.cls is not None and v.kind in ("obj", "self"):
            # an object of a repository class: __bool__, else __len__, else true
            if self.repo.lookup(v.cls, "__bool__") is not None:
                return bool(self.method(v, "__bool__", [], {}, None))
            if self.repo.lookup(v.cls, "__len__") is not None:
                return self.method(v, "__len__", [], {}, None) != 0
            return True
        return bool(v)

    def _yield(self, e, env, m):
        """`yield v` / `yield from it` in the body of a lazy generator (this interpreter runs in the generator's thread): the value
        of the expression is what the consumer sends (nothing here: None) resp. what the delegate returns"""
        g = self._gen
        if isinstance(e, ast.Yield):
            g.handoff(self.eval(e.value, env, m) if e.value is not None else None)
            return None
        src_ = self.eval(e.value, env, m)
        if isinstance(src_, LazyGen):
            while True:
                try:
                    v_ = next(src_)
                except StopIteration as stop_:
                    return stop_.value
                try:
                    g.handoff(v_)
                except _GenClose:
                    src_.close()
                    raise
        for v_ in (src_ if src_ is not None else ()):
            g.handoff(v_)
        return None

    def eval(self, e, env, m):
        self.steps += 1
        if isinstance(e, ast.Constant):
            return e.value
        if isinstance(e, (ast.Yield, ast.YieldFrom)) and getattr(self, "_gen", None) is not None:
            return self._yield(e, env, m)
        if isinstance(e, ast.Name):
            if e.id in env:
                return env[e.id]
            if e.id in ("True", "False", "None"):
                return {"True": True, "False": False, "None": None}[e.id]
            if e.id == "__debug__":
                return True  # (the interpreter is not run with -O: assertions and `if __debug__` blocks are active)
            if e.id in getattr(self.sc, "globals", {}):
                return self.sc.globals[e.id]  # a module-level constant the caller evaluated with the constant evaluator
            return self.global_name(e.id, m)
        if isinstance(e, (ast.List, ast.Tuple)):
            vals = []
            for x in e.elts:
                if isinstance(x, ast.Starred):
                    vals.extend(self.eval(x.value, env, m))
                else:
                    vals.append(self.eval(x, env, m))
            return vals if isinstance(e, ast.List) else tuple(vals)
        if isinstance(e, ast.Dict):
            out_ = {}
            for k, v in zip(e.keys, e.values):
                if k is None:
                    out_.update(self.eval(v, env, m))  # {**other}
                else:
                    out_[self._hashable(self.eval(k, env, m))] = self.eval(v, env, m)
            return out_
        if isinstance(e, ast.BinOp):
            return self.binop(e.op, self.eval(e.left, env, m), self.eval(e.right, env, m), e)
        if isinstance(e, ast.UnaryOp):
            v = self.eval(e.operand, env, m)
            if isinstance(e.op, ast.Not):
                return not self.truth(v)
            if isinstance(e.op, ast.USub):
                return -v
            if isinstance(e.op, ast.UAdd):
                return +v
        if isinstance(e, ast.BoolOp):
            if isinstance(e.op, ast.And):
                r = True
                for x in e.values:
                    r = self.eval(x, env, m)
                    if not self.truth(r):
                        return r
                return r
            r = False
            for x in e.values:
                r = self.eval(x, env, m)
                if self.truth(r):
                    return r
            return r
        if isinstance(e, ast.Compare):
            left = self.eval(e.left, env, m)
            for op, c in zip(e.ops, e.comparators):
                right = self.eval(c, env, m)
                if not self.compare(op, left, right):
                    return False
                left = right
            return True
        if isinstance(e, ast.IfExp):
            return self.eval(e.body, env, m) if self.truth(self.eval(e.test, env, m)) else self.eval(e.orelse, env, m)
        if isinstance(e, ast.Attribute):
            return self.attribute(e, env, m)
        if isinstance(e, ast.Slice):
            return slice(self.eval(e.lower, env, m) if e.lower else None, self.eval(e.upper, env, m) if e.upper else None, self.eval(e.step, env, m) if e.step else None)
        if isinstance(e, ast.Subscript):
            o = self.eval(e.value, env, m)
            k = self.eval(e.slice, env, m)
            if isinstance(o, Obj) and o.cls is not None and self.repo.lookup(o.cls, "__getitem__") is not None:
                return self.method(o, "__getitem__", [k], {}, e)  # a container class of the repository
            if isinstance(o, tuple) and len(o) == 2 and o[0] == "class" and self.ev.is_enum(o[1]):
                mem_ = self.ev.enum_members(o[1])   # Enum["NAME"]
                if isinstance(k, str) and k in mem_:
                    return EnumMember(o[1].qualname, k, mem_[k])
                raise EvalRaise("KeyError", repr(k))
            if isinstance(k, slice):
                try:
                    return o[k]
                except TypeError as ex_:
                    raise AnalysisError(f"circuit evaluation: slice of {type(o).__name__} ({src(e)[:50]}): {ex_}")
            try:
                return o[self._hashable(k)] if isinstance(o, dict) else o[k]
            except KeyError:
                raise EvalRaise("KeyError", src(e))
            except IndexError:
                raise EvalRaise("IndexError", src(e))
        if isinstance(e, ast.Call):
            return self.call(e, env, m)
        if isinstance(e, ast.JoinedStr):
            parts = []
            for v in e.values:
                if isinstance(v, ast.Constant):
                    parts.append(str(v.value))
                elif isinstance(v, ast.FormattedValue) and v.format_spec is None and v.conversion in (-1, 115):
                    strict = getattr(self.sc, "strict_text", False)
                    try:
                        x = self.eval(v.value, env, m)
                    except (AnalysisError, EvalRaise):
                        if strict:
                            raise
                        return "<fstring>"
                    t_ = self._to_str(x)
                    if t_ is None:
                        if strict:
                            raise AnalysisError(f"circuit evaluation: text of {type(x).__name__} in an f-string ({src(v.value)[:40]})")
                        return "<fstring>"  # text of an object without a printer of its own: only used in messages
                    parts.append(t_)
                else:
                    return "<fstring>"
            return "".join(parts)
        if isinstance(e, ast.GeneratorExp) and getattr(self.sc, "lazy_generators", False):
            # a generator expression is lazy: its outermost iterable is evaluated now, everything else when the consumer asks for an item
            first = self._iterable(self.eval(e.generators[0].iter, env, m))

            def _items(k, env_, first=first):
                if k == len(e.generators):
                    yield self.eval(e.elt, env_, m)
                    return
                g = e.generators[k]
                it_ = first if k == 0 else self._iterable(self.eval(g.iter, env_, m))
                for item in it_:
                    env2 = dict(env_)
                    self.assign(g.target, item, env2, m)
                    if all(self.truth(self.eval(c_, env2, m)) for c_ in g.ifs):
                        yield from _items(k + 1, env2)
            return _items(0, env)
        if isinstance(e, (ast.ListComp, ast.GeneratorExp, ast.SetComp, ast.DictComp)):
            rows: List[Any] = []

            def gen(k, env_):
                if k == len(e.generators):
                    rows.append((self.eval(e.key, env_, m), self.eval(e.value, env_, m)) if isinstance(e, ast.DictComp) else self.eval(e.elt, env_, m))
                    return
                g = e.generators[k]
                if g.is_async:
                    raise AnalysisError("circuit evaluation: async comprehension")
                for item in self._iterable(self.eval(g.iter, env_, m)):
                    env2 = dict(env_)
                    self.assign(g.target, item, env2, m)
                    if all(self.truth(self.eval(c, env2, m)) for c in g.ifs):
                        gen(k + 1, env2)
            gen(0, env)
            if isinstance(e, ast.DictComp):
                return {self._hashable(k_): v_ for k_, v_ in rows}
            if isinstance(e, ast.SetComp):
                out_: List[Any] = []
                for r_ in rows:
                    if not any(self._eq(r_, x_) for x_ in out_):
                        out_.append(r_)
                try:
                    return set(out_)
                except TypeError:
                    return out_  # unhashable model objects: kept as a list without duplicates (membership and iteration behave alike)
            return rows
        if isinstance(e, ast.Lambda):
            return ("lambda", e, env, m)
        if isinstance(e, ast.NamedExpr) and isinstance(e.target, ast.Name):
            v = self.eval(e.value, env, m)
            env[e.target.id] = v
            return v
        raise AnalysisError(f"circuit evaluation: expression form {type(e).__name__} outside the enumerated idioms: {src(e)[:60]}")

    def _to_str(self, x):
        """str(x) as Python computes it, for the values the interpreter knows how to print (None: not known)"""
        if isinstance(x, (int, str, float)) or x is None:
            return str(x)
        if isinstance(x, EnumMember):
            return f"{x.enum.split(':')[-1]}.{x.name}"
        if isinstance(x, Obj) and x.kind == "exception":
            a_ = x.fields.get("args") or ()
            return str(a_[0]) if len(a_) == 1 else str(tuple(a_)) if a_ else ""
        if isinstance(x, Obj) and x.cls is not None and self.repo.lookup(x.cls, "__str__") is not None:
            r_ = self.repo.lookup(x.cls, "__str__")
            try:
                t_ = self.call_function(r_[0].module, r_[1], [], {}, self_obj=x)
            except (AnalysisError, EvalRaise):
                return None
            return t_ if isinstance(t_, str) else None
        return None

    def class_attr(self, la):
        """the value of a class-level attribute (la = (defining class, name, default expression)): evaluated once per scenario, so that a
        mutable class attribute is one shared object for every instance and subclass, as in Python"""
        store = self.sc.__dict__.setdefault("class_attrs", {})
        key = (la[0].qualname, la[1])
        if key not in store:
            store[key] = self.eval(la[2], {}, la[0].module)
        return store[key]

    def _iterable(self, v):
        """what a for loop / comprehension iterates: an enumeration class yields its members in definition order"""
        if isinstance(v, tuple) and len(v) == 2 and v[0] == "class" and self.ev.is_enum(v[1]):
            return [EnumMember(v[1].qualname, k_, mv_) for k_, mv_ in self.ev.enum_members(v[1]).items()]
        if isinstance(v, Obj) and v.cls is not None and v.kind in ("obj", "self"):
            if self.repo.lookup(v.cls, "__iter__") is not None:
                return self._iterable(self.method(v, "__iter__", [], {}, None))
            if self.repo.lookup(v.cls, "__getitem__") is not None and self.repo.lookup(v.cls, "__len__") is not None:
                return [self.method(v, "__getitem__", [i_], {}, None) for i_ in range(self.method(v, "__len__", [], {}, None))]
        return v

    def _hashable(self, k):
        # (an enumeration member is hashable and equal by enumeration, name and value: it is its own key, also for the builtin
        # dictionary methods - get, pop, setdefault - that the interpreted code calls directly)
        return k

    def compare(self, op, a, b):
        if isinstance(op, ast.Eq):
            return self._eq(a, b)
        if isinstance(op, ast.NotEq):
            return not self._eq(a, b)
        if isinstance(op, ast.Is):
            return a is b
        if isinstance(op, ast.IsNot):
            return a is not b
        if isinstance(op, (ast.In, ast.NotIn)) and isinstance(b, Obj) and b.cls is not None and b.kind in ("obj", "self"):
            if self.repo.lookup(b.cls, "__contains__") is not None:
                r_ = self.truth(self.method(b, "__contains__", [a], {}, None))
            else:
                r_ = any(self._eq(a, x) for x in self._iterable(b))
            return r_ if isinstance(op, ast.In) else not r_
        if isinstance(op, ast.In):
            return any(self._eq(a, x) for x in b)
        if isinstance(op, ast.NotIn):
            return not any(self._eq(a, x) for x in b)
        try:
            if isinstance(op, ast.Lt):
                return a < b
            if isinstance(op, ast.LtE):
                return a <= b
            if isinstance(op, ast.Gt):
                return a > b
            if isinstance(op, ast.GtE):
                return a >= b
        except TypeError as ex_:
            if all(isinstance(x_, (int, float, str, type(None), list, tuple, bytes)) for x_ in (a, b)):
                raise EvalRaise("TypeError", str(ex_))  # what Python raises for these two values
            raise AnalysisError(f"circuit evaluation: ordering of {type(a).__name__} and {type(b).__name__}")
        raise AnalysisError("compare op")

    def _eq(self, a, b):
        for x_, y_ in ((a, b), (b, a)):
            # a ctypes scalar type named in the interpreted code and the same type as the constant evaluator models it
            if isinstance(x_, tuple) and len(x_) == 2 and x_[0] == "external" and isinstance(x_[1], str) and x_[1].split(".")[-1] in CTYPES_SCALARS and type(y_).__name__ == "CScalar":
                return CTYPES_SCALARS[x_[1].split(".")[-1]] == y_
        if isinstance(a, EnumMember) and isinstance(b, EnumMember):
            return a.enum == b.enum and a.name == b.name
        if isinstance(a, (RegSym, Obj, Imm)) or isinstance(b, (RegSym, Obj, Imm)):
            if isinstance(a, Imm) and isinstance(b, Imm):
                return a.value == b.value
            if a is b:
                return True
            if isinstance(a, Obj) and isinstance(b, Obj) and a.cls is not None and a.cls is b.cls and a.kind == b.kind == "obj" and self.repo.is_dataclass(a.cls) \
                    and self.repo.lookup(a.cls, "__eq__") is None:
                # two instances of a dataclass are equal when their fields are (the generated __eq__)
                names = [f[0] for f in self.repo.dataclass_fields(a.cls)]
                return all(self._eq(self.getattr(a, n_), self.getattr(b, n_)) for n_ in names)
            return False
        if isinstance(a, np.ndarray) or isinstance(b, np.ndarray):
            return bool(np.array_equal(a, b))
        return a == b

    def binop(self, op, a, b, node):
        if isinstance(op, ast.Mult) and isinstance(a, tuple) and len(a) == 2 and a[0] == "class" and self.ev.is_struct(a[1]) and getattr(self.sc, "ctypes_model", False):
            return DynArrayType(self.ev, a[1], b)  # Struct * n
        if isinstance(op, ast.Mult) and isinstance(a, tuple) and len(a) == 2 and a[0] == "external" and a[1].split(".")[-1] in CTYPES_SCALARS and isinstance(b, int):
            return CArray(CTYPES_SCALARS[a[1].split(".")[-1]], b)  # ctypes.c_uint8 * n
        try:
            if isinstance(op, ast.Add):
                return a + b
            if isinstance(op, ast.Sub):
                return a - b
            if isinstance(op, ast.Mult):
                return a * b
            if isinstance(op, ast.Div):
                return a / b
            if isinstance(op, ast.FloorDiv):
                return a // b
            if isinstance(op, ast.Mod):
                return a % b
            if isinstance(op, ast.Pow):
                return a ** b
            if isinstance(op, ast.MatMult):
                return a @ b
            if isinstance(op, ast.BitAnd):
                return a & b
            if isinstance(op, ast.BitOr):
                return a | b
            if isinstance(op, ast.BitXor):
                return a ^ b
            if isinstance(op, ast.LShift):
                return a << b
            if isinstance(op, ast.RShift):
                return a >> b
        except ZeroDivisionError as e:
            raise EvalRaise("ZeroDivisionError", str(e))
        except TypeError as e:
            if getattr(self.sc, "real_objects", False) and all(isinstance(x_, (int, float, str, type(None), list, tuple, bytes, bool)) for x_ in (a, b)):
                raise EvalRaise("TypeError", str(e))  # what Python raises for these two plain values
            raise AnalysisError(f"circuit evaluation: {src(node)[:60]}: {e}")
        raise AnalysisError(f"circuit evaluation: operator in {src(node)[:60]}")

    def global_name(self, name, m):
        if name in ("int", "float", "str", "tuple", "list", "bool", "dict", "set", "frozenset", "bytes", "setattr", "slice", "bytearray", "complex", "object", "type"):
            return ("external", "builtins." + name)
        if name in self._BUILTIN_EXC_BASE or name in ("Exception", "BaseException"):
            return ("external", "builtins." + name)  # an exception class named as a value (suppress(KeyError), a tuple of classes)
        r = self.repo.resolve(m, name)
        if r is None:
            # a module-level name bound by tuple unpacking: `A, B = <expr>`
            for st in m.tree.body:
                if isinstance(st, ast.Assign) and len(st.targets) == 1 and isinstance(st.targets[0], (ast.Tuple, ast.List)):
                    names = [t.id if isinstance(t, ast.Name) else None for t in st.targets[0].elts]
                    if name in names:
                        v = list(self.eval(st.value, {}, m))
                        if len(v) != len(names):
                            raise EvalRaise("ValueError", "unpack")
                        return v[names.index(name)]
            import builtins as _b
            if getattr(self.sc, "real_objects", False) and not hasattr(_b, name):
                # whole programs: a name that is neither local, nor bound in the module, nor a builtin does not exist
                raise EvalRaise("NameError", f"name '{name}' is not defined")
            raise AnalysisError(f"circuit evaluation: unresolved name {name}")
        return self.global_value(r, name)

    def global_value(self, r, name):
        kind = r[0]
        if kind == "class":
            return ("class", r[1])
        if kind == "func":
            return ("func", r[1], r[2])
        if kind == "module":
            return ("module", r[1])
        if kind == "external":
            if r[1] in ("numpy.pi", "math.pi"):
                return math.pi
            return ("external", r[1])
        if kind == "const":
            # a module-level object is one object for everybody who reads the name (a table two classes share is shared): evaluated once per scenario
            store = self.sc.__dict__.setdefault("module_globals", {})
            key = (r[1].name, id(r[2]))
            if key not in store:
                try:
                    store[key] = self.eval(r[2], {}, r[1])
                    if isinstance(store[key], (list, dict, set)):
                        self._module_level_updates(name, r[1], r[2])
                    if isinstance(store[key], NamedTupleModel):
                        # NAME.__new__.__defaults__ = (...) at module level belongs to the definition of the tuple class
                        for st_ in r[1].tree.body:
                            if isinstance(st_, ast.Assign) and len(st_.targets) == 1 and dotted(st_.targets[0]) == f"{name}.__new__.__defaults__":
                                store[key].new_proxy.__defaults__ = self.eval(st_.value, {}, r[1])
                except AnalysisError:
                    # (a constant computed from library types, e.g. a width from ctypes.sizeof: the constant evaluator models those)
                    try:
                        v_ = self.ev.eval(r[2], r[1])
                    except Unknown:
                        raise
                    if not isinstance(v_, (int, float, str, bool, bytes, type(None))):
                        raise
                    store[key] = v_
            return store[key]
        if kind == "classattr":
            c = r[1]
            if self.ev.is_enum(c):
                return self.ev._class_attr(c, r[2])
            parts_ = r[2].split(".")
            la = self.repo.lookup_attr(c, parts_[0])
            if la is not None and la[2] is not None:
                v_ = self.class_attr((la[0], parts_[0], la[2]))  # (one object per scenario, whoever reads it)
                for a_ in parts_[1:]:  # Cls.ATTR.method: the rest of the chain is read from the value
                    v_ = self.getattr(v_, a_)
                return v_
        raise AnalysisError(f"circuit evaluation: cannot evaluate global {name}")

    def _module_level_updates(self, name, mod, value_node):
        """a module-level container is what the module's top-level code leaves behind: the statements after its definition that change
        it in place (`NAME.append(...)`, `NAME[k] = v`, `NAME += ...`, loops and tests around such statements) are executed once, in
        order, when the name is first read"""
        body = mod.tree.body
        start = next((k_ for k_, st_ in enumerate(body) if isinstance(st_, (ast.Assign, ast.AnnAssign)) and st_.value is value_node), None)
        if start is None:
            return

        def changes(st_) -> bool:
            for n_ in ast.walk(st_):
                if isinstance(n_, ast.Call) and isinstance(n_.func, ast.Attribute) and isinstance(n_.func.value, ast.Name) and n_.func.value.id == name \
                        and n_.func.attr in ("append", "extend", "insert", "update", "add", "setdefault", "pop", "remove", "discard", "clear", "sort", "reverse"):
                    return True
                if isinstance(n_, ast.Subscript) and isinstance(n_.value, ast.Name) and n_.value.id == name and isinstance(n_.ctx, (ast.Store, ast.Del)):
                    return True
                if isinstance(n_, ast.AugAssign) and isinstance(n_.target, ast.Name) and n_.target.id == name:
                    return True
            return False

        def registers(dec_) -> bool:
            """the decorator is (a call of) a function of this module whose body mentions the container: a registry filled at import"""
            f_ = dec_.func if isinstance(dec_, ast.Call) else dec_
            fn_ = mod.functions.get(f_.id) if isinstance(f_, ast.Name) else None
            return fn_ is not None and any(isinstance(n_, ast.Name) and n_.id == name for n_ in ast.walk(fn_))

        env: Dict[str, Any] = {}
        for st_ in body[start + 1:]:
            if isinstance(st_, (ast.FunctionDef, ast.AsyncFunctionDef, ast.ClassDef)):
                for dec_ in reversed(st_.decorator_list):
                    if registers(dec_):
                        target_ = ("func", mod, st_) if not isinstance(st_, ast.ClassDef) else ("class", mod.classes[st_.name])
                        self.apply(self.eval(dec_, env, mod), [target_], {}, dec_, mod)
                continue
            if isinstance(st_, (ast.Import, ast.ImportFrom)):
                continue
            if isinstance(st_, (ast.Assign, ast.AnnAssign)) and any(isinstance(t_, ast.Name) and t_.id == name for t_ in (st_.targets if isinstance(st_, ast.Assign) else [st_.target])):
                break  # the name is bound anew: a different object from here on
            if isinstance(st_, (ast.Expr, ast.For, ast.If, ast.AugAssign, ast.Assign, ast.With)) and changes(st_):
                if isinstance(st_, ast.AugAssign):
                    cur = self.global_name(name, mod)
                    v_ = self.eval(st_.value, env, mod)
                    if isinstance(cur, list) and isinstance(st_.op, ast.Add):
                        cur.extend(v_)
                    elif isinstance(cur, (set, dict)) and isinstance(st_.op, ast.BitOr):
                        cur.update(v_)
                    else:
                        raise AnalysisError(f"circuit evaluation: module-level `{src(st_)[:60]}`")
                    continue
                self.stmt(st_, env, mod)

    def attribute(self, e, env, m):
        # dotted global (module.attr chains)
        d = dotted(e)
        if d is not None and d.split(".")[0] not in env:
            r = self.repo.resolve(m, d)
            if r is not None and not (r[0] == "const" and "." in d and self.repo.resolve(m, d.rsplit(".", 1)[0]) == r):
                try:
                    return self.global_value(r, d)
                except AnalysisError:
                    pass  # e.g. a method of a module-level constant: evaluate the constant, then take the attribute
        o = self.eval(e.value, env, m)
        return self.getattr(o, e.attr, e)

    def getattr(self, o, attr, node=None):
        if isinstance(o, NamedTupleModel) and attr == "__new__":
            return o.new_proxy
        if getattr(o, "_nqsa_model", False):
            return getattr(o, attr)  # a model object supplied by the rule (plain Python, its methods are called as they are)
        if isinstance(o, tuple) and hasattr(o, "_fields") and attr in ("_replace", "_asdict", "_fields") + tuple(o._fields):
            if attr == "_replace":
                def _replace(**k_):
                    try:
                        return o._replace(**k_)
                    except ValueError as ex_:
                        raise EvalRaise("ValueError", str(ex_))
                return _replace
            return getattr(o, attr)  # an instance of a namedtuple class of the repository
        if isinstance(o, NTObj) and attr in ("_replace", "_asdict", "_fields", "count", "index"):
            if attr == "_fields":
                return o.nt_names
            if attr == "_asdict":
                return lambda o_=o: dict(zip(o_.nt_names, o_))
            if attr in ("count", "index"):
                return getattr(tuple(o), attr)

            def _nt_replace(o_=o, **k_):
                bad_ = [x_ for x_ in k_ if x_ not in o_.nt_names]
                if bad_:
                    raise EvalRaise("ValueError", f"Got unexpected field names: {bad_!r}")
                return NTObj(o_.cls, o_.nt_names, [k_.get(n_, v_) for n_, v_ in zip(o_.nt_names, o_)])
            return _nt_replace
        if isinstance(o, Obj):
            if attr == "__class__" and o.cls is not None:
                return ("class", o.cls)
            if attr == "__dict__" and o.cls is not None and not self.ev.is_struct(o.cls):
                return o.fields  # the instance dictionary itself (writes through it are writes to the object)
            if o.kind == "self":
                if attr == "_debug":
                    return self.sc.debug
                if attr in o.fields:
                    return o.fields[attr]
                if o.cls is not None:
                    r = self.repo.lookup(o.cls, attr)
                    if r is not None and any(getattr(d, "id", getattr(d, "attr", None)) == "property" for d in r[1].decorator_list):
                        al = self.repo.property_alias(o.cls, attr)
                        if al is not None and al in o.fields:
                            return o.fields[al]
                        return self.call_function(r[0].module, r[1], [], {}, self_obj=o)  # a computed property is computed
                    if r is None:
                        la = self.repo.lookup_attr(o.cls, attr)
                        if la is not None and la[2] is not None:
                            return self.class_attr((la[0], attr, la[2]))  # a class attribute read through the instance
                    if r is None and attr not in self.sc.overrides and attr not in getattr(self.sc, "method_overrides", {}) and attr not in ("get_reg_value", "get_unused_register"):
                        # neither a field of this scenario's object, nor a method, property or class attribute of its class
                        raise AnalysisError(f"circuit evaluation: attribute {attr} of the modelled {o.cls.name} object is not part of the scenario")
                return ("boundmethod", o, attr)
            if o.kind in ("qubit", "future"):
                if attr in ("_conn", "connection"):
                    return Obj(None, {}, "conn")
                if attr in o.fields and attr != "name":
                    return o.fields[attr]  # state kept on the recorder (set by the interpreted code or pre-filled by the caller)
                return ("boundmethod", o, attr)
            if o.cls is not None:
                al = self.repo.property_alias(o.cls, attr)
                if al is not None:
                    attr = al
            if attr in o.fields:
                return o.fields[attr]
            if o.cls is not None:
                # dataclass default
                for fname, ann, val, k in self.repo.dataclass_fields(o.cls):
                    if fname == attr:
                        v_ = self._dc_default(val, k.module)
                        if isinstance(v_, (list, dict, set)):
                            o.fields[attr] = v_  # (a default made by a factory belongs to this instance from now on)
                        return v_
                r = self.repo.lookup(o.cls, attr)
                if r is not None:
                    if any(getattr(d, "id", getattr(d, "attr", None)) == "property" for d in r[1].decorator_list):
                        return self.call_function(r[0].module, r[1], [], {}, self_obj=o)  # a computed property is computed
                    return ("boundmethod", o, attr)
                if attr == "_fields_" and self.ev.is_struct(o.cls):
                    return self.getattr(("class", o.cls), attr)
                la = self.repo.lookup_attr(o.cls, attr)
                if la is not None and la[2] is not None and (not self.repo.is_dataclass(la[0]) or attr not in [f_[0] for f_ in self.repo.dataclass_fields(la[0])]):
                    return self.class_attr((la[0], attr, la[2]))  # (in a dataclass only annotated names are fields)
                if getattr(self.sc, "ctypes_model", False) and self.ev.is_struct(o.cls):
                    raise EvalRaise("AttributeError", f"'{o.cls.name}' object has no attribute '{attr}'")
                if getattr(self.sc, "real_objects", False):
                    # every object of the scenario was built by its own constructor: what it does not have, it does not have
                    raise EvalRaise("AttributeError", f"'{o.cls.name}' object has no attribute '{attr}'")
            raise AnalysisError(f"circuit evaluation: attribute {attr} of {o!r}")
        if isinstance(o, Imm):
            if attr == "value":
                return o.value
        if isinstance(o, EnumMember):
            if attr == "value":
                return o.value
            if attr == "name":
                return o.name
        if isinstance(o, tuple) and o and o[0] == "external" and o[1].startswith("builtins.") and attr in ("__name__", "__qualname__", "__mro__"):
            n_ = o[1].split(".", 1)[1]
            return n_ if attr != "__mro__" else tuple(("external", "builtins." + x_) for x_ in ([n_] + (["int"] if n_ == "bool" else []) + (["object"] if n_ != "object" else [])))
        if isinstance(o, tuple) and o and o[0] == "external":
            if o[1] + "." + attr in ("numpy.pi", "math.pi"):
                return math.pi
            return ("external", o[1] + "." + attr)
        if isinstance(o, tuple) and o and o[0] in ("func", "closure", "boundmethod", "classmethod") and attr in ("__name__", "__qualname__", "__doc__"):
            if attr == "__doc__":
                return None
            return o[2].name if o[0] == "func" else o[1].name if o[0] == "closure" else o[2]
        if isinstance(o, tuple) and o and o[0] == "class":
            c = o[1]
            if attr in ("__name__", "__qualname__"):
                return c.name
            if attr == "__mro__":
                out_ = [("class", k_) for k_ in self.repo.mro(c)]
                for k_ in self.repo.mro(c):
                    for b_ in k_.node.bases:
                        if isinstance(b_, ast.Name) and b_.id in ("int", "str", "float", "list", "dict", "tuple", "Exception") and ("external", "builtins." + b_.id) not in out_:
                            out_.append(("external", "builtins." + b_.id))
                return tuple(out_ + [("external", "builtins.object")])
            if attr == "__bases__":
                return tuple(("class", k_) for k_ in self.repo.mro(c)[1:2]) or (("external", "builtins.object"),)
            if attr == "_fields_" and self.ev.is_struct(c):
                la = self.repo.lookup_attr(c, "_fields_")
                if la is not None and la[2] is not None:
                    # the field list of a ctypes structure as the constant evaluator reads it: (name, type[, bits]) with modelled types
                    return [tuple(f_) for f_ in self.ev.eval(la[2], la[0].module)]
            if attr == "from_buffer_copy" and getattr(self.sc, "ctypes_model", False) and self.ev.is_struct(c):
                from . import cmodel

                def _decode(raw, offset=0, c=c):
                    try:
                        return cmodel.decode(self.ev, c, bytes(raw)[offset:], lambda k_: Obj(k_, {}))
                    except ValueError as ex_:
                        raise EvalRaise("ValueError", str(ex_))
                    except TypeError as ex_:
                        raise EvalRaise("TypeError", str(ex_))
                return _decode
            if self.ev.is_enum(c):
                return self.ev._class_attr(c, attr)
            if self.repo.is_namedtuple(c) and attr in ("_fields", "_make"):
                if attr == "_fields":
                    return tuple(f_[0] for f_ in self.repo.namedtuple_fields(c))
                return lambda it_, c_=c: self._make_namedtuple(c_, list(self._iterable(it_)), {})
            la = self.repo.lookup_attr(c, attr)
            if la is not None and la[2] is not None:
                return self.class_attr((la[0], attr, la[2]))
            if self.repo.lookup(c, attr) is not None:
                return ("classmethod", c, attr)
        if isinstance(o, tuple) and o and o[0] == "module":
            r = self.repo.resolve(o[1], attr)
            if r is not None:
                return self.global_value(r, attr)
        if isinstance(o, np.ndarray) and attr == "T":
            return o.T
        if isinstance(o, RegSym) and attr == "name":
            return ("external", "RegisterName.Q")
        if isinstance(o, (list, set, dict, frozenset)) and attr == "__contains__":
            return lambda x_, o_=o: self.compare(ast.In(), x_, o_)  # membership as the interpreter decides it (value equality of its objects)
        if isinstance(o, (str, list, set, dict, bytes, bytearray, tuple, frozenset)) and (not attr.startswith("_") or attr in ("__getitem__", "__len__", "__iter__", "__contains__")) and hasattr(o, attr) and not (isinstance(o, tuple) and o and isinstance(o[0], str) and o[0] in ("class", "func", "external", "boundmethod", "closure", "lambda", "partial", "classmethod", "module")):
            return getattr(o, attr)
        if isinstance(o, slice) and attr in ("start", "stop", "step"):
            return getattr(o, attr)
        if isinstance(o, (int, float)) and not isinstance(o, bool) and attr in ("real", "imag", "numerator", "denominator"):
            return getattr(o, attr)
        if o is None or isinstance(o, (bool, int, float)):
            raise EvalRaise("AttributeError", f"{type(o).__name__} has no attribute {attr} ({src(node)[:50] if node is not None else ''})")
        raise AnalysisError(f"circuit evaluation: attribute {attr} of {type(o).__name__} ({src(node)[:50] if node is not None else ''})")

    class _DefaultDict(dict):
        def __init__(self, factory=None):
            super().__init__()
            self.factory = factory

        def __missing__(self, k):
            if self.factory is None:
                raise KeyError(k)
            self[k] = self.factory()
            return self[k]

    @staticmethod
    def _defaultdict(factory=None, *a_, **k_):
        f = {("external", "builtins.list"): list, ("external", "builtins.dict"): dict, ("external", "builtins.set"): set, ("external", "builtins.int"): int}.get(factory if isinstance(factory, tuple) else None)
        if factory is not None and f is None:
            raise AnalysisError(f"circuit evaluation: defaultdict({factory!r})")
        return Interp._DefaultDict(f)

    EXTERNAL = {
        "numpy.sqrt": lambda x: np.sqrt(x), "math.sqrt": math.sqrt, "numpy.array": lambda x, **kw: np.array(x, dtype=complex),
        "numpy.eye": lambda n: np.eye(n, dtype=complex), "numpy.kron": np.kron, "numpy.exp": np.exp, "numpy.cos": np.cos, "numpy.sin": np.sin,
        "numpy.diag": lambda x: np.diag(x).astype(complex),
        "operator.add": lambda a, b: a + b, "operator.sub": lambda a, b: a - b, "operator.mul": lambda a, b: a * b, "operator.mod": lambda a, b: a % b,
        "operator.floordiv": lambda a, b: a // b, "operator.eq": lambda a, b: a == b, "operator.ne": lambda a, b: a != b, "operator.lt": lambda a, b: a < b,
        "operator.le": lambda a, b: a <= b, "operator.gt": lambda a, b: a > b, "operator.ge": lambda a, b: a >= b, "operator.neg": lambda a: -a,
        "operator.not_": lambda a: not a, "operator.truth": lambda a: bool(a), "operator.and_": lambda a, b: a & b, "operator.or_": lambda a, b: a | b,
        "operator.xor": lambda a, b: a ^ b, "operator.lshift": lambda a, b: a << b, "operator.rshift": lambda a, b: a >> b, "operator.pow": lambda a, b: a ** b,
        "operator.is_": lambda a, b: a is b, "operator.is_not": lambda a, b: a is not b, "operator.index": lambda a: a.__index__(),
        "operator.truediv": lambda a, b: a / b, "operator.abs": abs, "operator.concat": lambda a, b: a + b,
        "bisect.bisect": __import__("bisect").bisect, "bisect.bisect_right": __import__("bisect").bisect_right, "bisect.bisect_left": __import__("bisect").bisect_left,
        "collections.OrderedDict": dict, "collections.Counter": __import__("collections").Counter, "collections.ChainMap": __import__("collections").ChainMap,
        "collections.deque": __import__("collections").deque,
    }

    def call(self, e: ast.Call, env, m):
        fname = dotted(e.func)
        # builtins
        if fname in ("len", "range", "list", "tuple", "int", "float", "abs", "min", "max", "sum", "enumerate", "zip", "reversed", "sorted", "str", "bool", "all", "any", "set", "slice",
                     "divmod", "round", "dict", "frozenset", "bytes", "pow", "map", "filter", "iter", "format", "repr", "callable", "print") and fname not in env:
            args = []
            for a in e.args:
                if isinstance(a, ast.Starred):
                    args.extend(self.eval(a.value, env, m))
                else:
                    args.append(self.eval(a, env, m))
            if fname == "str" and len(args) == 1 and isinstance(args[0], Obj) and args[0].cls is not None and self.repo.lookup(args[0].cls, "__str__") is not None:
                r_ = self.repo.lookup(args[0].cls, "__str__")
                return self.call_function(r_[0].module, r_[1], [], {}, self_obj=args[0])
            if fname == "len" and len(args) == 1 and isinstance(args[0], Obj) and args[0].cls is not None and self.repo.lookup(args[0].cls, "__len__") is not None:
                r_ = self.repo.lookup(args[0].cls, "__len__")
                return self.call_function(r_[0].module, r_[1], [], {}, self_obj=args[0])
            if fname == "bytes" and len(args) == 1 and isinstance(args[0], Obj) and args[0].kind == "cscalar" and "_ctype" in args[0].fields:
                t_ = args[0].fields["_ctype"]
                return (args[0].fields["value"] & ((1 << (8 * t_.size)) - 1)).to_bytes(t_.size, "little")
            if fname == "bytes" and len(args) == 1 and isinstance(args[0], Obj) and args[0].cls is not None:
                if getattr(self.sc, "ctypes_model", False) and self.ev.is_struct(args[0].cls):
                    from . import cmodel
                    return cmodel.encode(self.ev, args[0])
                r_ = self.repo.lookup(args[0].cls, "__bytes__")
                if r_ is not None:
                    return self.call_function(r_[0].module, r_[1], [], {}, self_obj=args[0])
            if fname == "enumerate" and args and isinstance(args[0], list):
                return _LiveEnumerate(args[0], args[1] if len(args) > 1 else 0)
            if fname in ("map", "filter") and len(args) >= 2:
                fn_ = args[0]
                call_ = (lambda *xs: self.apply(fn_, list(xs), {}, e, m)) if fn_ is not None else (lambda x_: x_)
                if fname == "map":
                    return [call_(*xs) for xs in zip(*[self._iterable(a_) for a_ in args[1:]])]
                return [x_ for x_ in self._iterable(args[1]) if self.truth(call_(x_))]
            if fname == "print":
                return None
            if fname == "iter" and len(args) == 1:
                return list(self._iterable(args[0]))  # an iterator is modelled by the list of what it will yield (consumed in order, once, by the callers the rules meet)
            if fname == "format" and len(args) in (1, 2):
                t_ = self._to_str(args[0])
                if len(args) == 2 and args[1] != "":
                    return format(args[0], args[1])
                if t_ is None:
                    raise AnalysisError(f"circuit evaluation: format() of {type(args[0]).__name__}")
                return t_
            if fname == "callable" and len(args) == 1:
                return callable(args[0]) or (isinstance(args[0], tuple) and bool(args[0]) and args[0][0] in ("func", "boundmethod", "closure", "lambda", "class", "classmethod", "partial", "external"))
            if fname == "repr" and len(args) == 1 and isinstance(args[0], (int, str, float, type(None), tuple, list)):
                return repr(args[0])
            if fname in ("len", "list", "tuple", "iter", "sorted", "reversed", "enumerate", "set") and args and isinstance(args[0], tuple) and len(args[0]) == 2 and args[0][0] == "class" \
                    and isinstance(args[0][1], ClassInfo) and self.ev.is_enum(args[0][1]):
                args = [self._iterable(args[0])] + list(args[1:])  # an enumeration class is the sequence of its members
            if fname in ("bytes", "len", "int", "bool", "iter", "list", "tuple") and len(args) == 1 and isinstance(args[0], Obj) and args[0].cls is not None:
                # the conversion protocols of a class of the repository
                dunder = {"bytes": "__bytes__", "len": "__len__", "int": "__int__", "bool": "__bool__", "iter": "__iter__", "list": "__iter__", "tuple": "__iter__"}[fname]
                if self.repo.lookup(args[0].cls, dunder) is not None:
                    r_ = self.method(args[0], dunder, [], {}, e)
                    return {"list": list, "tuple": tuple}.get(fname, lambda x_: x_)(r_)
            f = {"len": len, "range": lambda *a: list(range(*a)), "list": list, "tuple": tuple, "int": int, "float": float, "abs": abs, "min": min, "max": max,
                 "sum": sum, "enumerate": lambda x, *a: list(enumerate(x, *a)), "zip": lambda *a: list(zip(*a)), "reversed": lambda x: list(reversed(x)),
                 "sorted": sorted, "str": str, "bool": bool, "all": all, "any": any, "set": set, "slice": slice,
                 "divmod": divmod, "round": round, "dict": dict, "frozenset": frozenset, "bytes": bytes, "pow": pow}[fname]
            kw = {}
            for k in e.keywords:
                if k.arg is None:
                    raise AnalysisError(f"circuit evaluation: ** in a call of {fname}")
                v = self.eval(k.value, env, m)
                if isinstance(v, tuple) and v and v[0] in ("lambda", "closure", "func", "boundmethod", "partial", "classmethod", "class"):
                    v = (lambda fv: (lambda *a, **k_: self.apply(fv, list(a), k_, e, m)))(v)
                kw[k.arg] = v
            return f(*args, **kw)
        if fname in ("count", "itertools.count") and not getattr(self.sc, "lazy_generators", False):
            # an unbounded counter is cut off after 65 values; a search that needs more exceeds the loop bound and is reported
            args = [self.eval(a, env, m) for a in e.args]
            start = args[0] if args else 0
            step = args[1] if len(args) > 1 else 1
            return [start + k * step for k in range(65)]
        if fname == "next" and e.args:
            seq = self.eval(e.args[0], env, m)
            if hasattr(seq, "__next__"):
                try:
                    return next(seq)  # a real iterator (a lazy generator of interpreted code, an itertools object): advanced by one
                except StopIteration:
                    if len(e.args) > 1:
                        return self.eval(e.args[1], env, m)
                    raise EvalRaise("StopIteration", "")
            for x in seq:
                return x
            if len(e.args) > 1:
                return self.eval(e.args[1], env, m)
            raise EvalRaise("StopIteration", "")
        if fname == "type" and len(e.args) == 1 and "type" not in env:
            return self._type_of(self.eval(e.args[0], env, m))
        if fname == "iter" and len(e.args) == 2 and "iter" not in env:
            fn_, sentinel = self.eval(e.args[0], env, m), self.eval(e.args[1], env, m)

            def _until(fn_=fn_, sentinel=sentinel):
                for _ in range(getattr(self.sc, "max_loop", None) or 64):
                    v_ = self.apply(fn_, [], {}, e, m)
                    if v_ is sentinel or (not isinstance(v_, (Obj, tuple)) and not isinstance(sentinel, (Obj, tuple)) and v_ == sentinel):
                        return
                    yield v_
                raise AnalysisError("circuit evaluation: loop bound exceeded in iter(callable, sentinel)")
            return _until()
        if fname in ("getattr", "hasattr", "setattr") and len(e.args) >= 2:
            o = self.eval(e.args[0], env, m)
            name = self.eval(e.args[1], env, m)
            if not isinstance(name, str):
                raise AnalysisError(f"circuit evaluation: {fname} with a non-string name")
            if fname == "setattr":
                self.assign(ast.Attribute(value=e.args[0], attr=name, ctx=ast.Store()), self.eval(e.args[2], env, m), env, m)
                return None
            try:
                v = self.getattr(o, name, e)
            except AnalysisError:
                if fname == "hasattr":
                    return False
                if len(e.args) > 2:
                    return self.eval(e.args[2], env, m)
                raise
            return True if fname == "hasattr" else v
        if fname == "type" and len(e.args) == 3 and "type" not in env:
            bases = self.eval(e.args[1], env, m)
            ns = self.eval(e.args[2], env, m)
            if isinstance(bases, tuple) and len(bases) == 1 and isinstance(bases[0], tuple) and bases[0][0] == "class" and self.ev.is_struct(bases[0][1]) and isinstance(ns, dict) and set(ns) <= {"_fields_"}:
                return DynStruct(self.ev, bases[0][1], ns.get("_fields_"))
            raise AnalysisError("circuit evaluation: type(name, bases, namespace) of something other than a ctypes structure")
        if fname in ("ctypes.sizeof", "sizeof") and len(e.args) == 1:
            x = self.eval(e.args[0], env, m)
            if isinstance(x, DynStruct):
                return x.size()
            if isinstance(x, _DynInstance):
                return x._cls.size()
            from . import wire
            if isinstance(x, tuple) and x and x[0] == "class":
                return wire.layout(self.ev, x[1])[1]
            if isinstance(x, tuple) and x and x[0] == "external" and x[1].split(".")[-1] in CTYPES_SCALARS:
                return CTYPES_SCALARS[x[1].split(".")[-1]].size
            return wire.sizeof(self.ev, x)
        if fname == "isinstance":
            o = self.eval(e.args[0], env, m)
            t = self.eval(e.args[1], env, m)
            ts = t if isinstance(t, tuple) and t and isinstance(t[0], tuple) else (t,)
            return any(self.isinstance(o, x) for x in ts)
        if fname == "super":
            raise AnalysisError("super() used other than as super().method(...)")
        if isinstance(e.func, ast.Attribute) and isinstance(e.func.value, ast.Call) and dotted(e.func.value.func) == "super" and not e.func.value.args:
            args = []
            for a in e.args:
                if isinstance(a, ast.Starred):
                    args.extend(self.eval(a.value, env, m))
                else:
                    args.append(self.eval(a, env, m))
            kwargs = {}
            for k in e.keywords:
                if k.arg is None:
                    kwargs.update(self.eval(k.value, env, m))
                else:
                    kwargs[k.arg] = self.eval(k.value, env, m)
            return self.super_call(e.func.attr, args, kwargs, e)
        f = self.eval(e.func, env, m)
        args = []
        for a in e.args:
            if isinstance(a, ast.Starred):
                args.extend(self.eval(a.value, env, m))
            else:
                args.append(self.eval(a, env, m))
        if isinstance(e.func, ast.Attribute) and e.func.attr in ("format", "join") and callable(f) and isinstance(getattr(f, "__self__", None), str):
            # text methods print their arguments: objects of the repository are printed by their own __str__
            conv = lambda x_: (self._to_str(x_) if isinstance(x_, (Obj, EnumMember)) and self._to_str(x_) is not None else x_)
            if e.func.attr == "format":
                args = [conv(x_) for x_ in args]
            elif len(args) == 1 and isinstance(args[0], (list, tuple)):
                args = [[x_ for x_ in args[0]]]
        kwargs = {}
        for k in e.keywords:
            if k.arg is None:
                d_ = self.eval(k.value, env, m)
                import collections.abc as _abc
                if not isinstance(d_, _abc.Mapping):
                    raise AnalysisError(f"circuit evaluation: ** of {type(d_).__name__}")
                kwargs.update({k2_: d_[k2_] for k2_ in d_})
            else:
                kwargs[k.arg] = self.eval(k.value, env, m)
        return self.apply(f, args, kwargs, e, m)

    def isinstance(self, o, t) -> bool:
        if isinstance(t, NamedTupleModel):
            return isinstance(o, t.cls)
        if isinstance(t, (tuple, list)) and (not t or isinstance(t[0], (tuple, NamedTupleModel))):
            return any(self.isinstance(o, t_) for t_ in t)  # a tuple of types (possibly held in a variable)
        if isinstance(t, tuple) and t[0] == "class":
            c = t[1]
            if isinstance(o, EnumMember):
                return o.enum == c.qualname
            if isinstance(o, Obj) and o.cls is not None:
                return c in self.repo.mro(o.cls)
            if isinstance(o, Obj) and o.kind == "future":
                return c.name in ("Future", "BaseFuture")
            if isinstance(o, Obj) and o.kind == "qubit":
                return c.name == "Qubit"
            if isinstance(o, RegSym):
                return c.name == "Register"
            if isinstance(o, Imm):
                return c.name == "Immediate"
            return False
        if isinstance(t, tuple) and t[0] == "external":
            n = t[1].split(".")[-1]
            if isinstance(o, Obj) and o.cls is not None and n in ("int", "str", "float", "list", "dict", "tuple", "Exception", "object"):
                # an instance of a class of the repository that derives from the builtin (class BaseFuture(int))
                if n == "object" or any(isinstance(b_, ast.Name) and b_.id == n for k_ in self.repo.mro(o.cls) for b_ in k_.node.bases):
                    return True
            if n == "NoneType":
                return o is None
            if n == "int":
                return isinstance(o, int)  # as in Python, a bool is an int
            if n == "bool":
                return isinstance(o, bool)
            if n in ("set", "frozenset", "bytes"):
                return isinstance(o, {"set": set, "frozenset": frozenset, "bytes": bytes}[n])
            if n == "float":
                return isinstance(o, float)
            if n == "str":
                return isinstance(o, str)
            if n == "tuple":
                return isinstance(o, tuple)
            if n == "list":
                return isinstance(o, list)
            if n == "dict":
                return isinstance(o, dict)
            if n in ("GeneratorType", "Generator"):
                return isinstance(o, LazyGen)  # (without `lazy_generators` generator functions are followed through when they are called: what comes back is their value)
            if n in ("Iterator", "Iterable") and isinstance(o, LazyGen):
                return True
            if t[1] in ("enum.Enum", "enum.IntEnum"):
                return isinstance(o, EnumMember)
            if n in ("bytearray", "slice", "complex"):
                return isinstance(o, {"bytearray": bytearray, "slice": slice, "complex": complex}[n])
            if t[1] in ("numbers.Number", "numbers.Integral", "numbers.Real"):
                import numbers
                return isinstance(o, getattr(numbers, n))
        if isinstance(t, tuple) and t[0] == "external" and getattr(self.sc, "real_objects", False) and not t[1].startswith("builtins."):
            return False  # a class of a library the scenario does not model: nothing in the scenario is an instance of it
        raise AnalysisError(f"circuit evaluation: isinstance against {t!r}")

    def apply(self, f, args, kwargs, node, m):
        if isinstance(f, tuple):
            kind = f[0]
            if kind == "class":
                return self.construct(f[1], args, kwargs, node)
            if kind == "func":
                if f[2].name == "get_is_using_hardware":
                    return self.sc.hardware
                if f[2].name in self.sc.overrides:
                    return self.sc.overrides[f[2].name](*args, **kwargs)
                if f[2].decorator_list and args:
                    impl = self._singledispatch(f[1], f[2], args[0])
                    if impl is not None:
                        return self.call_function(f[1], impl, args, kwargs)
                return self.call_function(f[1], f[2], args, kwargs)
            if kind == "boundmethod":
                return self.method(f[1], f[2], args, kwargs, node)
            if kind == "classmethod":
                r = self.repo.lookup(f[1], f[2])
                return self.call_function(r[0].module, r[1], args, kwargs, self_obj=("class", f[1]))
            if kind == "closure":
                _, fn, cenv, cm = f
                # closures read the enclosing environment; parameters are bound as for any function (defaults, * and **)
                return self.call_function(cm, fn, list(args), dict(kwargs), base_env=cenv)
            if kind == "partial":
                _, pf, pargs, pkw = f
                return self.apply(pf, list(pargs) + list(args), dict(pkw, **kwargs), node, m)
            if kind == "lambda":
                _, lam, cenv, cm = f
                env2 = dict(cenv)
                a_ = lam.args
                if a_.vararg or a_.kwarg or a_.kwonlyargs:
                    raise AnalysisError("circuit evaluation: lambda with * / ** / keyword-only parameters")
                names = [x.arg for x in a_.posonlyargs + a_.args]
                defaults = a_.defaults
                for nm, d in zip(names[len(names) - len(defaults):], defaults):
                    env2[nm] = self.eval(d, cenv, cm)
                if len(args) > len(names):
                    raise EvalRaise("TypeError", "too many arguments for lambda")
                for nm, v in zip(names, args):
                    env2[nm] = v
                env2.update(kwargs)
                missing = [nm for nm in names if nm not in env2]
                if missing:
                    raise EvalRaise("TypeError", f"lambda missing {missing}")
                return self.eval(lam.body, env2, cm)
            if kind == "external":
                name = f[1]
                if name in getattr(self.sc, "externals", {}):
                    return self.sc.externals[name](*args, **kwargs)  # a library call the rule models for this scenario (clock, sleep, ...)
                if name == "collections.defaultdict":
                    return self._defaultdict(*args, **kwargs)
                if name == "collections.namedtuple":
                    return NamedTupleModel(*args, **kwargs)
                if name.startswith("ctypes.") and name.split(".")[1] in CTYPES_SCALARS and getattr(self.sc, "ctypes_model", False):
                    from . import cmodel
                    t_ = CTYPES_SCALARS[name.split(".")[1]]
                    try:
                        if name.endswith(".from_buffer_copy") and args:
                            raw_ = bytes(args[0])
                            if len(raw_) < t_.size:
                                raise EvalRaise("ValueError", f"Buffer size too small ({len(raw_)} instead of at least {t_.size} bytes)")
                            return Obj(None, {"value": cmodel.wrap(int.from_bytes(raw_[:t_.size], "little"), 8 * t_.size, t_.signed)}, "cscalar")
                        if name.count(".") == 1:
                            return Obj(None, {"value": cmodel.wrap(args[0] if args else 0, 8 * t_.size, t_.signed), "_ctype": t_}, "cscalar")
                    except cmodel.CTypeError as ex_:
                        raise EvalRaise("TypeError", str(ex_))
                if name == "struct.Struct" and len(args) == 1 and isinstance(args[0], str):
                    return StructModel(args[0])
                if name == "functools.partial" and args:
                    return ("partial", args[0], list(args[1:]), dict(kwargs))
                if name == "functools.reduce" and len(args) >= 2:
                    import functools as _ft
                    f_ = args[0]
                    call_ = f_ if callable(f_) else (lambda a_, b_, p_=f_: self.apply(p_, [a_, b_], {}, node, m))
                    return _ft.reduce(call_, list(self._iterable(args[1])), *args[2:])
                if name in ("itertools.dropwhile", "itertools.takewhile", "itertools.filterfalse") and len(args) == 2:
                    import itertools as _it
                    pred_ = args[0]
                    call_ = pred_ if callable(pred_) else (lambda x_, p_=pred_: self.apply(p_, [x_], {}, node, m))
                    return getattr(_it, name.split(".")[1])(lambda x_: self.truth(call_(x_)), iter(self._iterable(args[1])))
                if name == "itertools.accumulate" and args:
                    import itertools as _it
                    f_ = args[1] if len(args) > 1 else kwargs.get("func")
                    kw_ = {"initial": kwargs["initial"]} if "initial" in kwargs else {}
                    if f_ is None:
                        return list(_it.accumulate(self._iterable(args[0]), **kw_))
                    call_ = f_ if callable(f_) else (lambda a_, b_, p_=f_: self.apply(p_, [a_, b_], {}, node, m))
                    return list(_it.accumulate(self._iterable(args[0]), call_, **kw_))
                if name in ("itertools.zip_longest", "itertools.product", "itertools.permutations", "itertools.combinations"):
                    import itertools as _it
                    return list(getattr(_it, name.split(".")[1])(*[self._iterable(a_) if not isinstance(a_, int) else a_ for a_ in args], **kwargs))
                if name == "itertools.count":
                    import itertools as _it
                    return _it.count(*args)  # lazy, as in Python: whoever iterates it is bounded by the loop / step bounds
                if name == "itertools.groupby" and args:
                    import itertools as _it
                    kf_ = args[1] if len(args) > 1 else kwargs.get("key")
                    call_ = (lambda x_: x_) if kf_ is None else kf_ if callable(kf_) else (lambda x_, p_=kf_: self.apply(p_, [x_], {}, node, m))
                    return [(k_, list(g_)) for k_, g_ in _it.groupby(self._iterable(args[0]), call_)]
                if name.startswith("builtins.") and name.split(".")[1] in ("list", "dict", "set", "tuple", "int", "float", "str", "bool", "frozenset", "bytes", "bytearray"):
                    try:
                        return {"list": list, "dict": dict, "set": set, "tuple": tuple, "int": int, "float": float, "str": str, "bool": bool, "frozenset": frozenset,
                                "bytes": bytes, "bytearray": bytearray}[name.split(".")[1]](*[self._iterable(a_) if isinstance(a_, (list, tuple)) else a_ for a_ in args], **kwargs)
                    except (ValueError, TypeError) as ex_:
                        raise EvalRaise(type(ex_).__name__, str(ex_))
                if name == "dataclasses.field":
                    return ("dcfield", kwargs.get("default"), kwargs.get("default_factory"), "default" in kwargs)
                if name == "contextlib.suppress":
                    return ("suppress", [(a_[1].split(".")[-1] if isinstance(a_, tuple) and a_[0] == "external" else a_[1].name if isinstance(a_, tuple) and a_[0] == "class" else str(a_)) for a_ in args])
                if name == "itertools.chain":
                    return [x_ for a_ in args for x_ in self._iterable(a_)]
                if name == "itertools.chain.from_iterable" and len(args) == 1:
                    return [x_ for a_ in self._iterable(args[0]) for x_ in self._iterable(a_)]
                if name == "itertools.repeat" and args:
                    if len(args) == 1 and "times" not in kwargs and getattr(self.sc, "lazy_generators", False):
                        import itertools as _it
                        return _it.repeat(args[0])  # endless, as in Python: whoever consumes it is bounded by the loop / step bounds
                    return [args[0]] * (args[1] if len(args) > 1 else kwargs.get("times", 65))
                if name == "itertools.cycle" and len(args) == 1 and getattr(self.sc, "lazy_generators", False):
                    import itertools as _it
                    return _it.cycle(list(self._iterable(args[0])))
                if name == "itertools.starmap" and len(args) == 2:
                    return [self.apply(args[0], list(xs), {}, node, m) for xs in self._iterable(args[1])]
                if name == "itertools.islice" and len(args) >= 2:
                    return list(self._iterable(args[0]))[slice(*args[1:])]
                if name == "operator.attrgetter" and args and all(isinstance(a_, str) for a_ in args) and not kwargs:
                    def _chain(o_, path):
                        for part in path.split("."):
                            o_ = self.getattr(o_, part)
                        return o_
                    names_ = list(args)
                    return (lambda o_: _chain(o_, names_[0])) if len(names_) == 1 else (lambda o_: tuple(_chain(o_, n_) for n_ in names_))
                if name == "operator.itemgetter" and args:
                    get_ = lambda o_, k_: o_[self._hashable(k_)] if isinstance(o_, dict) else o_[k_]
                    keys_ = list(args)
                    return (lambda o_: get_(o_, keys_[0])) if len(keys_) == 1 else (lambda o_: tuple(get_(o_, k_) for k_ in keys_))
                if name == "operator.methodcaller" and args and isinstance(args[0], str):
                    return (lambda n_, a2, k2: (lambda o_: self.apply(self.getattr(o_, n_), list(a2), dict(k2), node, m)))(args[0], args[1:], kwargs)
                if name == "operator.setitem" and len(args) == 3:
                    args[0][self._hashable(args[1]) if isinstance(args[0], dict) else args[1]] = args[2]
                    return None
                if name == "operator.getitem" and len(args) == 2:
                    return args[0][self._hashable(args[1]) if isinstance(args[0], dict) else args[1]]
                if name == "operator.contains" and len(args) == 2:
                    return self.compare(ast.In(), args[1], args[0])
                if name in ("builtins.setattr",) and len(args) == 3 and isinstance(args[0], Obj):
                    args[0].fields[args[1]] = args[2]
                    return None
                if name in self.EXTERNAL:
                    return self.EXTERNAL[name](*args, **kwargs)
                if name.endswith("get_is_using_hardware"):
                    return self.sc.hardware
                raise AnalysisError(f"circuit evaluation: external call {name}")
        if callable(f):
            owner = getattr(f, "__self__", None)
            if isinstance(owner, (list, dict, set, str, bytes, bytearray, tuple, frozenset)) and not isinstance(owner, (Obj,)):
                # a method of a builtin container: what it raises is what the interpreted program sees
                try:
                    return f(*args, **kwargs)
                except (KeyError, IndexError, ValueError) as ex_:
                    raise EvalRaise(type(ex_).__name__, str(ex_))
            return f(*args, **kwargs)
        raise AnalysisError(f"circuit evaluation: call of {f!r} ({src(node)[:50]})")

    _BUILTIN_EXC_BASE = {"KeyError": "LookupError", "IndexError": "LookupError", "LookupError": "Exception", "NotImplementedError": "RuntimeError", "RecursionError": "RuntimeError",
                         "ZeroDivisionError": "ArithmeticError", "OverflowError": "ArithmeticError", "FloatingPointError": "ArithmeticError", "ArithmeticError": "Exception",
                         "UnicodeError": "ValueError", "TimeoutError": "OSError", "ConnectionError": "OSError", "FileNotFoundError": "OSError", "PermissionError": "OSError", "OSError": "Exception",
                         "ModuleNotFoundError": "ImportError", "ImportError": "Exception", "IndentationError": "SyntaxError", "SyntaxError": "Exception", "StopIteration": "Exception",
                         "ValueError": "Exception", "TypeError": "Exception", "RuntimeError": "Exception", "AttributeError": "Exception", "AssertionError": "Exception", "NameError": "Exception",
                         "UnboundLocalError": "NameError", "MemoryError": "Exception", "Exception": "BaseException", "Deadlock": "BaseException", "Runaway": "BaseException"}

    def _exc_caught(self, exc_name, handler_names) -> bool:
        """does `except <handler_names>` catch an exception of the class named exc_name (builtin hierarchy; classes of the repository
        through their bases)"""
        seen, todo = set(), [exc_name]
        while todo:
            n = todo.pop()
            if n in seen:
                continue
            seen.add(n)
            if n in handler_names:
                return True
            if n in self._BUILTIN_EXC_BASE:
                todo.append(self._BUILTIN_EXC_BASE[n])
                continue
            found = False
            for mod in self.repo.modules.values():
                c = mod.classes.get(n)
                if c is not None:
                    found = True
                    for b in c.node.bases:
                        d = dotted(b)
                        if d:
                            todo.append(d.split(".")[-1])
            if not found:
                todo.append("Exception")  # a class the repository does not define (library exception): an Exception
        return False

    def _frozen_dataclass(self, c) -> bool:
        cache = self.repo.__dict__.setdefault("_nqsa_frozen", {})
        if c.qualname not in cache:
            ok = False
            for d_ in c.node.decorator_list:
                if isinstance(d_, ast.Call) and (dotted(d_.func) or "").split(".")[-1] == "dataclass":
                    kw = {k_.arg: k_.value for k_ in d_.keywords}
                    if any(isinstance(kw.get(n_), ast.Constant) and kw[n_].value is True for n_ in ("frozen", "unsafe_hash")):
                        ok = True
            cache[c.qualname] = ok
        return cache[c.qualname]

    def _singledispatch(self, m, fn, first):
        """for a module-level function under @functools.singledispatch: the implementation registered for the type of the first argument
        (most specific class of its MRO that has one; `@f.register(T)` and `@f.register` with an annotated first parameter), None when
        the function is not a single-dispatch function or nothing but the default applies"""
        if not any((dotted(d_) or "").split(".")[-1] == "singledispatch" for d_ in fn.decorator_list):
            return None
        reg = self.repo.__dict__.setdefault("_nqsa_dispatch", {})
        key = (m.name, fn.name)
        if key not in reg:
            impls = []
            for st_ in m.tree.body:
                if not isinstance(st_, ast.FunctionDef):
                    continue
                for d_ in st_.decorator_list:
                    target = d_.func if isinstance(d_, ast.Call) else d_
                    if isinstance(target, ast.Attribute) and target.attr == "register" and isinstance(target.value, ast.Name) and target.value.id == fn.name:
                        if isinstance(d_, ast.Call) and d_.args:
                            tnode = d_.args[0]
                        elif st_.args.args and st_.args.args[0].annotation is not None:
                            tnode = st_.args.args[0].annotation
                        else:
                            raise AnalysisError(f"circuit evaluation: {fn.name}.register without a type")
                        impls.append((tnode, st_))
            reg[key] = impls
        if not reg[key]:
            return None
        table = [(self.eval(tnode, {}, m), impl) for tnode, impl in reg[key]]
        for t_ in self.getattr(self._type_of(first), "__mro__"):
            for rt_, impl in table:
                if rt_ == t_ or (isinstance(rt_, tuple) and isinstance(t_, tuple) and rt_[0] == t_[0] == "class" and rt_[1] is t_[1]):
                    return impl
        return None

    def _dc_default(self, val, module):
        """the default of a dataclass field: the evaluated expression, or what `field(default=..., default_factory=...)` says"""
        if val is None:
            return None
        v_ = self.eval(val, {}, module)
        if isinstance(v_, tuple) and len(v_) == 4 and v_[0] == "dcfield":
            if v_[2] is not None:
                return self.apply(v_[2], [], {}, val, module)
            return v_[1]
        return v_

    def _type_of(self, v):
        """type(v) for the values of the interpreter"""
        if isinstance(v, Obj) and v.cls is not None:
            return ("class", v.cls)
        if isinstance(v, Obj) and v.kind in ("future", "qubit"):
            # a recorder standing for an SDK object: of the class it stands for
            return ("class", self.repo.get_class("netqasm.sdk.futures", "Future") if v.kind == "future" else self.repo.get_class("netqasm.sdk.qubit", "Qubit"))
        if isinstance(v, EnumMember):
            mod_, cn_ = v.enum.split(":")
            return ("class", self.repo.get_class(mod_, cn_.split(".")[-1]))
        if isinstance(v, Imm):
            return ("class", self.repo.get_class("netqasm.lang.operand", "Immediate"))
        if v is None:
            return ("external", "builtins.NoneType")
        if isinstance(v, (bool, int, float, str, bytes, list, tuple, dict, set, frozenset, bytearray, slice)) and not (isinstance(v, tuple) and v and isinstance(v[0], str) and v[0] in ("class", "func", "external", "closure", "lambda", "boundmethod", "partial")):
            return ("external", "builtins." + type(v).__name__)
        if isinstance(v, tuple) and hasattr(v, "_fields"):
            raise AnalysisError("circuit evaluation: type() of a namedtuple instance")
        raise AnalysisError(f"circuit evaluation: type() of {type(v).__name__}")

    def _receiver(self, fn, o):
        """what a method called through the instance o receives first: the instance, its class for a classmethod, nothing for a staticmethod"""
        decs = {(dotted(d_) or "").split(".")[-1] for d_ in fn.decorator_list}
        if "classmethod" in decs and isinstance(o, Obj) and o.cls is not None:
            return ("class", o.cls)
        if "staticmethod" in decs:
            return None
        return o

    def construct(self, c: ClassInfo, args, kwargs, node):
        if c.name == "Qubit" and c.module.name.endswith("sdk.qubit") and not getattr(self.sc, "real_objects", False):
            q = Obj(None, {"name": f"anc{len(self.sc.fresh)}"}, "qubit")
            self.sc.fresh.append(q)
            self.sc.recorded.append(("__new__", q, args, kwargs))
            return q
        if c.name == "Immediate":
            v = args[0] if args else kwargs.get("value")
            return Imm(v)
        if c.name == "Register" and c.module.name.endswith("operand") and not getattr(self.sc, "plain_registers", False):
            r = RegSym(f"R{len(self.sc.fresh)}")
            return r
        if self.ev.is_enum(c):
            v = args[0] if args else kwargs.get("value")
            if isinstance(v, EnumMember):
                if v.enum == c.qualname:
                    return v  # Enum(member) is the member
                raise EvalRaise("ValueError", f"{v!r} is not a valid {c.name}")
            for k, mv in self.ev.enum_members(c).items():
                if mv == v and isinstance(mv, bool) == isinstance(v, bool):
                    return EnumMember(c.qualname, k, mv)
            raise EvalRaise("ValueError", f"{v!r} is not a valid {c.name}")
        if getattr(self.sc, "ctypes_model", False) and self.ev.is_struct(c):
            from . import cmodel
            o = cmodel.new_struct(self.ev, c, lambda k_: Obj(k_, {}))
            r = self.repo.lookup(c, "__init__")
            try:
                if r is not None:
                    self.call_function(r[0].module, r[1], list(args), dict(kwargs), self_obj=o)
                else:
                    cmodel.init(self.ev, o, list(args), dict(kwargs), lambda x_: isinstance(x_, Obj))
            except cmodel.CTypeError as ex_:
                raise EvalRaise("TypeError", str(ex_))
            return o
        if self.repo.is_namedtuple(c):
            return self._make_namedtuple(c, list(args), dict(kwargs))
        from . import normalise as _N
        helper_cls = c.name.startswith("_") and f"{c.name}" not in set(_N.known_names().get(c.module.name, [])) and not self.repo.is_dataclass(c) and not self.ev.is_struct(c)
        if (getattr(self.sc, "run_constructors", False) or helper_cls) and not self.repo.is_dataclass(c):
            r = self.repo.lookup(c, "__init__")
            if r is not None:
                o = Obj(c, {})
                self.call_function(r[0].module, r[1], list(args), dict(kwargs), self_obj=o)
                return o
        fields = {}
        names = [f[0] for f in self.repo.dataclass_fields(c)]
        for n, v in zip(names, args):
            fields[n] = v
        fields.update(kwargs)
        o = Obj(c, fields)
        if self._frozen_dataclass(c):
            o.value_eq = True
        if getattr(self.sc, "run_constructors", False) and self.repo.is_dataclass(c):
            for fname, ann, val, k in self.repo.dataclass_fields(c):
                if fname not in o.fields:
                    o.fields[fname] = self._dc_default(val, k.module)
            r = self.repo.lookup(c, "__post_init__")
            if r is not None:
                self.call_function(r[0].module, r[1], [], {}, self_obj=o)
        return o

    def _make_namedtuple(self, c, args, kwargs):
        flds = self.repo.namedtuple_fields(c)
        names = [f_[0] for f_ in flds]
        if len(args) > len(names):
            raise EvalRaise("TypeError", f"{c.name}.__new__() takes {len(names) + 1} positional arguments but {len(args) + 1} were given")
        vals = dict(zip(names, args))
        for k_, v_ in kwargs.items():
            if k_ not in names:
                raise EvalRaise("TypeError", f"{c.name}.__new__() got an unexpected keyword argument '{k_}'")
            if k_ in vals:
                raise EvalRaise("TypeError", f"{c.name}.__new__() got multiple values for argument '{k_}'")
            vals[k_] = v_
        for n_, d_, k_ in flds:
            if n_ not in vals:
                if d_ is None:
                    raise EvalRaise("TypeError", f"{c.name}.__new__() missing required positional argument: '{n_}'")
                vals[n_] = self.eval(d_, {}, k_.module)
        return NTObj(c, names, [vals[n_] for n_ in names])

    def _class_callable(self, cls, name):
        """a method a class body makes by assignment (`writes_to = _factory("reg")`, `handler = lambda self: ...`): the function value of
        the first class in the MRO that binds the name, when that binding is such an assignment and not a `def`"""
        for k in self.repo.mro(cls):
            if name in k.methods:
                return None
            a_ = k.attrs.get(name)
            if a_ is not None and a_[0] is None and isinstance(a_[1], (ast.Call, ast.Lambda, ast.Name)):
                try:
                    v = self.class_attr((k, name, a_[1]))
                except (AnalysisError, Unknown):
                    return None
                if isinstance(v, tuple) and v and v[0] in ("closure", "func", "lambda", "partial"):
                    return (v, k)
                return None
        return None

    def method(self, o: Obj, name, args, kwargs, node):
        if o.cls is not None and o.kind in ("self", "obj") and name not in getattr(self.sc, "method_overrides", {}) and name not in self.sc.overrides:
            cc_ = self._class_callable(o.cls, name)
            if cc_ is not None:
                return self.apply(cc_[0], [o] + list(args), kwargs, node, cc_[1].module)
        if o.kind == "self":
            if name in getattr(self.sc, "method_overrides", {}):
                return self.sc.method_overrides[name](o, *args, **kwargs)  # a method the caller models itself (receives the object)
            if name in self.sc.overrides:
                return self.sc.overrides[name](*args, **kwargs)  # a method the caller models itself
            # modelled state accessors of the transpiler
            if name == "get_reg_value":
                reg = args[0] if args else kwargs.get("reg")
                if id(reg) in self.sc.reg_values:
                    return Imm(self.sc.reg_values[id(reg)])
                raise EvalRaise("KeyError", "register value unknown at transpile time")
            if name == "get_unused_register":
                r = RegSym(f"free{len(self.sc.fresh)}")
                self.sc.fresh.append(r)
                return r
            r = self.repo.lookup(o.cls, name)
            if r is None:
                raise AnalysisError(f"circuit evaluation: method {name} not found")
            dec_ = self._decorated(r, o)
            if dec_ is not None:
                return self.apply(dec_, [o] + list(args), kwargs, node, r[0].module)
            return self.call_function(r[0].module, r[1], args, kwargs, self_obj=self._receiver(r[1], o))
        if o.kind == "qubit":
            self.sc.recorded.append((name, o, args, kwargs))
            if name == "measure":
                f = Obj(None, {"of": o}, "future")
                return f
            return None
        if o.kind == "future":
            self.sc.recorded.append(("future." + name, o, args, kwargs))
            return None
        if o.cls is not None:
            # a method the rule models itself is modelled on every object of the repository's classes, not only on `self`
            if name in getattr(self.sc, "method_overrides", {}):
                return self.sc.method_overrides[name](o, *args, **kwargs)
            if name in self.sc.overrides:
                return self.sc.overrides[name](*args, **kwargs)
            r = self.repo.lookup(o.cls, name)
            if r is not None:
                dec_ = self._decorated(r, o)
                if dec_ is not None:
                    return self.apply(dec_, [o] + list(args), kwargs, node, r[0].module)
                return self.call_function(r[0].module, r[1], args, kwargs, self_obj=self._receiver(r[1], o))
        raise AnalysisError(f"circuit evaluation: method {name} of {str(o)[:80]}")

    def _decorated(self, r, o):
        """With `sc.apply_decorators`: the callable a method decorated with functions of the repository really is - the decorators
        applied, innermost first, to the plain function (which then takes the object as its first argument).  None when the method
        has no such decorator (property / classmethod / staticmethod / abstractmethod / library decorators are not function wrappers
        here)."""
        if not getattr(self.sc, "apply_decorators", False):
            return None
        k, fn = r[0], r[1]
        decs = []
        for d_ in fn.decorator_list:
            nm = (dotted(d_.func if isinstance(d_, ast.Call) else d_) or "").split(".")[-1]
            if nm in ("property", "classmethod", "staticmethod", "abstractmethod", "contextmanager", "setter", "wraps", "dataclass"):
                continue
            decs.append(d_)
        if not decs:
            return None
        f = ("func", k.module, fn)
        for d_ in reversed(decs):
            f = self.apply(self.eval(d_, {}, k.module), [f], {}, d_, k.module)
        return f


def object_from_init(repo, cls, overrides=None, kind="obj"):
    """an object of `cls` whose attributes start as __init__ leaves them, as far as that is a constant or an empty container
    (`self.x = None / 0 / [] / {} / set()`, annotated or not); `overrides` are set on top"""
    o = Obj(cls, {}, kind)
    for k in reversed(repo.mro(cls)):
        init = k.methods.get("__init__")
        if init is None:
            continue
        for t_, v_, _st in A.plain_assigns(init):
            if not A.is_self_attr(t_):
                continue
            if isinstance(v_, ast.Constant):
                o.fields[t_.attr] = v_.value
            elif isinstance(v_, (ast.List, ast.Tuple)) and not v_.elts:
                o.fields[t_.attr] = [] if isinstance(v_, ast.List) else ()
            elif isinstance(v_, ast.Dict) and not v_.keys:
                o.fields[t_.attr] = {}
            elif isinstance(v_, ast.Call) and isinstance(v_.func, ast.Name) and v_.func.id in ("set", "dict", "list") and not v_.args and not v_.keywords:
                o.fields[t_.attr] = {"set": set, "dict": dict, "list": list}[v_.func.id]()
    o.fields.update(overrides or {})
    return o


# ---------------------------------------------------------------------------
# gate list -> unitary
# ---------------------------------------------------------------------------


def mnemonic_of(repo: Repo, ev: ConstEval, c: ClassInfo) -> str:
    for fname, ann, val, k in repo.dataclass_fields(c):
        if fname == "mnemonic" and val is not None:
            return ev.eval(val, k.module)
    return ""


def unitary_of(repo: Repo, ev: ConstEval, gates: List[Any], qubit_of: Dict[int, int], n_qubits: int, electron_pos: Optional[int] = None, problems: Optional[List[str]] = None) -> np.ndarray:
    """multiply out a list of NV instruction objects. qubit_of: id(RegSym) -> tensor position.
    electron_pos: when given, controlled rotations must have the electron as control and a carbon as target
    (the only two-qubit interaction of the NV flavour); violations are appended to `problems`."""
    U = np.eye(2 ** n_qubits, dtype=complex)
    bound = dict(qubit_of)
    for g in gates:
        if not isinstance(g, Obj) or g.cls is None:
            raise AnalysisError(f"gate list contains {g!r}")
        if g.cls.name == "DebugInstruction":
            continue
        mn = mnemonic_of(repo, ev, g.cls)
        if mn == "set":
            reg, imm = g.fields.get("reg"), g.fields.get("imm")
            if not isinstance(imm, Imm) or "__virt__" not in bound:
                raise AnalysisError("set instruction in a circuit without a virtual-id map")
            virt = bound["__virt__"]
            if imm.value not in virt:
                raise AnalysisError(f"set of a qubit register to virtual id {imm.value} which is not part of the scenario")
            bound[id(reg)] = virt[imm.value]
            continue
        for rname in ("reg", "reg0", "reg1"):
            rr = g.fields.get(rname)
            if rr is not None and id(rr) not in bound:
                raise CircuitProblem(f"`{mn}` acts on a register whose content (the qubit it addresses) is not established by the emitted sequence")
        if mn in ("rot_x", "rot_y", "rot_z"):
            q = g.fields.get("reg")
            n, d = g.fields["imm0"].value, g.fields["imm1"].value
            op = rot(mn[-1], n * math.pi / 2 ** d)
            U = embed(op, [bound[id(q)]], n_qubits) @ U
        elif mn in ("crot_x", "crot_y", "crot_z"):
            c, t = g.fields.get("reg0"), g.fields.get("reg1")
            n, d = g.fields["imm0"].value, g.fields["imm1"].value
            op = crot_vec(AXIS[mn[-1]], n * math.pi / 2 ** d)
            if electron_pos is not None and problems is not None and (bound[id(c)] != electron_pos or bound[id(t)] == electron_pos):
                problems.append(f"{mn} with control at position {bound[id(c)]} and target at {bound[id(t)]} (the electron is at {electron_pos})")
            U = embed(op, [bound[id(c)], bound[id(t)]], n_qubits) @ U
        else:
            raise AnalysisError(f"gate {mn!r} has no operator semantics in the checker")
    return U
