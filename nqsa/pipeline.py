"""The flush / compile pipeline of the SDK connection, decided by abstract execution (shared by C05.P and C06.S/R).

BaseNetQASMConnection.flush / compile / commit_protosubroutine and Builder.subrt_compile_subroutine run in the checker's
interpreter against a modelled builder that records what is asked of it.  Judged on the recorded events, not on how the
methods are written (helpers, partials, context managers, ...).
"""
from __future__ import annotations

from typing import Any, Dict, List, Optional

from . import circuit as C
from .model import AnalysisError


def run_pipeline(ctx) -> Dict[str, Any]:
    cached = getattr(ctx, "_pipeline_results", None)
    if cached is not None:
        return cached
    repo, ev = ctx.repo, ctx.ev
    conn = repo.get_class("netqasm.sdk.connection", "BaseNetQASMConnection")
    bld = repo.get_class("netqasm.sdk.builder", "Builder")
    res: Dict[str, Any] = {}

    class _Log:
        _nqsa_model = True

        def debug(self, *a_, **k_):
            return None
        info = warning = error = debug

    mmc = repo.get_class("netqasm.sdk.memmgr", "MemoryManager")
    irm = repo.module("netqasm.lang.ir")

    def pools(b):
        """the bookkeeping a flush has to leave clean: what the next subroutine would declare / return again"""
        mem = b.fields["_mem_mgr"]
        return {"arrays to return": list(mem.fields.get("_arrays_to_return") or []), "registers to return": list(mem.fields.get("_registers_to_return") or []),
                "measurement registers in use": sorted(str(k_) for k_, v_ in (mem.fields.get("_used_meas_registers") or {}).items() if v_),
                "pre-context commands": dict(b.fields.get("_pre_context_commands") or {})}

    def world(pending=True, send_fails=False):
        events: List[Any] = []

        class MSub:
            _nqsa_model = True

            def __init__(self, proto):
                self.proto = proto
                self.instructions, self.arguments = [], []

            def instantiate(self, app_id=None, arguments=None, *a_, **k_):
                events.append(("instantiate", self, app_id))

            def __str__(self):
                return "compiled"

        # the repository's own Builder and MemoryManager, with bookkeeping left over from the operations of this subroutine
        mem = C.object_from_init(repo, mmc, {}, kind="obj")
        mem.fields["_arrays_to_return"] = ["array@0"]
        mem.fields["_registers_to_return"] = ["M0"]
        mem.fields["_used_meas_registers"] = {"M0": True, "M1": False}
        b = C.object_from_init(repo, bld, {"_mem_mgr": mem, "_pre_context_commands": {1: ["cmd"]}}, kind="obj")
        proto = C.Obj(irm.classes["ProtoSubroutine"], {"_commands": [], "_arguments": [], "_app_id": 7, "_netqasm_version": (0, 10)})
        compiled = []
        b.fields["__compiled"] = compiled
        sc = C.Scenario()
        sc.max_depth = 20
        sc.plain_registers = True

        def pop_(o_, *a_, **k_):
            events.append(("pop",))
            return proto if pending else None

        def compile_(o_, pre_subroutine=None, *a_, **k_):
            p_ = pre_subroutine if pre_subroutine is not None else (a_[0] if a_ else None)
            events.append(("compile", "PROTO" if p_ is proto else p_))
            compiled.append(MSub(p_))
            return compiled[-1]

        def commit_subroutine(o_, subroutine=None, block=True, callback=None, *a_, **k_):
            events.append(("send", subroutine, block, callback, pools(b)))
            if send_fails:
                raise C.EvalRaise("RuntimeError", "the backend refused the subroutine")

        def assemble_(pre_subroutine=None, *a_, **k_):
            # a path that assembles by itself instead of asking the builder: recorded as such
            events.append(("assemble-directly",))
            compiled.append(MSub(pre_subroutine))
            return compiled[-1]

        sc.method_overrides = {"subrt_pop_pending_subroutine": pop_, "subrt_compile_subroutine": compile_, "commit_subroutine": commit_subroutine}
        sc.overrides["assemble_subroutine"] = assemble_
        o = C.object_from_init(repo, conn, {"_builder": b, "_logger": _Log(), "_app_id": 7, "app_id": 7}, kind="self")

        class B_:
            pass
        bb = B_()
        bb.compiled, bb.obj = compiled, b
        return o, bb, sc, events

    clean = {"arrays to return": [], "registers to return": [], "measurement registers in use": [], "pre-context commands": {}}

    def call(o, sc, name, args, kwargs):
        r_ = repo.lookup(conn, name)
        try:
            return C.Interp(repo, ev, sc, conn).call_function(r_[0].module, r_[1], list(args), dict(kwargs), self_obj=o), None
        except C.EvalRaise as ex_:
            return None, ex_.exc_name

    def short(ev_):
        return [(e[0],) + tuple(x for x in e[1:] if isinstance(x, (str, int, bool, type(None)))) for e in ev_]

    # flush with something pending
    o, b, sc, ev_ = world()
    out, raised = call(o, sc, "flush", [], {"block": False, "callback": "CB"})
    kinds = [e[0] for e in ev_]
    ok = raised is None and kinds == ["pop", "compile", "instantiate", "send"] and ev_[1][1] == "PROTO" and ev_[2][1] is b.compiled[0] and ev_[2][2] == 7 \
        and ev_[3][1] is b.compiled[0] and ev_[3][2] is False and ev_[3][3] == "CB"
    left = pools(b.obj)
    res["flush"] = None if ok and left == clean else f"flush(block=False, callback=CB) with operations pending: {raised or ''} events {short(ev_)}, bookkeeping left behind {left}; " \
                                                   "expected pop, compile(the popped proto), instantiate(app id 7) and send of that compiled subroutine with the caller's block / callback, and clean bookkeeping afterwards"
    # flush with nothing pending
    o, b, sc, ev_ = world(pending=False)
    out, raised = call(o, sc, "flush", [], {})
    res["flush-empty"] = None if raised is None and [e[0] for e in ev_ if e[0] in ("compile", "send", "instantiate")] == [] else f"flush with nothing pending does {[e[0] for e in ev_]} ({raised})"
    # compile
    o, b, sc, ev_ = world()
    out, raised = call(o, sc, "compile", [], {})
    kinds = [e[0] for e in ev_]
    ok = raised is None and kinds == ["pop", "compile"] and ev_[1][1] == "PROTO" and b.compiled and out is b.compiled[0]
    left = pools(b.obj)
    res["compile"] = None if ok and left == clean else f"compile() with operations pending: {raised or ''} events {short(ev_)}, returns {'the compiled subroutine' if b.compiled and out is b.compiled[0] else repr(out)[:60]}, " \
                                                     f"bookkeeping left behind {left}; expected pop, the builder's conversion of the popped proto (the one flush uses), the result returned (not sent, not instantiated) " \
                                                     "and the bookkeeping as clean as after a flush"
    # a send that fails: the bookkeeping must not have been cleaned before the send (the subroutine is not out yet)
    o, b, sc, ev_ = world(send_fails=True)
    out, raised = call(o, sc, "flush", [], {})
    sends = [e for e in ev_ if e[0] == "send"]
    res["reset-after-send"] = None if sends and sends[0][4] != clean else f"at the moment of sending the builder's bookkeeping is already {sends[0][4] if sends else 'n/a'} (events {short(ev_)}): it is reset before the subroutine has been sent"
    # the conversion itself
    fn = bld.methods.get("subrt_compile_subroutine")
    if fn is None:
        raise AnalysisError("Builder.subrt_compile_subroutine not found")
    conv = {}
    for with_compiler in (False, True):
        calls: List[Any] = []

        class MTranspiler:
            _nqsa_model = True

            def __init__(self, subroutine):
                self.subroutine = subroutine

            def transpile(self):
                calls.append(("transpile", self.subroutine))
                return ("transpiled", self.subroutine)

        def compiler(subroutine=None, *a_, **k_):
            calls.append(("compiler", subroutine if subroutine is not None else (a_[0] if a_ else None)))
            return MTranspiler(calls[-1][1])

        sc = C.Scenario()
        sc.overrides["assemble_subroutine"] = lambda pre_subroutine=None, *a_, **k_: (calls.append(("assemble", pre_subroutine if pre_subroutine is not None else (a_[0] if a_ else None))), ("assembled", calls[-1][1]))[1]
        sc.overrides["_log_subroutine"] = lambda *a_, **k_: None
        bo = C.object_from_init(repo, bld, {"_compiler": compiler if with_compiler else None, "_track_lines": False}, kind="self")
        try:
            out = C.Interp(repo, ev, sc, bld).call_function(bld.module, fn, ["PROTO"], {}, self_obj=bo)
        except C.EvalRaise as ex_:
            out = f"raises {ex_.exc_name}"
        want = ("transpiled", ("assembled", "PROTO")) if with_compiler else ("assembled", "PROTO")
        want_calls = ["assemble", "compiler", "transpile"] if with_compiler else ["assemble"]
        conv[with_compiler] = None if out == want and [c_[0] for c_ in calls] == want_calls else f"with{'' if with_compiler else 'out'} a transpiler configured: result {out!r} after {[c_[0] for c_ in calls]}, expected {want!r}"
    res["convert"] = conv[False] or conv[True]
    ctx._pipeline_results = res
    return res
