"""Small AST helpers shared by the rules."""
from __future__ import annotations

import ast
import copy
from typing import Dict, Iterator, List, Optional

from .model import dotted, src


def walk_no_nested(node, include_self=True) -> Iterator[ast.AST]:
    """ast.walk that does not descend into nested function / class / lambda bodies."""
    stack = [node]
    first = True
    while stack:
        n = stack.pop()
        if not first and isinstance(n, (ast.FunctionDef, ast.AsyncFunctionDef, ast.ClassDef, ast.Lambda)):
            continue
        if include_self or not first:
            yield n
        first = False
        stack.extend(reversed(list(ast.iter_child_nodes(n))))


def body_nodes(fn) -> Iterator[ast.AST]:
    for st in fn.body:
        yield from walk_no_nested(st, include_self=True) if not isinstance(st, (ast.FunctionDef, ast.AsyncFunctionDef, ast.ClassDef)) else iter(())


def nested_defs(fn) -> List[ast.FunctionDef]:
    out = []
    for n in ast.walk(fn):
        if n is not fn and isinstance(n, (ast.FunctionDef, ast.AsyncFunctionDef)):
            out.append(n)
    return out


def param_names(fn) -> List[str]:
    a = fn.args
    names = [x.arg for x in a.posonlyargs + a.args + a.kwonlyargs]
    if a.vararg:
        names.append(a.vararg.arg)
    if a.kwarg:
        names.append(a.kwarg.arg)
    return names


def assigned_names(fn) -> Dict[str, List[ast.AST]]:
    """name -> list of value expressions assigned to it in fn (no nested defs).
    Tuple-unpacking targets, loop targets, with-targets, augmented assignments
    are recorded with value None (meaning: not a simple definition)."""
    out: Dict[str, List[Optional[ast.AST]]] = {}

    def rec_target(t, val):
        if isinstance(t, ast.Name):
            out.setdefault(t.id, []).append(val)
        elif isinstance(t, (ast.Tuple, ast.List)):
            for i, e in enumerate(t.elts):
                if val is not None and isinstance(val, (ast.Tuple, ast.List)) and len(val.elts) == len(t.elts) and not any(isinstance(x, ast.Starred) for x in t.elts):
                    rec_target(e, val.elts[i])
                elif val is not None and not isinstance(e, ast.Starred):
                    rec_target(e, ast.Subscript(value=val, slice=ast.Constant(value=i), ctx=ast.Load()))
                else:
                    rec_target(e, None)
        elif isinstance(t, ast.Starred):
            rec_target(t.value, None)

    for n in body_nodes(fn):
        if isinstance(n, ast.Assign):
            for t in n.targets:
                rec_target(t, n.value)
        elif isinstance(n, ast.AnnAssign):
            if n.value is not None:
                rec_target(n.target, n.value)
        elif isinstance(n, ast.AugAssign):
            rec_target(n.target, None)
        elif isinstance(n, (ast.For, ast.AsyncFor)):
            rec_target(n.target, None)
        elif isinstance(n, (ast.With, ast.AsyncWith)):
            for it in n.items:
                if it.optional_vars is not None:
                    rec_target(it.optional_vars, None)
        elif isinstance(n, ast.NamedExpr):
            rec_target(n.target, None)
        elif isinstance(n, ast.comprehension):
            rec_target(n.target, None)
        elif isinstance(n, ast.ExceptHandler) and n.name:
            out.setdefault(n.name, []).append(None)
    return out


def single_defs(fn) -> Dict[str, ast.AST]:
    """Names assigned exactly once by a simple assignment (and not parameters)."""
    params = set(param_names(fn))
    return {k: v[0] for k, v in assigned_names(fn).items() if len(v) == 1 and v[0] is not None and k not in params}


class _Subst(ast.NodeTransformer):
    def __init__(self, defs, depth):
        self.defs = defs
        self.depth = depth

    def visit_Name(self, node):
        if isinstance(node.ctx, ast.Load) and node.id in self.defs and self.depth > 0:
            rep = copy.deepcopy(self.defs[node.id])
            return _Subst({k: v for k, v in self.defs.items() if k != node.id}, self.depth - 1).visit(rep)
        return node

    def visit_Lambda(self, node):
        return node


def expand(expr, defs, depth=6):
    """Substitute single-definition locals into expr (copy)."""
    return _Subst(defs, depth).visit(copy.deepcopy(expr))


def plain_assigns(fn):
    """(target, value, statement) of every single-target assignment of fn, annotated or not (`x = v`, `x: T = v`)"""
    out = []
    for n in body_nodes(fn):
        if isinstance(n, ast.Assign) and len(n.targets) == 1:
            out.append((n.targets[0], n.value, n))
        elif isinstance(n, ast.AnnAssign) and n.value is not None:
            out.append((n.target, n.value, n))
    return out


def returns(fn) -> List[ast.Return]:
    return [n for n in body_nodes(fn) if isinstance(n, ast.Return)]


def kwargs_of(call: ast.Call) -> Dict[str, ast.AST]:
    return {k.arg: k.value for k in call.keywords if k.arg is not None}


def is_self_attr(e, attr=None, selfname="self") -> bool:
    return isinstance(e, ast.Attribute) and isinstance(e.value, ast.Name) and e.value.id == selfname and (attr is None or e.attr == attr)


def attr_chain(e) -> Optional[List[str]]:
    d = dotted(e)
    return d.split(".") if d else None


def calls_in(node, nested=False):
    it = ast.walk(node) if nested else walk_no_nested(node)
    for n in it:
        if isinstance(n, ast.Call):
            yield n


def call_name(call: ast.Call) -> Optional[str]:
    """last component of the callee: f(), a.f(), a.b.f() -> 'f'"""
    f = call.func
    if isinstance(f, ast.Name):
        return f.id
    if isinstance(f, ast.Attribute):
        return f.attr
    return None


def strip_docstring(body):
    if body and isinstance(body[0], ast.Expr) and isinstance(body[0].value, ast.Constant) and isinstance(body[0].value.value, str):
        return body[1:]
    return body


def norm(e) -> str:
    return src(e).replace(" ", "")


def contains_name(node, name) -> bool:
    return any(isinstance(n, ast.Name) and n.id == name for n in ast.walk(node))


def get_arg(call: ast.Call, pos: int, name: str):
    """argument by position or keyword"""
    if pos is not None and pos < len(call.args) and not any(isinstance(a, ast.Starred) for a in call.args[: pos + 1]):
        return call.args[pos]
    for k in call.keywords:
        if k.arg == name:
            return k.value
    return None


def local_names(fn) -> List[str]:
    """purely local variables of fn in order of first binding (source order): bound by assignment / for / with in fn's own
    scope; parameters, globals, names rebound in nested scopes, comprehension targets, imports and handler names excluded"""
    fdefs = (ast.FunctionDef, ast.AsyncFunctionDef)
    own: List[str] = []
    banned = set()

    def scan(node, depth):
        for ch in ast.iter_child_nodes(node):
            if isinstance(ch, fdefs + (ast.Lambda,)):
                a = ch.args
                for x in a.posonlyargs + a.args + a.kwonlyargs + [a.vararg, a.kwarg]:
                    if x is not None:
                        banned.add(x.arg)
                if isinstance(ch, fdefs):
                    banned.add(ch.name)
                scan(ch, depth + 1)
            elif isinstance(ch, ast.ClassDef):
                banned.add(ch.name)
                for n in ast.walk(ch):
                    if isinstance(n, ast.Name):
                        banned.add(n.id)
            elif isinstance(ch, (ast.ListComp, ast.SetComp, ast.DictComp, ast.GeneratorExp)):
                for g in ch.generators:
                    for n in ast.walk(g.target):
                        if isinstance(n, ast.Name):
                            banned.add(n.id)
                scan(ch, depth)
            elif isinstance(ch, (ast.Global, ast.Nonlocal)):
                banned.update(ch.names)
            elif isinstance(ch, (ast.Import, ast.ImportFrom)):
                for al in ch.names:
                    banned.add((al.asname or al.name).split(".")[0])
            elif isinstance(ch, ast.ExceptHandler):
                if ch.name:
                    banned.add(ch.name)
                scan(ch, depth)
            else:
                if isinstance(ch, ast.Name) and isinstance(ch.ctx, (ast.Store, ast.Del)):
                    if depth == 0:
                        if ch.id not in own:
                            own.append(ch.id)
                    else:
                        banned.add(ch.id)
                scan(ch, depth)

    a = fn.args
    for x in a.posonlyargs + a.args + a.kwonlyargs + [a.vararg, a.kwarg]:
        if x is not None:
            banned.add(x.arg)
    scan(fn, 0)
    return [n for n in own if n not in banned]


def alpha(fn, prefix="L"):
    """copy of fn whose purely local variables are renamed L0, L1, ... in order of first binding: two functions that differ
    only in the names of their locals have the same alpha form"""
    import copy
    fn2 = copy.deepcopy(fn)
    names = local_names(fn2)
    # source order of first binding
    first = {}
    for n in ast.walk(fn2):
        if isinstance(n, ast.Name) and isinstance(n.ctx, (ast.Store, ast.Del)) and n.id in names:
            key = (n.lineno, n.col_offset)
            if n.id not in first or key < first[n.id]:
                first[n.id] = key
    order = sorted(names, key=lambda x: first.get(x, (1 << 30, 0)))
    ren = {n: f"{prefix}{i}" for i, n in enumerate(order)}
    for n in ast.walk(fn2):
        if isinstance(n, ast.Name) and n.id in ren:
            n.id = ren[n.id]
    return fn2


def case_returns(fn, subject: str):
    """[(key expr, returned expr)] for every `if <subject> == K: ... return V` of fn, whatever the chain is written as
    (elif chain, guard clauses one after the other, nested in else branches), in source order; a dict display indexed by the
    subject (`{K: V, ...}[subject]` or `.get(subject)`) counts as well"""
    out = []
    for n in ast.walk(fn):
        if isinstance(n, ast.If) and isinstance(n.test, ast.Compare) and len(n.test.ops) == 1 and isinstance(n.test.ops[0], ast.Eq):
            l, r = n.test.left, n.test.comparators[0]
            key = r if norm(l) == subject else l if norm(r) == subject else None
            if key is None:
                continue
            rets = [s for s in n.body if isinstance(s, ast.Return)]
            if rets:
                out.append((n.lineno, key, rets[0].value))
        elif isinstance(n, ast.Subscript) and isinstance(n.value, ast.Dict) and norm(n.slice) == subject:
            out.extend((n.lineno, k, v) for k, v in zip(n.value.keys, n.value.values) if k is not None)
        elif isinstance(n, ast.Call) and isinstance(n.func, ast.Attribute) and n.func.attr == "get" and isinstance(n.func.value, ast.Dict) and n.args and norm(n.args[0]) == subject:
            out.extend((n.lineno, k, v) for k, v in zip(n.func.value.keys, n.func.value.values) if k is not None)
    out.sort(key=lambda t: t[0])
    return [(k, v) for _, k, v in out]


def case_bodies(fn, subject: str):
    """[(key expr, body statements)] for every `if <subject> == K:` of fn in source order (any chain style)"""
    out = []
    for n in ast.walk(fn):
        if isinstance(n, ast.If) and isinstance(n.test, ast.Compare) and len(n.test.ops) == 1 and isinstance(n.test.ops[0], ast.Eq):
            l, r = n.test.left, n.test.comparators[0]
            key = r if norm(l) == subject else l if norm(r) == subject else None
            if key is not None:
                out.append((n.lineno, key, n.body))
    out.sort(key=lambda t: t[0])
    return [(k, b) for _, k, b in out]


def slice_bounds(e, defs=None):
    """(lower, upper) expressions of a slice written as `a:b` or as `slice(a, b)` (possibly through a single-definition local)"""
    if isinstance(e, ast.Name) and defs and e.id in defs:
        e = defs[e.id]
    if isinstance(e, ast.Slice) and e.step is None:
        return e.lower, e.upper
    if isinstance(e, ast.Call) and isinstance(e.func, ast.Name) and e.func.id == "slice" and len(e.args) == 2 and not e.keywords:
        return e.args[0], e.args[1]
    return None
