"""Host programs over the SDK's classical constructs, with two meanings (used by C05.X and C14.X).

A program is data: named arrays with initial values, one qubit per measurement, and a list of top-level statements

    ("add", target, source, mod)                  target.add(source[, mod])
    ("if", cond, a, b, body, form)                cond in eq ne lt ge ez nz; form "cb" (conn.if_xx(a, b, body)) or "ctx" (with a.if_xx(b):)
    ("loop", var, stop, start, step, body, form)  form "ctx" (with conn.loop(...) as var) or "body" (conn.loop_body(fn, ...))
    ("foreach", array, var, body)                 with array.foreach() as var
    ("enum", array, ivar, var, body)              with array.enumerate() as (ivar, var)
    ("until", n, body, ref, bound)                with conn.loop_until(n) as loop: body; loop.set_exit_condition(ValueAtMostConstraint(ref, bound))
    ("meas", target | None, kind)                 a fresh qubit measured into target (kind "future"), into a new array future ("array") or a register ("reg")
    ("gate", name)                                a gate on the program's work qubit `wq`
    ("until", n, body, ref, bound, cleanup)       as above, with loop.set_cleanup_code(<cleanup>) (runs after a round that does not leave the loop)
    ("seq", body)                                 several statements as one top-level unit (no flush in between)
    ("radd", k, source, mod)                      RESULTS[k].add(source[, mod]) on the k-th measurement handle (a register)
    ("py", text, remote pairs, measurements)      SDK text as it is (entanglement), with the pairs the remote node creates and the measurements it makes

References are ("A", 2) (entry 2 of array A), ("A", "i") (entry indexed by a loop variable) or a bare variable name (an element future of
foreach / enumerate, or a loop register used as a value).

`emit(program, k)` writes statement k as SDK text (run by the checker's interpreter against the repository's SDK objects);
`Reference` executes the same statement directly: Python integers, lists, `for` and `if`.  Nothing of the repository is involved in
the second meaning; the comparison of the two is the property.
"""
from __future__ import annotations

import itertools
from typing import Any, Dict, List, Optional, Tuple

CONDS = {"eq": lambda a, b: a == b, "ne": lambda a, b: a != b, "lt": lambda a, b: a < b, "ge": lambda a, b: a >= b,
         "ez": lambda a, b: a == 0, "nz": lambda a, b: a != 0}


class Program:
    def __init__(self, name: str, arrays: Dict[str, List[int]], body: List[Tuple], outcomes: Optional[List[int]] = None, work_qubit: bool = False):
        self.name, self.arrays, self.body, self.outcomes, self.work_qubit = name, arrays, body, list(outcomes or []), work_qubit


# ---------------------------------------------------------------------------------------------------------------------------------
# meaning 1: SDK text

def _ref(r) -> str:
    if isinstance(r, str):
        return r
    if isinstance(r, int):
        return str(r)
    a, i = r
    return f"{a}.get_future_index({i})"


class _Emitter:
    def __init__(self):
        self.n = itertools.count()

    def stmts(self, body, ind) -> List[str]:
        out: List[str] = []
        for st in body:
            out += self.stmt(st, ind)
        return out or [ind + "pass"]

    def stmt(self, st, ind) -> List[str]:
        k = st[0]
        if k == "add":
            _, tgt, src, mod = st
            return [f"{ind}{_ref(tgt)}.add({_ref(src)}{'' if mod is None else f', mod={mod}'})"]
        if k == "if":
            _, cond, a, b, body, form = st
            if form == "ctx":
                head = f"{ind}with {_ref(a)}.if_{cond}({'' if b is None else _ref(b)}):"
                return [head] + self.stmts(body, ind + "    ")
            fn = f"_then{next(self.n)}"
            args = _ref(a) + ("" if b is None else ", " + _ref(b))
            return [f"{ind}def {fn}(conn):"] + self.stmts(body, ind + "    ") + [f"{ind}conn.if_{cond}({args}, {fn})"]
        if k == "loop":
            _, var, stop, start, step, body, form = st
            if form == "ctx":
                return [f"{ind}with conn.loop({stop}, {start}, {step}) as {var}:"] + self.stmts(body, ind + "    ")
            fn = f"_round{next(self.n)}"
            return [f"{ind}def {fn}(conn, {var}):"] + self.stmts(body, ind + "    ") + [f"{ind}conn.loop_body({fn}, {stop}, {start}, {step})"]
        if k == "foreach":
            _, arr, var, body = st
            return [f"{ind}with {arr}.foreach() as {var}:"] + self.stmts(body, ind + "    ")
        if k == "enum":
            _, arr, ivar, var, body = st
            return [f"{ind}with {arr}.enumerate() as ({ivar}, {var}):"] + self.stmts(body, ind + "    ")
        if k == "until":
            n, body, ref, bound = st[1:5]
            lp = f"_loop{next(self.n)}"
            out = [f"{ind}with conn.loop_until({n}) as {lp}:"] + self.stmts(body, ind + "    ") + [f"{ind}    {lp}.set_exit_condition(ValueAtMostConstraint({_ref(ref)}, {bound}))"]
            if len(st) > 5:
                fn = f"_cleanup{next(self.n)}"
                out += [f"{ind}    def {fn}(conn):"] + self.stmts(st[5], ind + "        ") + [f"{ind}    {lp}.set_cleanup_code({fn})"]
            return out
        if k == "seq":
            return self.stmts(st[1], ind)
        if k == "radd":
            _, idx, src, mod = st
            return [f"{ind}RESULTS[{idx}].add({_ref(src)}{'' if mod is None else f', mod={mod}'})"]
        if k == "py":
            return [ind + ln for ln in st[1].rstrip("\n").split("\n")]
        if k == "meas":
            _, tgt, kind = st
            q = f"_q{next(self.n)}"
            if kind == "future":
                return [f"{ind}{q} = Qubit(conn)", f"{ind}{q}.measure(future={_ref(tgt)})"]
            return [f"{ind}{q} = Qubit(conn)", f"{ind}RESULTS.append({q}.measure({'store_array=False' if kind == 'reg' else ''}))"]
        if k == "gate":
            return [f"{ind}wq.{st[1]}()"]
        raise ValueError(f"statement {st!r}")


def emit_setup(p: Program) -> str:
    lines = [f"{n} = conn.new_array(init_values={list(v)!r})" for n, v in p.arrays.items()]
    lines.append("RESULTS = []")
    if p.work_qubit:
        lines.append("wq = Qubit(conn)")
    return "\n".join(lines) + "\n"


def emit(p: Program) -> List[str]:
    """one text per top-level statement (flushes go between them)"""
    e = _Emitter()
    return ["\n".join(e.stmt(st, "")) + "\n" for st in p.body]


READ = "VIEW = {n_: ([a_[k_] for k_ in range(len(a_))], [a_.get_future_index(k_).value for k_ in range(len(a_))]) for n_, a_ in ARRAYS.items()}\n" \
       "RVIEW = [(r_.value, 0) for r_ in RESULTS]\n"


# ---------------------------------------------------------------------------------------------------------------------------------
# meaning 2: direct execution

class Reference:
    def __init__(self, p: Program):
        self.arrays = {n: list(v) for n, v in p.arrays.items()}
        self.outcomes = list(p.outcomes)
        self.results: List[int] = []
        self.gates: List[str] = []
        self.measured = 0

    def _get(self, r, env):
        if isinstance(r, int):
            return r
        if isinstance(r, str):
            v = env[r]
            return self.arrays[v[1]][v[2]] if isinstance(v, tuple) else v
        a, i = r
        return self.arrays[a][env[i] if isinstance(i, str) else i]

    def _set(self, r, val, env):
        if isinstance(r, str):
            v = env[r]
            self.arrays[v[1]][v[2]] = val
            return
        a, i = r
        self.arrays[a][env[i] if isinstance(i, str) else i] = val

    def run(self, body, env=None):
        env = dict(env or {})
        for st in body:
            k = st[0]
            if k == "add":
                _, tgt, src, mod = st
                v = self._get(tgt, env) + self._get(src, env)
                self._set(tgt, v if mod is None else v % mod, env)
            elif k == "if":
                _, cond, a, b, body_, form = st
                if CONDS[cond](self._get(a, env), None if b is None else self._get(b, env)):
                    self.run(body_, env)
            elif k == "loop":
                _, var, stop, start, step, body_, form = st
                for i in range(start, stop, step):
                    self.run(body_, dict(env, **{var: i}))
            elif k == "foreach":
                _, arr, var, body_ = st
                for i in range(len(self.arrays[arr])):
                    self.run(body_, dict(env, **{var: ("entry", arr, i)}))
            elif k == "enum":
                _, arr, ivar, var, body_ = st
                for i in range(len(self.arrays[arr])):
                    self.run(body_, dict(env, **{var: ("entry", arr, i), ivar: i}))
            elif k == "until":
                n, body_, ref, bound = st[1:5]
                for _i in range(n):
                    self.run(body_, env)
                    if self._get(ref, env) <= bound:
                        break
                    if len(st) > 5:
                        self.run(st[5], env)
            elif k == "seq":
                self.run(st[1], env)
            elif k == "radd":
                _, idx, src, mod = st
                v = self.results[idx] + self._get(src, env)
                self.results[idx] = v if mod is None else v % mod
            elif k == "py":
                for _i in range(st[3]):
                    if self.outcomes:
                        self.outcomes.pop(0)
                    self.measured += 1
            elif k == "meas":
                _, tgt, kind = st
                o = self.outcomes.pop(0) if self.outcomes else 0
                self.measured += 1
                if kind == "future":
                    self._set(tgt, o, env)
                else:
                    self.results.append(o)
            elif k == "gate":
                self.gates.append(st[1].lower())
            else:
                raise ValueError(f"statement {st!r}")


# ---------------------------------------------------------------------------------------------------------------------------------
# the comparison

def run_program(ctx, job) -> Optional[Tuple[str, str]]:
    """job = (program, flush placement: tuple of top-level statement indices after which the host flushes (the last always), hardware
    setting) -> None, or (obligation, what differs)"""
    import ast
    from . import circuit as C, session as S
    p, flushes, (hardware, qubits) = job
    uses_epr = any(st[0] == "py" for st in p.body)
    w = S.HostWorld(ctx, hardware, qubits, meas_outcomes=list(p.outcomes), linked_memory=True, epr=uses_epr)
    repo = ctx.repo
    mod = repo.module("netqasm.sdk.connection")
    env: Dict[str, Any] = {"conn": w.conn, "Qubit": ("class", w.qc), "epr_socket": w.epr_socket,
                           "ValueAtMostConstraint": ("class", repo.get_class("netqasm.sdk.constraint", "ValueAtMostConstraint"))}
    ref = Reference(p)
    texts = emit(p)
    told: List[str] = []

    def tell():
        return f"[{p.name}; {hardware} hardware] " + " | ".join(told)

    w.sc.total_budget = 150000  # statements per segment (one host statement, one flush with its subroutine); the largest segment of the family takes about 61000
    w.sc.total_steps = 0
    seg = [0]

    def step(text, what):
        told.append(what)
        seg[0] = max(seg[0], w.sc.total_steps); w.sc.total_steps = 0
        r_ = S.outcome(w.I.block, ast.parse(text).body, env, mod)
        if r_[0] != "ok":
            return ("the-host-program-is-accepted", f"{tell()}: the SDK refuses the statement with {r_[1] if len(r_) > 1 else r_}: {str(r_[2])[:200] if len(r_) > 2 else ''!r}")
        return None

    bad = step(emit_setup(p), "arrays " + ", ".join(f"{n}={v}" for n, v in p.arrays.items()))
    if bad:
        return bad
    env["ARRAYS"] = {n: env[n] for n in p.arrays}
    for k, (st, text) in enumerate(zip(p.body, texts)):
        if st[0] == "py" and st[2]:
            w.expect_remote_pairs(st[2])
        bad = step(text, text.strip().replace("\n", "; "))
        if bad:
            return bad
        ref.run([st])
        if k in flushes or k == len(p.body) - 1:
            told.append("flush")
            seg[0] = max(seg[0], w.sc.total_steps); w.sc.total_steps = 0
            r_ = w.call(w.conn, "flush")
            if r_[0] != "ok":
                return ("the-host-program-is-accepted", f"{tell()}: flush is refused with {r_[1] if len(r_) > 1 else r_}: {str(r_[2])[:200] if len(r_) > 2 else ''!r}")
            for cls_name, d_ in w.deliver():
                if d_[0] != "ok":
                    return ("every-subroutine-executes-without-a-fault", f"{tell()}: the controller handles {cls_name} with {d_[1] if len(d_) > 1 else d_}: {str(d_[2])[:200] if len(d_) > 2 else ''!r}")
            r_ = S.outcome(w.I.block, ast.parse(READ).body, env, mod)
            if r_[0] != "ok":
                return ("handles-read-on-the-host", f"{tell()}: the array handles cannot be read on the host: {r_[1:3]}")
            for n, want in ref.arrays.items():
                got_items, got_futures = env["VIEW"][n]
                if list(got_items) != want:
                    return ("arrays-as-direct-execution", f"{tell()}: array {n} read on the host is {list(got_items)}, executing the program directly gives {want}")
                if list(got_futures) != want:
                    return ("futures-as-direct-execution", f"{tell()}: fresh futures of array {n} read {list(got_futures)} on the host, executing the program directly gives {want}")
            got_r = [v_ for v_, _ in env["RVIEW"]]
            if got_r != ref.results:
                return ("measurement-results-as-direct-execution", f"{tell()}: the measurement handles read {got_r} on the host, the outcomes in program order are {ref.results}")
            gates = [t_[0] for t_ in w.trace if t_[0] not in ("meas", "init")]
            if p.work_qubit and gates != ref.gates:
                return ("gates-as-direct-execution", f"{tell()}: the controller applied the gates {gates}, executing the program directly applies {ref.gates}")
            n_meas = sum(1 for t_ in w.trace if t_[0] == "meas")
            if n_meas != ref.measured:
                return ("gates-as-direct-execution", f"{tell()}: the controller measured {n_meas} times, the program measures {ref.measured} times")
    seg[0] = max(seg[0], w.sc.total_steps)
    w.max_segment = seg[0]
    run_program.last_max_segment = seg[0]
    return None


# ---------------------------------------------------------------------------------------------------------------------------------
# the programs

def programs() -> List[Program]:
    O0, O1, O2 = ("O", 0), ("O", 1), ("O", 2)
    A0, A1, A2, A3 = ("A", 0), ("A", 1), ("A", 2), ("A", 3)
    bump = [("add", O0, 1, None)]
    out: List[Program] = []
    # additions: constants, futures, the future itself, with and without a modulus
    out.append(Program("add", {"A": [3, 5], "O": [0, 0, 0]},
                       [("add", O0, 4, None), ("add", O0, A1, None), ("add", O1, 9, 4), ("add", O2, A0, 2), ("add", O1, O0, None), ("add", O0, O0, None), ("add", O2, A1, 3)]))
    # every condition, both forms, true and false cases, second operand a future or a constant
    cases = ((0, 1), (1, 0), (0, 2), (3, 3), (3, 0))  # over A = [3, 5, 3, 0]
    for form in ("cb", "ctx"):
        body = []
        for ci, c in enumerate(("eq", "ne", "lt", "ge")):
            for x, y in cases:
                body.append(("if", c, ("A", x), ("A", y), [("add", ("O", ci), 1, None)], form))
        out.append(Program(f"if-{form}-futures", {"A": [3, 5, 3, 0], "O": [0, 0, 0, 0]}, body))
        body = []
        for ci, c in enumerate(("eq", "ne", "lt", "ge")):
            for x, const in ((0, 3), (0, 4), (0, 2), (3, 0), (3, 1), (1, 5)):
                body.append(("if", c, ("A", x), const, [("add", ("O", ci), 1, None)], form))
        out.append(Program(f"if-{form}-constants", {"A": [3, 5, 3, 0], "O": [0, 0, 0, 0]}, body))
        body = []
        for ci, c in enumerate(("ez", "nz")):
            for x in (0, 3, 1):
                body.append(("if", c, ("A", x), None, [("add", ("O", ci), 1, None)], form))
        out.append(Program(f"if-{form}-unary", {"A": [3, 5, 3, 0], "O": [0, 0]}, body))
    # counted loops: both forms, a step, no round at all, the index as a value and as an array index
    for form in ("ctx", "body"):
        src = "i" if form == "ctx" else 1
        out.append(Program(f"loop-{form}", {"A": [2, 0, 4, 1, 7, 9], "O": [0, 0, 0, 0]},
                           [("loop", "i", 4, 0, 1, [("add", O0, src, None)], form), ("loop", "i", 7, 1, 2, [("add", O1, src, None)], form),
                            ("loop", "i", 3, 3, 1, [("add", O2, 1, None)], form), ("loop", "i", 6, 2, 1, [("add", ("O", 3), ("A", "i"), None)], form),
                            ("loop", "i", 1, 0, 1, [("add", O2, 5, None)], form)]))
    # counting down
    out.append(Program("loop-down", {"O": [0, 0, 0]}, [("loop", "i", 0, 3, -1, [("add", O0, "i", None)], "ctx"), ("loop", "i", 1, 7, -2, [("add", O1, 1, None)], "body"),
                                                       ("loop", "i", 2, 2, -1, [("add", O2, 1, None)], "ctx")]))
    # foreach / enumerate
    out.append(Program("foreach", {"A": [3, 5, 1], "B": [4], "O": [0, 0, 0]},
                       [("foreach", "A", "v", [("add", O0, "v", None)]), ("enum", "A", "i", "v", [("add", ("O", "i"), "v", None)]),
                        ("foreach", "B", "v", [("add", "v", 2, None), ("add", O1, "v", None)]), ("enum", "O", "k", "w", [("add", "w", "k", None)])]))
    # loop_until: leaves at the first, a middle, the last round, and not before the bound
    for name, start, bound, n in (("first", 1, 1, 5), ("middle", 3, 1, 6), ("never", 3, 0, 2), ("at-the-bound", 2, 1, 2), ("below", 3, 2, 4)):
        out.append(Program(f"until-{name}", {"C": [start], "O": [0]}, [("until", n, [("add", ("C", 0), 3, 4), ("add", O0, 1, None)], ("C", 0), bound), ("add", O0, 100, None)]))
    out.append(Program("until-measured", {"C": [9], "O": [0]}, [("until", 6, [("meas", ("C", 0), "future"), ("add", O0, 1, None)], ("C", 0), 0)], outcomes=[1, 1, 0, 1, 1, 1]))
    out.append(Program("until-measured-never", {"C": [9], "O": [0]}, [("until", 3, [("meas", ("C", 0), "future"), ("add", O0, 1, None)], ("C", 0), 0)], outcomes=[1, 1, 1, 0]))
    # measurement into a given future, a fresh array, a register
    out.append(Program("measure", {"O": [7, 7, 7]}, [("meas", O1, "future"), ("meas", None, "array"), ("meas", None, "reg"), ("meas", O0, "future"), ("meas", None, "reg"), ("meas", None, "array")],
                       outcomes=[1, 0, 1, 1, 0, 1]))
    # a register holding a measurement outcome, added to
    out.append(Program("register-add", {"A": [3, 5], "O": [0]},
                       [("seq", [("meas", None, "reg"), ("meas", None, "reg"), ("radd", 0, 4, None), ("radd", 1, ("A", 1), None), ("radd", 0, ("A", 0), 3), ("radd", 1, 9, 4), ("add", ("O", 0), 1, None)])], outcomes=[1, 0]))
    # the cleanup code of loop_until runs after every round that does not leave the loop, and only then
    out.append(Program("until-cleanup", {"C": [3], "O": [0, 0]},
                       [("until", 6, [("add", ("C", 0), 3, 4), ("add", O0, 1, None)], ("C", 0), 1, [("add", O1, 1, None)]), ("until", 2, [("add", O0, 10, None)], O0, 0, [("add", O1, 10, None)]),
                        ("until", 3, [("add", O0, 100, None)], O0, 1000, [("add", O1, 100, None)])]))
    # nesting
    out.append(Program("loop-in-loop", {"O": [0, 0]}, [("loop", "i", 3, 0, 1, [("loop", "j", 4, 0, 1, [("add", O0, "j", None), ("add", O1, "i", None)], "ctx"), ("add", O1, 100, None)], "ctx")]))
    out.append(Program("if-in-loop", {"A": [1, 0, 1, 1, 0], "O": [0, 0]},
                       [("loop", "i", 5, 0, 1, [("if", "eq", ("A", "i"), 1, [("add", O0, 1, None)], "ctx"), ("if", "ez", ("A", "i"), None, [("add", O1, "i", None)], "cb")], "ctx")]))
    out.append(Program("index-conditions", {"A": [3, 0, 2], "O": [0, 0, 0]},
                       [("loop", "i", 4, 0, 1, [("if", "ez", "i", None, [("add", O0, 1, None)], "ctx"), ("add", O1, A0, None), ("if", "nz", "i", None, [("add", O2, A2, None)], "cb"),
                                                ("if", "eq", "i", 2, [("add", O0, 10, None)], "ctx"), ("if", "lt", "i", A2, [("add", O2, 100, None)], "ctx")], "body")]))
    out.append(Program("loop-in-if", {"A": [1, 0], "O": [0, 0]},
                       [("if", "nz", A0, None, [("loop", "i", 3, 0, 1, [("add", O0, 2, None)], "ctx")], "ctx"), ("if", "nz", A1, None, [("loop", "i", 3, 0, 1, [("add", O1, 2, None)], "body")], "cb")]))
    out.append(Program("if-in-if", {"A": [3, 5, 3, 0], "O": [0, 0, 0]},
                       [("if", "lt", A0, A1, [("if", "eq", A0, A2, [("add", O0, 1, None)], "ctx"), ("if", "eq", A0, A1, [("add", O1, 1, None)], "cb"), ("add", O2, 1, None)], "ctx"),
                        ("if", "ge", A0, A1, [("if", "eq", A0, A2, [("add", O0, 10, None)], "ctx")], "cb")]))
    out.append(Program("if-in-foreach", {"A": [1, 4, 1, 0, 2], "O": [0, 0]},
                       [("foreach", "A", "v", [("if", "eq", "v", 1, [("add", O0, 1, None)], "ctx"), ("if", "ge", "v", 2, [("add", O1, "v", None)], "ctx")])]))
    out.append(Program("until-in-loop", {"C": [3], "O": [0, 0]},
                       [("loop", "i", 3, 0, 1, [("until", 5, [("add", ("C", 0), 3, 4), ("add", O0, 1, None)], ("C", 0), 0), ("add", ("C", 0), "i", None), ("add", O1, 1, None)], "ctx")]))
    out.append(Program("loop-in-until", {"C": [2], "O": [0]}, [("until", 4, [("loop", "i", 2, 0, 1, [("add", O0, 1, None)], "ctx"), ("add", ("C", 0), 3, 4)], ("C", 0), 0)]))
    out.append(Program("three-deep", {"A": [0, 1, 2], "O": [0, 0]},
                       [("loop", "i", 3, 0, 1, [("enum", "A", "k", "v", [("if", "lt", "v", 2, [("loop", "j", 2, 0, 1, [("add", O0, "k", None)], "ctx")], "ctx"), ("add", O1, "v", None)])], "ctx")]))
    # the gates of the body are applied as often as the body runs
    out.append(Program("gates", {"A": [3, 0, 1]},
                       [("gate", "H"), ("if", "eq", A0, 3, [("gate", "X")], "ctx"), ("if", "eq", A0, 4, [("gate", "Y")], "ctx"), ("loop", "i", 3, 0, 1, [("gate", "Z"), ("if", "ez", ("A", "i"), None, [("gate", "H")], "cb")], "ctx"),
                        ("foreach", "A", "v", [("if", "nz", "v", None, [("gate", "X")], "ctx")]), ("until", 3, [("gate", "Y"), ("add", A2, 1, None)], A2, 0)], work_qubit=True))
    return out


def flush_placements(p: Program) -> List[Tuple[int, ...]]:
    n = len(p.body)
    out = [(), tuple(range(n))]
    if n > 2:
        out.append(tuple(range(0, n, 2)))
    return out


def long_runs(rounds: int = 40) -> List[Program]:
    """one operation kind repeated `rounds` times on one connection (more than twice the register file), for C14"""
    O0, O1 = ("O", 0), ("O", 1)
    A0, A1 = ("A", 0), ("A", 1)
    bump = [("add", O0, 1, None)]
    kinds = {
        "if_ez on a future (context)": ("if", "ez", A1, None, bump, "ctx"),
        "if_nz on a future (callback)": ("if", "nz", A0, None, bump, "cb"),
        "if_eq on two futures": ("if", "eq", A0, A0, bump, "ctx"),
        "if_lt on a future and a constant": ("if", "lt", A0, 9, bump, "cb"),
        "loop (context)": ("loop", "i", 2, 0, 1, bump, "ctx"),
        "loop_body": ("loop", "i", 2, 0, 1, bump, "body"),
        "loop_until": ("until", 2, bump, O0, 1000),
        "foreach": ("foreach", "A", "v", [("add", O0, "v", None)]),
        "enumerate": ("enum", "A", "i", "v", [("add", O0, "i", None)]),
        "add of a future": ("add", O0, A0, None),
        "add of a future with a modulus": ("add", O1, A0, 7),
        "measure into a future": ("meas", O1, "future"),
        "if inside a loop": ("loop", "i", 2, 0, 1, [("if", "nz", A0, None, bump, "ctx")], "ctx"),
        "add of the constant zero": ("add", O0, 0, None),
        "condition on the loop index, then a temporary": ("loop", "i", 3, 0, 1, [("if", "ez", "i", None, bump, "ctx"), ("add", O1, A0, None), ("if", "nz", "i", None, bump, "cb")], "body"),
        "loop_until inside a loop": ("loop", "i", 2, 0, 1, [("until", 2, bump, A1, 0)], "ctx"),
    }
    out = [Program(f"{rounds} x {name}", {"A": [3, 0], "O": [0, 0]}, [st] * rounds) for name, st in kinds.items()]
    out.append(Program(f"{rounds} x add to a register", {"A": [3, 0], "O": [0, 0]}, [("seq", [("meas", None, "reg")] + [("radd", 0, ("A", 0), 5)] * rounds)], outcomes=[1]))
    # entanglement (flushed after every operation: the application has three qubits)
    epr = {
        "create_keep": ("py", "epr_socket.create_keep(number=1)[0].measure()", 0, 1),
        "recv_keep": ("py", "epr_socket.recv_keep(number=1)[0].measure()", 1, 1),
        "create_keep of two pairs": ("py", "for q_ in epr_socket.create_keep(number=2):\n    q_.measure()", 0, 2),
        "create_context": ("py", "with epr_socket.create_context(number=2, sequential=True) as (q_, pair_):\n    q_.H()\n    m_ = q_.measure()", 0, 2),
        "create_keep with a post routine": ("py", "def post_(conn, q_, pair_):\n    q_.H()\nfor q_ in epr_socket.create_keep(number=2, post_routine=post_):\n    q_.measure()", 0, 2),
        "recv_keep with a post routine": ("py", "def post_(conn, q_, pair_):\n    q_.X()\nepr_socket.recv_keep(number=1, post_routine=post_)[0].measure()", 1, 1),
    }
    n_epr = 20 if rounds >= 36 else 17
    out += [Program(f"{n_epr} x {name}", {"O": [0]}, [st] * n_epr) for name, st in epr.items()]
    return out


def long_run_flushes(p: Program) -> Tuple[int, ...]:
    if any(st[0] == "py" for st in p.body):
        return tuple(range(len(p.body)))
    return tuple(range(6, len(p.body), 7))



def run_all(ctx, jobs, chunk: int = 16):
    """results of run_program over the jobs, first failure per obligation; stops early once a few have failed (a broken tree makes
    most programs fail, many of them by not terminating - every one of those costs the whole step budget)"""
    from . import session as S
    bad: Dict[str, str] = {}
    done = 0
    failures = 0
    for k in range(0, len(jobs), chunk):
        part = jobs[k:k + chunk]
        for res in S.parallel_map(ctx, run_program, part, jobs=min(16, len(part))):
            done += 1
            if res is not None:
                failures += 1
                bad.setdefault(res[0], res[1])
        if failures >= 3:
            break
    return bad, done
