"""Per-function structured control-flow graph and path facts.

Statement-level CFG over the statement kinds the repo uses.  Exceptional edges
out of ordinary calls are not modelled (a path that dies with an exception is
outside every rule) except inside `try` bodies (every statement of the body may
jump to each handler) and for `raise` / `assert`.
"""
from __future__ import annotations

import ast
from typing import Callable, Dict, Iterable, List, Optional, Set, Tuple

import networkx as nx

INF = float("inf")


class CFG:
    def __init__(self, fn):
        self.fn = fn
        self.g = nx.DiGraph()
        self._n = 0
        self.stmt: Dict[int, Optional[ast.AST]] = {}
        self.node_of: Dict[int, int] = {}
        self.entry = self._new(None, "entry")
        self.exit = self._new(None, "exit")
        self.raise_exit = self._new(None, "raise")
        self.unsupported: List[str] = []
        self.edge_cond: Dict[Tuple[int, int], Tuple[ast.AST, bool]] = {}
        ends = self._block(fn.body, [self.entry], None, None, [])
        for e in ends:
            self.g.add_edge(e, self.exit)

    # -- construction -----------------------------------------------------
    def _new(self, stmt, kind="stmt"):
        n = self._n
        self._n += 1
        self.g.add_node(n, kind=kind)
        self.stmt[n] = stmt
        if stmt is not None:
            self.node_of[id(stmt)] = n
        return n

    def _link(self, preds, n, cond=None):
        for p in preds:
            self.g.add_edge(p, n)
            if cond is not None and isinstance(p, int):
                self.edge_cond[(p, n)] = cond

    def _block(self, stmts, preds, brk, cont, handlers):
        """returns list of nodes from which control falls out of the block.
        brk / cont: lists collecting nodes that break / continue.
        handlers: stack of lists collecting nodes that may raise into a handler."""
        cur = list(preds)
        for st in stmts:
            if not cur:
                break  # unreachable code
            cur = self._stmt(st, cur, brk, cont, handlers)
        return cur

    def _stmt(self, st, preds, brk, cont, handlers):
        n = self._new(st)
        self._link(preds, n)
        for h in handlers:
            h.append(n)
        if isinstance(st, ast.If):
            t = self._block(st.body, [n], brk, cont, handlers) if st.body else [n]
            self._tag_first(n, st.body, (st.test, True))
            if st.orelse:
                f = self._block(st.orelse, [n], brk, cont, handlers)
                self._tag_first(n, st.orelse, (st.test, False))
            else:
                f = [n]
            return t + f
        if isinstance(st, (ast.For, ast.AsyncFor, ast.While)):
            my_brk: List[int] = []
            my_cont: List[int] = []
            body_end = self._block(st.body, [n], my_brk, my_cont, handlers)
            for e in body_end + my_cont:
                self.g.add_edge(e, n)  # back edge
            infinite = isinstance(st, ast.While) and isinstance(st.test, ast.Constant) and bool(st.test.value)
            out = [] if infinite else [n]
            if st.orelse:
                out = self._block(st.orelse, out, brk, cont, handlers) if out else []
            return out + my_brk
        if isinstance(st, ast.Try):
            my_h: List[int] = []
            body_end = self._block(st.body, [n], brk, cont, handlers + [my_h])
            if st.orelse:
                body_end = self._block(st.orelse, body_end, brk, cont, handlers)
            h_ends = []
            for h in st.handlers:
                hn = self._new(h)
                self._link([n] + my_h, hn)
                h_ends += self._block(h.body, [hn], brk, cont, handlers)
            outs = body_end + h_ends
            if st.finalbody:
                outs = self._block(st.finalbody, outs, brk, cont, handlers)
            return outs
        if isinstance(st, (ast.With, ast.AsyncWith)):
            return self._block(st.body, [n], brk, cont, handlers)
        if isinstance(st, ast.Return):
            self.g.add_edge(n, self.exit)
            return []
        if isinstance(st, ast.Raise):
            if handlers:
                pass  # already linked to the innermost handler through `handlers`
            else:
                self.g.add_edge(n, self.raise_exit)
            return []
        if isinstance(st, ast.Assert):
            self.g.add_edge(n, self.raise_exit)
            return [n]
        if isinstance(st, ast.Break):
            if brk is not None:
                brk.append(n)
            return []
        if isinstance(st, ast.Continue):
            if cont is not None:
                cont.append(n)
            return []
        if isinstance(st, (ast.FunctionDef, ast.AsyncFunctionDef, ast.ClassDef)):
            return [n]
        if isinstance(st, ast.Match):
            self.unsupported.append("match")
            return [n]
        return [n]

    def _tag_first(self, n, body, cond):
        if body:
            first = self.node_of.get(id(body[0]))
            if first is not None:
                self.edge_cond[(n, first)] = cond

    # -- queries ----------------------------------------------------------
    def node(self, stmt) -> Optional[int]:
        return self.node_of.get(id(stmt))

    def stmt_containing(self, node) -> Optional[int]:
        """CFG node of the innermost statement containing an AST node.
        For compound statements the header (test / iter / items) belongs to the statement itself."""
        best = None
        for sid, n in self.node_of.items():
            st = self.stmt[n]
            if st is None:
                continue
            parts = header_parts(st)
            for p in parts:
                if any(x is node for x in ast.walk(p)):
                    best = n
        return best

    def reachable_from_entry(self) -> Set[int]:
        return set(nx.descendants(self.g, self.entry)) | {self.entry}

    def dominators(self) -> Dict[int, Set[int]]:
        if getattr(self, "_dom", None) is not None:
            return self._dom
        idom = dict(nx.immediate_dominators(self.g, self.entry))
        idom[self.entry] = self.entry
        out: Dict[int, Set[int]] = {}
        for n in idom:
            s = set()
            x = n
            while True:
                s.add(x)
                if x not in idom or idom[x] == x:
                    break
                x = idom[x]
            out[n] = s
        self._dom = out
        return out

    def dominates(self, a: int, b: int) -> bool:
        d = self.dominators()
        return b in d and a in d[b]

    def count_on_paths(self, is_event: Callable[[ast.AST], int], target: Optional[int] = None, source: Optional[int] = None) -> Tuple[float, float]:
        """(min, max) number of events over all paths source -> target (default entry -> normal exit).
        max is INF when an event lies on a cycle that can reach the target."""
        target = self.exit if target is None else target
        source = self.entry if source is None else source
        g = self.g
        reach_t = nx.ancestors(g, target) | {target}
        reach_s = nx.descendants(g, source) | {source}
        nodes = reach_t & reach_s
        if target not in nodes or source not in nodes:
            return (INF, -INF)  # no path
        sub = g.subgraph(nodes)
        w = {n: (is_event(self.stmt[n]) if self.stmt[n] is not None else 0) for n in nodes}
        cond = nx.condensation(sub)
        mapping = cond.graph["mapping"]
        cw = {}
        cyc = {}
        for c in cond.nodes:
            members = cond.nodes[c]["members"]
            cw[c] = sum(w[m] for m in members)
            cyc[c] = len(members) > 1 or any(sub.has_edge(m, m) for m in members)
        order = list(nx.topological_sort(cond))
        mn = {c: INF for c in cond.nodes}
        mx = {c: -INF for c in cond.nodes}
        sc = mapping[source]
        # inside a cyclic component min = 0 extra (can choose a path avoiding? no: conservatively min over members is hard) -> use:
        # min: events in a cyclic SCC are counted as min over simple traversal = 0 if avoidable; we approximate by
        # weight of the entry..exit nodes only when acyclic; for cyclic comps min adds 0, max adds INF if weight > 0.
        def comp_min(c):
            return 0 if cyc[c] else cw[c]

        def comp_max(c):
            return (INF if cw[c] > 0 else 0) if cyc[c] else cw[c]

        mn[sc] = comp_min(sc)
        mx[sc] = comp_max(sc)
        for c in order:
            if mn[c] == INF:
                continue
            for d in cond.successors(c):
                mn[d] = min(mn[d], mn[c] + comp_min(d))
                mx[d] = max(mx[d], mx[c] + comp_max(d))
        tc = mapping[target]
        return (mn[tc], mx[tc])

    def paths_avoiding(self, avoid: Callable[[ast.AST], bool], source: int, target: int) -> bool:
        """is there a path source -> target that passes no statement for which avoid() holds (endpoints excluded)?"""
        g = self.g
        ok = [n for n in g.nodes if n in (source, target) or self.stmt[n] is None or not avoid(self.stmt[n])]
        sub = g.subgraph(ok)
        return source in sub and target in sub and nx.has_path(sub, source, target)


def header_parts(st) -> List[ast.AST]:
    """the parts of a statement that are evaluated at its own CFG node"""
    if isinstance(st, (ast.If, ast.While)):
        return [st.test]
    if isinstance(st, (ast.For, ast.AsyncFor)):
        return [st.iter, st.target]
    if isinstance(st, (ast.With, ast.AsyncWith)):
        return [i.context_expr for i in st.items] + [i.optional_vars for i in st.items if i.optional_vars is not None]
    if isinstance(st, ast.Try):
        return []
    if isinstance(st, ast.ExceptHandler):
        return [st.type] if st.type is not None else []
    if isinstance(st, (ast.FunctionDef, ast.AsyncFunctionDef, ast.ClassDef)):
        return list(st.decorator_list)
    return [st]


def events_in(st, pred: Callable[[ast.AST], bool]) -> int:
    """number of AST nodes satisfying pred in the header part of a statement"""
    if st is None:
        return 0
    n = 0
    for p in header_parts(st):
        for x in ast.walk(p):
            if isinstance(x, (ast.FunctionDef, ast.AsyncFunctionDef, ast.Lambda, ast.ClassDef)) and x is not p:
                continue
            if pred(x):
                n += 1
    return n
